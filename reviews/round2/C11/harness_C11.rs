// Harness for property C11 (fragmentation always progresses and partitions the PDU exactly).
// Public API only.  Copy to tests/harness_C11.rs and run
//   CARGO_NET_OFFLINE=true cargo test --offline --test harness_C11 [--release] -- --nocapture
//
// Every packet is checked against an independent wire parser / independent CRC, NOT against a
// transcription of the implementation.  A second, explicit "model" (maximal fill) is asserted as well
// and labelled MODEL in the messages, so that a model mismatch can be told from a property violation.

use dvb_gse_rust::crc::{CrcCalculator, DefaultCrc};
use dvb_gse_rust::gse_decap::{
    DecapError, DecapStatus, Decapsulator, GseDecapMemory, SimpleGseMemory,
};
use dvb_gse_rust::gse_encap::{
    encap_frag_preview, encap_preview, ContextFrag, EncapError, EncapMetadata, EncapStatus,
    Encapsulator,
};
use dvb_gse_rust::header_extension::{
    Extension, MandatoryHeaderExt, MandatoryHeaderExtensionManager,
};
use dvb_gse_rust::label::Label;

const SCRATCH: usize = 70_000;
const FILL: u8 = 0xA5;

// ---------------------------------------------------------------- helpers

#[derive(Clone)]
struct Rng(u64);
impl Rng {
    fn next(&mut self) -> u64 {
        let mut x = self.0;
        x ^= x << 13;
        x ^= x >> 7;
        x ^= x << 17;
        self.0 = x;
        x.wrapping_mul(0x2545_F491_4F6C_DD1D)
    }
    fn below(&mut self, n: usize) -> usize {
        (self.next() % n as u64) as usize
    }
    fn range(&mut self, lo: usize, hi_incl: usize) -> usize {
        lo + self.below(hi_incl - lo + 1)
    }
}

fn big_pdu(seed: u64) -> Vec<u8> {
    let mut r = Rng(seed | 1);
    (0..140_000).map(|_| (r.next() >> 32) as u8).collect()
}

/// independent CRC-32/MPEG-2, bitwise
fn crc_bits(mut crc: u32, data: &[u8]) -> u32 {
    for &b in data {
        crc ^= (b as u32) << 24;
        for _ in 0..8 {
            crc = if crc & 0x8000_0000 != 0 {
                (crc << 1) ^ 0x04C1_1DB7
            } else {
                crc << 1
            };
        }
    }
    crc
}
fn ref_crc(pdu: &[u8], ptype: u16, total: u16, label: &[u8]) -> u32 {
    let mut c = crc_bits(0xFFFF_FFFF, &total.to_be_bytes());
    c = crc_bits(c, &ptype.to_be_bytes());
    c = crc_bits(c, label);
    crc_bits(c, pdu)
}

/// cheap CRC replacement for bulk sweeps (public trait): depends on every field, O(1) in the pdu length
#[derive(Clone, Debug, PartialEq, Eq)]
struct CheapCrc;
fn cheap(pdu: &[u8], ptype: u16, total: u16, label: &[u8]) -> u32 {
    let mut h: u32 = 0x9E37_79B9 ^ (pdu.len() as u32).wrapping_mul(0x85EB_CA6B);
    h = h.rotate_left(5) ^ ptype as u32;
    h = h.wrapping_mul(0xC2B2_AE35).rotate_left(7) ^ total as u32;
    for &b in label {
        h = h.wrapping_mul(31) ^ b as u32;
    }
    let n = pdu.len();
    for &i in &[0usize, 1, n / 2, n.wrapping_sub(2), n.wrapping_sub(1)] {
        if i < n {
            h = h.wrapping_mul(0x0100_0193) ^ pdu[i] as u32 ^ ((i as u32) << 8);
        }
    }
    h
}
impl CrcCalculator for CheapCrc {
    fn calculate_crc32(&self, pdu: &[u8], ptype: u16, total: u16, label: &[u8]) -> u32 {
        cheap(pdu, ptype, total, label)
    }
}

struct Hdr {
    s: bool,
    e: bool,
    lt: u8,
    gse_len: usize,
}
fn hdr(b: &[u8]) -> Hdr {
    let w = u16::from_be_bytes([b[0], b[1]]);
    Hdr {
        s: w & 0x8000 != 0,
        e: w & 0x4000 != 0,
        lt: ((w >> 12) & 3) as u8,
        gse_len: (w & 0x0FFF) as usize,
    }
}
fn lt_of(l: &Label) -> u8 {
    match l {
        Label::SixBytesLabel(_) => 0,
        Label::ThreeBytesLabel(_) => 1,
        Label::Broadcast => 2,
        Label::ReUse => 3,
    }
}

fn scratch() -> Vec<u8> {
    vec![FILL; SCRATCH]
}

/// check that nothing was written after `n` (full or windowed) and restore the sentinel
struct W<'a>(&'a dyn Fn() -> String);
impl std::fmt::Display for W<'_> {
    fn fmt(&self, f: &mut std::fmt::Formatter<'_>) -> std::fmt::Result {
        f.write_str(&(self.0)())
    }
}

fn check_tail_and_restore(buf: &mut [u8], n: usize, full: bool, what: &dyn std::fmt::Display) {
    let len = buf.len();
    if full {
        assert!(buf[n..].iter().all(|&b| b == FILL), "{what}: wrote after the packet");
    } else {
        let w = (n + 64).min(len);
        assert!(buf[n..w].iter().all(|&b| b == FILL), "{what}: wrote after the packet");
        if len > n {
            assert_eq!(buf[len - 1], FILL, "{what}: wrote at end of buffer");
        }
    }
    buf[..n.min(len)].fill(FILL);
}

#[derive(Debug, Clone, Copy, PartialEq, Eq)]
enum FragOut {
    End(usize),
    Mid(usize, ContextFrag),
    Rejected,
}

/// One continuation call, with every clause of C11 checked on the produced bytes.
fn checked_frag<C: CrcCalculator>(
    enc: &Encapsulator<C>,
    pdu: &[u8],
    ctx: &ContextFrag,
    sc: &mut [u8],
    buf_len: usize,
    full_tail: bool,
    sink: Option<&mut Vec<u8>>,
) -> FragOut {
    let pos = ctx.len_pdu_frag() as usize;
    assert!(pos <= pdu.len());
    let rem = pdu.len() - pos;
    let wf = || format!("encap_frag L={} pos={} buf={}", pdu.len(), pos, buf_len);
    let what = W(&wf);
    let buf = &mut sc[..buf_len];
    let prev = encap_frag_preview(pdu, ctx, buf);
    let r = enc.encap_frag(pdu, ctx, buf);
    let out = match r {
        Ok(EncapStatus::CompletedPkt(n)) => {
            let n = n as usize;
            assert!(n <= buf_len, "{what}: packet longer than buffer");
            assert!(n <= 4097, "{what}: packet longer than 4097");
            assert_eq!(n, rem + 7, "{what}: end packet must carry all the remaining bytes + crc");
            let h = hdr(buf);
            assert!(!h.s && h.e, "{what}: S/E of end packet");
            assert_eq!(h.lt, 3, "{what}");
            assert_eq!(h.gse_len, n - 2, "{what}");
            assert_eq!(buf[2], ctx.frag_id(), "{what}");
            assert!(buf[3..3 + rem] == pdu[pos..], "{what}: end payload is not pdu[pos..]");
            assert_eq!(buf[3 + rem..n], ctx.crc().to_be_bytes(), "{what}: crc");
            let p = prev.expect("preview must agree (end)");
            assert_eq!(format!("{:?}", p.pkt_type()), "EndFragPkt");
            assert_eq!((p.pdu_len(), p.pkt_len() as usize), (rem, n));
            FragOut::End(n)
        }
        Ok(EncapStatus::FragmentedPkt(n, c2)) => {
            let n = n as usize;
            assert!(n <= buf_len, "{what}: packet longer than buffer");
            assert!(n <= 4097, "{what}: packet longer than 4097");
            assert!(n >= 4, "{what}: EMPTY intermediate fragment (receiver refuses it)");
            let k = n - 3;
            assert!(k >= 1 && k <= rem, "{what}: k={k}");
            let h = hdr(buf);
            assert!(!h.s && !h.e, "{what}: S/E of intermediate packet");
            assert_eq!(h.lt, 3, "{what}");
            assert_eq!(h.gse_len, n - 2, "{what}");
            assert_eq!(buf[2], ctx.frag_id(), "{what}");
            assert!(buf[3..n] == pdu[pos..pos + k], "{what}: payload is not pdu[pos..pos+k]");
            assert_eq!(c2.frag_id(), ctx.frag_id(), "{what}: frag id changed");
            assert_eq!(c2.crc(), ctx.crc(), "{what}: crc changed");
            assert_eq!(c2.len_pdu_frag() as usize, pos + k, "{what}: context not advanced by k");
            // MODEL: maximal fill
            assert_eq!(k, rem.min(buf_len - 3).min(4094), "MODEL {what}: not maximal");
            // MODEL: an intermediate is produced only when the end packet cannot be
            assert!(buf_len < rem + 7 || rem + 5 > 4095, "MODEL {what}: end packet was possible");
            let p = prev.expect("preview must agree (mid)");
            assert_eq!(format!("{:?}", p.pkt_type()), "IntermediateFragPkt");
            assert_eq!((p.pdu_len(), p.pkt_len() as usize), (k, n));
            FragOut::Mid(n, c2)
        }
        Err(e) => {
            assert_eq!(e, EncapError::ErrorSizeBuffer, "{what}");
            // a buffer of 7 bytes or more can always carry something useful
            assert!(buf_len < 7, "{what}: a buffer >= 7 was rejected");
            // MODEL: 4..=6 bytes carry 1..=3 payload bytes when some are left
            assert!(buf_len <= 3 || rem == 0, "MODEL {what}: rejected although payload fits");
            assert_eq!(prev, Err(EncapError::ErrorSizeBuffer));
            FragOut::Rejected
        }
    };
    let n = match out {
        FragOut::End(n) | FragOut::Mid(n, _) => n,
        FragOut::Rejected => 0,
    };
    if let Some(s) = sink {
        s.extend_from_slice(&sc[..n]);
    }
    check_tail_and_restore(&mut sc[..buf_len], n, full_tail, &what);
    out
}

#[derive(Debug, Clone, Copy, PartialEq, Eq)]
enum FirstOut {
    Complete(usize),
    First(usize, ContextFrag),
    Rejected(u8), // 0 size buffer, 1 pdu length
}

/// bytes between the label and the pdu for an extension chain, plus the leading id
fn ext_wire(exts: &[Extension], ptype: u16, final_mand: bool) -> (u16, Vec<u8>) {
    use dvb_gse_rust::header_extension::ExtensionData as D;
    let mut v = vec![];
    for (i, e) in exts.iter().enumerate() {
        if i > 0 {
            v.extend_from_slice(&e.id().to_be_bytes());
        }
        match e.data() {
            D::Data2(d) => v.extend_from_slice(d),
            D::Data4(d) => v.extend_from_slice(d),
            D::Data6(d) => v.extend_from_slice(d),
            D::Data8(d) => v.extend_from_slice(d),
            D::NoData => {}
            D::MandatoryData(d) => v.extend_from_slice(d),
        }
    }
    if !final_mand {
        v.extend_from_slice(&ptype.to_be_bytes());
    }
    (exts[0].id(), v)
}

/// One encap / encap_ext call, checked on the wire.  `wire_label` is the label expected on the wire.
#[allow(clippy::too_many_arguments)]
fn checked_first<C: CrcCalculator>(
    enc: &mut Encapsulator<C>,
    crc_fn: &dyn Fn(&[u8], u16, u16, &[u8]) -> u32,
    pdu: &[u8],
    frag_id: u8,
    md: EncapMetadata,
    wire_label: Label,
    exts: Option<&Vec<Extension>>,
    sc: &mut [u8],
    buf_len: usize,
    full_tail: bool,
    sink: Option<&mut Vec<u8>>,
) -> FirstOut {
    let l = pdu.len();
    let ll = wire_label.len();
    let wf = || {
        format!(
            "encap L={} buf={} label={:?} ptype={:#06x} ext={}",
            l,
            buf_len,
            wire_label,
            md.protocol_type,
            exts.map_or(0, |e| e.len())
        )
    };
    let what = W(&wf);
    let (first_id, mid): (u16, Vec<u8>) = match exts {
        None => (md.protocol_type, vec![]),
        Some(e) => ext_wire(e, md.protocol_type, md.protocol_type < 0x100),
    };
    let xl = mid.len();
    let buf = &mut sc[..buf_len];
    let r = match exts {
        None => {
            let prev = encap_preview(pdu, md, buf);
            let r = enc.encap(pdu, frag_id, md, buf);
            // preview does not know the re-use state: only comparable when the label is sent as is
            if wire_label == md.label {
                match (&r, &prev) {
                    (Ok(EncapStatus::CompletedPkt(n)), Ok(p)) => {
                        assert_eq!(format!("{:?}", p.pkt_type()), "CompletePkt");
                        assert_eq!(p.pkt_len(), *n, "{what}: preview");
                    }
                    (Ok(EncapStatus::FragmentedPkt(n, _)), Ok(p)) => {
                        assert_eq!(format!("{:?}", p.pkt_type()), "FirstFragPkt");
                        assert_eq!(p.pkt_len(), *n, "{what}: preview");
                    }
                    (Err(a), Err(b)) => assert_eq!(a, b, "{what}: preview"),
                    _ => panic!("{what}: preview disagrees {:?} {:?}", r, prev),
                }
            }
            r
        }
        Some(e) => enc.encap_ext(pdu, frag_id, md, buf, e.clone()),
    };
    let out = match r {
        Ok(EncapStatus::CompletedPkt(n)) => {
            let n = n as usize;
            assert!(n <= buf_len && n <= 4097, "{what}");
            assert_eq!(n, 4 + ll + xl + l, "{what}: complete length");
            let h = hdr(buf);
            assert!(h.s && h.e, "{what}");
            assert_eq!(h.lt, lt_of(&wire_label), "{what}");
            assert_eq!(h.gse_len, n - 2, "{what}");
            assert_eq!(buf[2..4], first_id.to_be_bytes(), "{what}");
            assert_eq!(&buf[4..4 + ll], wire_label.get_bytes(), "{what}");
            assert_eq!(&buf[4 + ll..4 + ll + xl], &mid[..], "{what}: extension bytes");
            assert!(buf[4 + ll + xl..n] == *pdu, "{what}: payload");
            FirstOut::Complete(n)
        }
        Ok(EncapStatus::FragmentedPkt(n, ctx)) => {
            let n = n as usize;
            assert!(n <= buf_len, "{what}: packet longer than buffer");
            assert!(n <= 4097, "{what}: packet longer than 4097");
            assert!(n >= 7 + ll + xl, "{what}: shorter than its header");
            let k = n - 7 - ll - xl;
            assert!(k <= l, "{what}: carried more than the pdu");
            let h = hdr(buf);
            assert!(h.s && !h.e, "{what}");
            assert_eq!(h.lt, lt_of(&wire_label), "{what}");
            assert_eq!(h.gse_len, n - 2, "{what}");
            assert_eq!(buf[2], frag_id, "{what}");
            let total = u16::from_be_bytes([buf[3], buf[4]]) as usize;
            assert_eq!(total, l + 2 + ll, "{what}: total length");
            assert_eq!(buf[5..7], first_id.to_be_bytes(), "{what}");
            assert_eq!(&buf[7..7 + ll], wire_label.get_bytes(), "{what}");
            assert_eq!(&buf[7 + ll..7 + ll + xl], &mid[..], "{what}: extension bytes");
            assert!(buf[7 + ll + xl..n] == pdu[..k], "{what}: payload is not pdu[..k]");
            assert_eq!(ctx.len_pdu_frag() as usize, k, "{what}: context does not count the bytes carried");
            assert_eq!(ctx.frag_id(), frag_id, "{what}");
            assert_eq!(
                ctx.crc(),
                crc_fn(pdu, md.protocol_type, total as u16, wire_label.get_bytes()),
                "{what}: crc"
            );
            // MODEL: maximal fill, and only when a complete packet is impossible
            assert_eq!(k, (buf_len - 7 - ll - xl).min(4097 - 7 - ll - xl), "MODEL {what}");
            assert!(buf_len < 4 + ll + xl + l || 2 + ll + xl + l > 4095, "MODEL {what}");
            FirstOut::First(n, ctx)
        }
        Err(EncapError::ErrorSizeBuffer) => {
            // MODEL
            let complete_ok = buf_len >= 4 + ll + xl + l && 2 + ll + xl + l <= 4095;
            assert!(!complete_ok, "MODEL {what}: complete packet refused");
            assert!(buf_len < 7 + ll + xl || 7 + ll + xl > 4097, "MODEL {what}: first fragment refused");
            FirstOut::Rejected(0)
        }
        Err(EncapError::ErrorPduLength) => {
            assert!(l + 2 + ll > 65535, "{what}: pdu length refused");
            FirstOut::Rejected(1)
        }
        Err(e) => panic!("{what}: unexpected error {e:?}"),
    };
    let n = match out {
        FirstOut::Complete(n) | FirstOut::First(n, _) => n,
        FirstOut::Rejected(_) => 0,
    };
    if let Some(s) = sink {
        s.extend_from_slice(&sc[..n]);
    }
    check_tail_and_restore(&mut sc[..buf_len], n, full_tail, &what);
    out
}

// ---- receiver

#[derive(Clone, Copy)]
struct Mgr;
impl MandatoryHeaderExtensionManager for Mgr {
    fn is_mandatory_header_id_known(&self, id: u16) -> MandatoryHeaderExt {
        match id {
            0x10..=0x18 => MandatoryHeaderExt::NonFinal((id - 0x10) as u8),
            0x20..=0x28 => MandatoryHeaderExt::Final((id - 0x20) as u8),
            0x00 | 0x81 | 0x82 | 0xFF => MandatoryHeaderExt::Final(0),
            _ => MandatoryHeaderExt::Unknown,
        }
    }
}

fn receiver<C: CrcCalculator>(
    c: C,
    slots: usize,
    max_pdu: usize,
    storage_len: usize,
    n_storage: usize,
) -> Decapsulator<SimpleGseMemory, C, Mgr> {
    let mut m = SimpleGseMemory::new(slots, max_pdu, 0, 0);
    for _ in 0..n_storage {
        m.provision_storage(vec![0xEE; storage_len].into_boxed_slice()).unwrap();
    }
    Decapsulator::new(m, c, Mgr)
}

/// Walk a byte stream of back-to-back packets; returns the completed PDUs (and gives storages back).
fn walk<C: CrcCalculator>(
    dec: &mut Decapsulator<SimpleGseMemory, C, Mgr>,
    stream: &[u8],
) -> Vec<(Vec<u8>, u16, Label, Vec<Extension>)> {
    let mut off = 0;
    let mut out = vec![];
    while stream.len() - off >= 2 {
        match dec.decap(&stream[off..]) {
            Ok((DecapStatus::CompletedPkt(b, md), n)) => {
                out.push((b[..md.pdu_len()].to_vec(), md.protocol_type(), md.label(), md.extensions().clone()));
                dec.provision_storage(b).unwrap();
                off += n;
            }
            Ok((DecapStatus::FragmentedPkt(_), n)) => off += n,
            Ok((DecapStatus::Padding, _)) => break,
            Err((e, n)) => panic!("receiver refused a packet at {off}: {e:?} (len {n}) bytes {:02x?}", &stream[off..(off + 12).min(stream.len())]),
        }
    }
    out
}

fn labels() -> Vec<Label> {
    vec![
        Label::SixBytesLabel([1, 2, 3, 4, 5, 6]),
        Label::SixBytesLabel([0, 0, 0, 0, 0, 1]),
        Label::ThreeBytesLabel([9, 8, 7]),
        Label::ThreeBytesLabel([0, 0, 0]),
        Label::Broadcast,
    ]
}
const PTYPES: [u16; 8] = [0x0600, 0x0601, 0x0800, 0x86DD, 0xFFFF, 0x00FF, 0x0081, 0x0000];

fn debug_build() -> bool {
    // the debug profile turned out fast enough: same case counts in both profiles
    false
}

// ---------------------------------------------------------------- tests

/// every (remaining, buffer) pair in 0..=300 x 0..=330, three context positions, all frag ids cycling
#[test]
fn c11_frag_exhaustive_small() {
    let big = big_pdu(11);
    let enc = Encapsulator::new(DefaultCrc {});
    let mut sc = scratch();
    let mut n = 0u64;
    let mut fid = 0u8;
    for rem in 0..=300usize {
        for &pos in &[0usize, 1, 4093] {
            let l = pos + rem;
            let pdu = &big[rem..rem + l];
            for buf in 0..=330usize {
                fid = fid.wrapping_add(1);
                let ctx = ContextFrag::new(fid, 0xDEAD_0000 ^ (n as u32), pos as u16);
                checked_frag(&enc, pdu, &ctx, &mut sc[..400], buf, true, None);
                n += 1;
            }
        }
    }
    println!("c11_frag_exhaustive_small: {n} calls");
}

/// every remaining length 0..=65535 (context anywhere incl. at the very end), characteristic buffers
#[test]
fn c11_frag_all_remaining() {
    let big = big_pdu(12);
    let enc = Encapsulator::new(CheapCrc);
    let mut sc = scratch();
    let mut rng = Rng(0xC11);
    let mut n = 0u64;
    let (mut ends, mut mids, mut rej) = (0u64, 0u64, 0u64);
    for rem in 0..=65535usize {
        // L = 65535 with the context at 65535-rem, and L = rem with the context at 0, and a random split
        let extra = rng.below(65535 - rem + 1);
        let positions: &[usize] = if debug_build() { &[65535 - rem, extra] } else { &[65535 - rem, 0, extra] };
        for &pos in positions {
            let l = pos + rem;
            let pdu = &big[7..7 + l];
            let mut bufs: Vec<usize> = vec![0, 1, 2, 3, 4, 5, 6, 7, 8, 9, 4093, 4094, 4095, 4096, 4097, 4098, 4099, 4101, 65535, 65540, 70000];
            for d in 0..=10 {
                if rem + d >= 1 {
                    bufs.push(rem + d - 1); // rem-1 .. rem+9 : around "all payload fits" (rem+3) and "end fits" (rem+7)
                }
            }
            bufs.push(rng.range(0, 70000));
            bufs.push(rng.range(0, 5000));
            for b in bufs {
                if b > SCRATCH {
                    continue;
                }
                let ctx = ContextFrag::new((n % 256) as u8, n as u32 ^ 0x5A5A_5A5A, pos as u16);
                match checked_frag(&enc, pdu, &ctx, &mut sc, b, false, None) {
                    FragOut::End(_) => ends += 1,
                    FragOut::Mid(..) => mids += 1,
                    FragOut::Rejected => rej += 1,
                }
                n += 1;
            }
        }
    }
    println!("c11_frag_all_remaining: {n} calls  end={ends} mid={mids} rejected={rej}");
}

/// all 256 frag ids x crc corner values are carried unchanged
#[test]
fn c11_frag_ids_and_crcs() {
    let big = big_pdu(13);
    let enc = Encapsulator::new(DefaultCrc {});
    let mut sc = scratch();
    let mut n = 0;
    for fid in 0..=255u8 {
        for &crc in &[0u32, 1, 0xFFFF_FFFF, 0x8000_0000, 0x0000_FFFF, 0x1234_5678] {
            for &(l, pos, b) in &[(100usize, 10usize, 50usize), (100, 10, 97), (100, 100, 7), (5000, 0, 70000), (5000, 906, 70000), (65535, 65535, 7)] {
                let ctx = ContextFrag::new(fid, crc, pos as u16);
                checked_frag(&enc, &big[..l], &ctx, &mut sc, b, false, None);
                n += 1;
            }
        }
    }
    println!("c11_frag_ids_and_crcs: {n} calls");
}

/// first fragment for every PDU length 0..=65535, every label kind (explicit, implicit re-use, explicit re-use),
/// protocol types around 0x0100/0x0600, characteristic buffers.
#[test]
fn c11_first_all_lengths() {
    let big = big_pdu(14);
    let mut sc = scratch();
    let mut rng = Rng(0xF1257);
    let (mut n, mut firsts, mut completes, mut rej) = (0u64, 0u64, 0u64, 0u64);
    let labs = labels();
    for l in 0..=65535usize {
        let corner = l <= 40 || (4070..=4110).contains(&l) || l >= 65515;
        let pdu = &big[3..3 + l];
        // label variants: (metadata label, wire label, prime re-use?)
        let mut variants: Vec<(Label, Label, bool)> = vec![];
        if corner {
            for lab in &labs {
                variants.push((*lab, *lab, false));
            }
            variants.push((labs[0], Label::ReUse, true));
            variants.push((labs[3], Label::ReUse, true));
            variants.push((Label::ReUse, Label::ReUse, false));
        } else {
            let lab = labs[l % labs.len()];
            variants.push((lab, lab, false));
            match l % 7 {
                0 => variants.push((labs[0], Label::ReUse, true)),
                1 => variants.push((Label::ReUse, Label::ReUse, false)),
                _ => {}
            }
        }
        for (mlab, wlab, prime) in variants {
            let ll = wlab.len();
            let mut bufs: Vec<usize> = vec![];
            if corner {
                bufs.extend(0..=20);
                bufs.extend([4090, 4091, 4092, 4093, 4094, 4095, 4096, 4097, 4098, 4099, 4100, 4110, 65535, 65536, 65540, 70000]);
                for d in 0..=12 {
                    if l + ll + d >= 4 {
                        bufs.push(l + ll + d - 4);
                    }
                }
            } else {
                bufs.extend([7 + ll, 8 + ll, rng.range(0, 16), rng.range(7, 4200), rng.range(4090, 4100), rng.range(0, 70000)]);
                bufs.push((l + ll + 4).saturating_sub(rng.range(0, 8)));
                bufs.push(l + ll + 4);
            }
            for b in bufs {
                if b > SCRATCH {
                    continue;
                }
                let ptype = PTYPES[(n % 8) as usize];
                let mut enc = Encapsulator::new(CheapCrc);
                if prime {
                    let mut tiny = [0u8; 32];
                    enc.encap(b"x", 0, EncapMetadata::new(0x0800, mlab), &mut tiny).unwrap();
                }
                let md = EncapMetadata::new(ptype, mlab);
                let fid = (n % 251) as u8;
                match checked_first(&mut enc, &cheap, pdu, fid, md, wlab, None, &mut sc, b, false, None) {
                    FirstOut::First(_, ctx) => {
                        firsts += 1;
                        // one continuation step from the returned context, with a related buffer
                        let b2 = [7usize, 4, b, 4097, 70000][(n % 5) as usize];
                        checked_frag(&enc, pdu, &ctx, &mut sc, b2, false, None);
                    }
                    FirstOut::Complete(_) => completes += 1,
                    FirstOut::Rejected(_) => rej += 1,
                }
                n += 1;
            }
        }
    }
    // protocol types 0x0100..0x05FF are refused, the neighbours accepted
    let mut enc = Encapsulator::new(DefaultCrc {});
    let mut b = [0u8; 64];
    for pt in [0x0100u16, 0x0101, 0x05FF] {
        assert_eq!(enc.encap(&big[..100], 1, EncapMetadata::new(pt, Label::Broadcast), &mut b), Err(EncapError::ErrorProtocolType));
    }
    println!("c11_first_all_lengths: {n} calls  first={firsts} complete={completes} rejected={rej}");
}

/// the real CRC of the first-fragment context against an independent bitwise CRC
#[test]
fn c11_first_real_crc() {
    let big = big_pdu(15);
    let mut sc = scratch();
    let mut rng = Rng(0xCCC);
    let mut n = 0;
    let labs = labels();
    let mut lens: Vec<usize> = vec![4, 5, 6, 7, 100, 4086, 4087, 4088, 4089, 4090, 4091, 4092, 4093, 4094, 4095, 4096, 4097, 4098, 10000, 65527, 65530, 65533];
    for _ in 0..(if debug_build() { 20 } else { 120 }) {
        lens.push(rng.range(4, 65527));
    }
    for l in lens {
        for lab in &labs {
            let ptype = PTYPES[n % 8];
            let mut enc = Encapsulator::new(DefaultCrc {});
            let b = [7 + lab.len(), 30, 4097, 70000][n % 4];
            let r = checked_first(&mut enc, &ref_crc, &big[..l], n as u8, EncapMetadata::new(ptype, *lab), *lab, None, &mut sc, b, false, None);
            if l + 2 + lab.len() <= 65535 && !matches!(r, FirstOut::Complete(_)) {
                assert!(matches!(r, FirstOut::First(..)), "L={l} {lab:?} b={b}: {r:?}");
            }
            n += 1;
        }
    }
    println!("c11_first_real_crc: {n} calls");
}

/// complete chains: first + any schedule; bound on the number of calls; exact partition; receiver accepts
#[test]
fn c11_chains_end_to_end() {
    let big = big_pdu(16);
    let mut sc = scratch();
    let mut rng = Rng(0xE2E);
    let labs = labels();
    let mut lens: Vec<usize> = vec![4, 5, 8, 11, 12, 13, 100, 1000, 4085, 4086, 4087, 4088, 4089, 4090, 4091, 4092, 4093, 4094, 4095, 4096, 4097, 4098, 4100, 8180, 8181, 8188, 8190, 8200, 20000, 65520, 65527, 65530, 65533];
    for _ in 0..(if debug_build() { 30 } else { 300 }) {
        lens.push(rng.range(4, 65527));
    }
    let (mut chains, mut calls_total, mut rejects_total) = (0u64, 0u64, 0u64);
    let mut recv_cfg = 0usize;
    for (li, &l) in lens.iter().enumerate() {
        for sched in 0..10usize {
            let mlab = labs[(li + sched) % labs.len()];
            let explicit_reuse = (li + sched) % 11 == 0;
            let prime = !explicit_reuse && mlab.len() > 0 && (li + sched) % 4 == 0;
            let (mlab, wlab) = if explicit_reuse { (Label::ReUse, Label::ReUse) } else if prime { (mlab, Label::ReUse) } else { (mlab, mlab) };
            if l + 2 + wlab.len() > 65535 {
                continue;
            }
            let ptype = PTYPES[(li * 3 + sched) % 8];
            let pdu = &big[li..li + l];
            let fid = (li * 7 + sched * 31) as u8;
            let mut stream: Vec<u8> = vec![];
            let mut enc = Encapsulator::new(DefaultCrc {});
            // receiver label for re-use
            let saved = Label::SixBytesLabel([7, 7, 7, 7, 7, 7]);
            let real_label = if explicit_reuse { saved } else { mlab };
            if explicit_reuse {
                // receiver needs a saved label: send a complete packet with it, re-use disabled at the sender so that ReUse is sent raw
                let mut tiny = [0u8; 32];
                let mut e2 = Encapsulator::new(DefaultCrc {});
                if let Ok(EncapStatus::CompletedPkt(n)) = e2.encap(b"x", 0, EncapMetadata::new(0x0800, saved), &mut tiny) {
                    stream.extend_from_slice(&tiny[..n as usize]);
                }
            } else if prime {
                let mut tiny = [0u8; 32];
                if let Ok(EncapStatus::CompletedPkt(n)) = enc.encap(b"x", 0, EncapMetadata::new(0x0800, mlab), &mut tiny) {
                    stream.extend_from_slice(&tiny[..n as usize]);
                }
            }
            let primed = !stream.is_empty();
            let first_buf = match sched {
                0 => 7 + wlab.len(),      // empty first fragment
                1 => 8 + wlab.len(),
                2 => 4097,
                3 => 70000,
                4 => 4096,
                _ => rng.range(7 + wlab.len(), 5000),
            }
            .min(l + wlab.len() + 3); // force fragmentation when the pdu is small
            let md = EncapMetadata::new(ptype, mlab);
            let r = checked_first(&mut enc, &ref_crc, pdu, fid, md, wlab, None, &mut sc, first_buf, false, Some(&mut stream));
            let mut ctx = match r {
                FirstOut::First(_, c) => c,
                FirstOut::Complete(_) => continue,
                other => panic!("L={l} first_buf={first_buf}: {other:?}"),
            };
            let rem0 = l - ctx.len_pdu_frag() as usize;
            let mut ok_calls = 0usize;
            let mut rejects = 0usize;
            let mut carried = ctx.len_pdu_frag() as usize;
            loop {
                let rem = l - ctx.len_pdu_frag() as usize;
                let b = match sched {
                    0 => 4,  // one byte per call (buffers below 7: progress still required while payload is left)
                    1 => 7,
                    2 => 8,
                    3 => 70000,
                    4 => 4097,
                    5 => rng.range(7, 70000),
                    6 => rng.range(7, 64),
                    7 => rng.range(0, 12), // with rejections
                    8 => if rem + 7 > 4097 { 4097 } else if rem == 0 { 7 } else { rem + 6 }, // one byte short of the end packet
                    _ => if rng.below(3) == 0 { rng.range(0, 6) } else { rng.range(7, 9000) },
                };
                // sched 0: the last call needs 7
                let b = if sched == 0 && rem == 0 { 7 } else { b };
                match checked_frag(&enc, pdu, &ctx, &mut sc, b, false, Some(&mut stream)) {
                    FragOut::End(n) => {
                        ok_calls += 1;
                        carried += n - 7;
                        break;
                    }
                    FragOut::Mid(n, c2) => {
                        ok_calls += 1;
                        carried += n - 3;
                        assert_eq!(c2.len_pdu_frag() as usize, carried);
                        ctx = c2;
                    }
                    FragOut::Rejected => {
                        rejects += 1;
                        assert!(rejects < 1_000_000);
                    }
                }
                assert!(ok_calls <= rem0 + 1, "L={l} sched={sched}: more than remaining+1 calls");
            }
            assert!(ok_calls <= rem0 + 1, "L={l} sched={sched}: more than remaining+1 calls");
            assert_eq!(carried, l);
            calls_total += ok_calls as u64;
            rejects_total += rejects as u64;
            // independent reassembly from the stream: strip headers
            let mut off = 0;
            let mut re: Vec<u8> = vec![];
            let mut first_seen = false;
            while off < stream.len() {
                let h = hdr(&stream[off..]);
                let body = &stream[off + 2..off + 2 + h.gse_len];
                match (h.s, h.e) {
                    (true, true) => {}
                    (true, false) => {
                        first_seen = true;
                        let lt_len = [6, 3, 0, 0][h.lt as usize];
                        re.extend_from_slice(&body[5 + lt_len..]);
                    }
                    (false, false) => {
                        assert!(first_seen);
                        assert!(body.len() > 1, "empty intermediate on the wire");
                        re.extend_from_slice(&body[1..]);
                    }
                    (false, true) => {
                        re.extend_from_slice(&body[1..body.len() - 4]);
                    }
                }
                off += 2 + h.gse_len;
            }
            assert!(re == *pdu, "L={l} sched={sched}: concatenation of the payloads is not the pdu");
            // receiver, rotating configurations: slots 1..=256, free list exactly full / single storage,
            // storage equal to / larger than the pdu / larger than 65535
            recv_cfg += 1;
            let slots = [1usize, 2, 3, 16, 255, 256][recv_cfg % 6];
            let storage_len = [l, l + 1, 65535, 65536, 70000][recv_cfg % 5].max(l).max(1);
            let n_storage = if recv_cfg % 2 == 0 { 1 } else { slots + 2 };
            let max_pdu = if recv_cfg % 3 == 0 { storage_len } else { l.max(1) };
            let mut dec = receiver(DefaultCrc {}, slots, max_pdu, storage_len, n_storage);
            stream.extend_from_slice(&[0u8; 5]); // padding after the last packet
            let got = walk(&mut dec, &stream);
            let want_n = if primed { 2 } else { 1 };
            assert_eq!(got.len(), want_n, "L={l} sched={sched}");
            let (gp, gt, gl, ge) = got.last().unwrap();
            assert!(gp == pdu, "L={l} sched={sched}: receiver rebuilt another pdu");
            assert_eq!(*gt, ptype);
            assert_eq!(*gl, real_label);
            if ptype < 0x100 {
                // a protocol type below 0x100 is a final mandatory extension for the receiver
                assert_eq!(*ge, vec![Extension::new(ptype, &[]).unwrap()]);
            } else {
                assert!(ge.is_empty());
            }
            chains += 1;
        }
    }
    println!("c11_chains_end_to_end: {chains} chains, {calls_total} successful continuation calls, {rejects_total} rejected calls");
}

/// the worst case of the bound: L = 65533, one byte per call (buffer 4) and four bytes per call (buffer 7)
#[test]
fn c11_chain_worst_case_bound() {
    let big = big_pdu(17);
    let mut sc = scratch();
    for &(bufsz, lab) in &[(4usize, Label::Broadcast), (7, Label::Broadcast), (7, Label::SixBytesLabel([1, 1, 1, 1, 1, 1]))] {
        let l = 65533 - lab.len();
        let pdu = &big[..l];
        let mut enc = Encapsulator::new(CheapCrc);
        let mut stream = vec![];
        let r = checked_first(&mut enc, &cheap, pdu, 200, EncapMetadata::new(0x0800, lab), lab, None, &mut sc, 7 + lab.len(), false, Some(&mut stream));
        let mut ctx = match r {
            FirstOut::First(_, c) => c,
            o => panic!("{o:?}"),
        };
        assert_eq!(ctx.len_pdu_frag(), 0);
        let mut calls = 0usize;
        loop {
            let rem = l - ctx.len_pdu_frag() as usize;
            let b = if rem == 0 { 7 } else { bufsz };
            calls += 1;
            match checked_frag(&enc, pdu, &ctx, &mut sc, b, false, Some(&mut stream)) {
                FragOut::End(_) => break,
                FragOut::Mid(_, c) => ctx = c,
                FragOut::Rejected => panic!("rejected"),
            }
            assert!(calls <= l + 1);
        }
        if bufsz == 4 {
            assert_eq!(calls, l + 1);
        }
        let mut dec = receiver(CheapCrc, 256, l, l, 1);
        let got = walk(&mut dec, &stream);
        assert_eq!(got.len(), 1);
        assert!(got[0].0 == pdu);
        println!("c11_chain_worst_case_bound: buf={bufsz} L={l}: {calls} calls");
    }
}

fn random_exts(rng: &mut Rng, allow_final: bool) -> (Vec<Extension>, u16) {
    let n = rng.range(1, 4);
    let mut v = vec![];
    for _ in 0..n {
        if rng.below(3) == 0 {
            let k = rng.range(0, 8);
            let data: Vec<u8> = (0..k).map(|_| rng.next() as u8).collect();
            v.push(Extension::new(0x10 + k as u16, &data).unwrap());
        } else {
            let hl = rng.range(1, 5);
            let k = (hl - 1) * 2;
            let data: Vec<u8> = (0..k).map(|_| rng.next() as u8).collect();
            v.push(Extension::new(((hl as u16) << 8) | (rng.next() as u8) as u16, &data).unwrap());
        }
    }
    if allow_final && rng.below(2) == 0 {
        let k = rng.range(0, 8);
        let data: Vec<u8> = (0..k).map(|_| rng.next() as u8).collect();
        let id = 0x20 + k as u16;
        v.push(Extension::new(id, &data).unwrap());
        (v, id)
    } else {
        (v, [0x0600u16, 0x0800, 0xFFFF][rng.below(3)])
    }
}

/// encap_ext first fragments (every H-LEN class, final / non-final mandatory extensions with 0..=8 data bytes)
/// followed by complete chains and the receiver
#[test]
fn c11_ext_chains() {
    let big = big_pdu(18);
    let mut sc = scratch();
    let mut rng = Rng(0xE87);
    let labs = labels();
    let iters = if debug_build() { 1500 } else { 12000 };
    let (mut chains, mut completes, mut rej, mut calls) = (0u64, 0u64, 0u64, 0u64);
    let mut dec = receiver(DefaultCrc {}, 256, 65535, 65535, 3);
    for it in 0..iters {
        let (exts, ptype) = random_exts(&mut rng, true);
        let (_, mid) = ext_wire(&exts, ptype, ptype < 0x100);
        let xl = mid.len();
        let lab = labs[it % labs.len()];
        let l = match it % 6 {
            0 => rng.range(0, 40),
            1 => rng.range(4040, 4100),
            2 => rng.range(65490, 65533 - lab.len()),
            _ => rng.range(0, 20000),
        };
        let pdu = &big[it % 1000..it % 1000 + l];
        let hdrlen = 7 + lab.len() + xl;
        let first_buf = match it % 5 {
            0 => hdrlen,     // empty first fragment
            1 => hdrlen + 1,
            2 => rng.range(0, hdrlen + 3),
            3 => [4096usize, 4097, 4098, 70000][rng.below(4)],
            _ => rng.range(hdrlen, 5000),
        };
        let fid = it as u8;
        let mut enc = Encapsulator::new(DefaultCrc {});
        let mut stream = vec![];
        let md = EncapMetadata::new(ptype, lab);
        let r = checked_first(&mut enc, &ref_crc, pdu, fid, md, lab, Some(&exts), &mut sc, first_buf, false, Some(&mut stream));
        match r {
            FirstOut::Rejected(_) => {
                rej += 1;
                continue;
            }
            FirstOut::Complete(_) => completes += 1,
            FirstOut::First(_, mut ctx) => {
                let rem0 = l - ctx.len_pdu_frag() as usize;
                let mut ok = 0;
                loop {
                    let b = match it % 4 {
                        0 => rng.range(7, 40),
                        1 => rng.range(7, 70000),
                        2 => 4097,
                        _ => rng.range(4, 300).max(if l == ctx.len_pdu_frag() as usize { 7 } else { 4 }),
                    };
                    ok += 1;
                    match checked_frag(&enc, pdu, &ctx, &mut sc, b, false, Some(&mut stream)) {
                        FragOut::End(_) => break,
                        FragOut::Mid(_, c) => ctx = c,
                        FragOut::Rejected => panic!("rejected b={b}"),
                    }
                    assert!(ok <= rem0 + 1);
                }
                calls += ok as u64;
                chains += 1;
            }
        }
        let got = walk(&mut dec, &stream);
        assert_eq!(got.len(), 1, "it={it}");
        assert!(got[0].0 == pdu, "it={it}: receiver rebuilt another pdu (L={l}, ext bytes={xl})");
        assert_eq!(got[0].1, ptype);
        assert_eq!(got[0].2, lab);
        assert_eq!(got[0].3, exts, "it={it}");
    }
    // huge mandatory extension data: header alone near / above the 4097 limit
    for xdata in [4070usize, 4080, 4084, 4085, 4086, 4090, 5000] {
        for l in [0usize, 1, 3, 4, 5, 100] {
            let data = vec![0x33u8; xdata];
            let exts = vec![Extension::new(0x0010, &data).unwrap()];
            let mut enc = Encapsulator::new(DefaultCrc {});
            for b in [4090usize, 4096, 4097, 4098, 4200, 70000] {
                let md = EncapMetadata::new(0x0800, Label::Broadcast);
                let r = checked_first(&mut enc, &ref_crc, &big[..l], 1, md, Label::Broadcast, Some(&exts), &mut sc, b, false, None);
                if let FirstOut::First(_, ctx) = r {
                    checked_frag(&enc, &big[..l], &ctx, &mut sc, 70000, false, None);
                }
            }
        }
    }
    println!("c11_ext_chains: {chains} fragmented chains ({calls} continuation calls), {completes} complete, {rej} rejected first calls");
}

/// several PDUs interleaved in base-band frames with padding; sender restarts; errors followed by valid traffic
#[test]
fn c11_interleaved_frames() {
    let big = big_pdu(19);
    let mut rng = Rng(0x1A7E);
    let labs = labels();
    let rounds = if debug_build() { 40 } else { 300 };
    let (mut delivered, mut pkts, mut frames_n, mut restarts) = (0u64, 0u64, 0u64, 0u64);
    for round in 0..rounds {
        let slots = [1usize, 2, 5, 16, 256][round % 5];
        let n_pdus = rng.range(1, slots.min(6));
        let frame_len = [40usize, 64, 200, 1500, 4097, 4200, 9000][round % 7];
        let mut enc = Encapsulator::new(DefaultCrc {});
        if round % 3 == 0 {
            enc.disable_re_use_label();
        } else if round % 3 == 1 {
            enc.enable_re_use_label_with_max_consecutive(2);
        }
        let mut dec = receiver(DefaultCrc {}, slots, 20000, 20000, slots + 2);
        // queue
        struct Job {
            off: usize,
            len: usize,
            fid: u8,
            md: EncapMetadata,
            ctx: Option<ContextFrag>,
            done: bool,
            restart_at: Option<usize>,
        }
        let mut jobs: Vec<Job> = (0..n_pdus)
            .map(|i| {
                let len = [rng.range(0, 30), rng.range(30, 600), rng.range(4000, 4200), rng.range(600, 20000)][rng.below(4)];
                Job {
                    off: rng.below(1000),
                    len,
                    fid: (i + slots * rng.below(3)) as u8, // distinct slots
                    md: EncapMetadata::new(PTYPES[rng.below(5)], labs[rng.below(labs.len())]),
                    ctx: None,
                    done: false,
                    restart_at: if rng.below(4) == 0 { Some(rng.below(len + 1)) } else { None },
                }
            })
            .collect();
        let mut expected: Vec<(Vec<u8>, u16, Label)> = vec![];
        let mut got_all = vec![];
        let mut guard = 0;
        while jobs.iter().any(|j| !j.done) {
            guard += 1;
            assert!(guard < 100_000, "no progress");
            let mut frame = vec![0u8; frame_len];
            let mut off = 0;
            enc.reset_last_label();
            dec.reset_last_label();
            let mut idle = 0;
            let mut turn = rng.below(jobs.len());
            while idle < jobs.len() {
                turn = (turn + 1) % jobs.len();
                let j = &mut jobs[turn];
                if j.done {
                    idle += 1;
                    continue;
                }
                let pdu = &big[j.off..j.off + j.len];
                let space = &mut frame[off..];
                let space_len = space.len();
                // sender restart: forget the context and start the same pdu again with the same frag id
                if let (Some(c), Some(at)) = (j.ctx, j.restart_at) {
                    if c.len_pdu_frag() as usize >= at {
                        j.ctx = None;
                        j.restart_at = None;
                        restarts += 1;
                    }
                }
                let res = match j.ctx {
                    None => enc.encap(pdu, j.fid, j.md, space),
                    Some(c) => {
                        // error path first: a useless 3-byte buffer and a 6-byte one when only the crc is left
                        let mut small = [0u8; 6];
                        assert_eq!(enc.encap_frag(pdu, &c, &mut small[..3]), Err(EncapError::ErrorSizeBuffer));
                        if c.len_pdu_frag() as usize == j.len {
                            assert_eq!(enc.encap_frag(pdu, &c, &mut small), Err(EncapError::ErrorSizeBuffer));
                        }
                        enc.encap_frag(pdu, &c, space)
                    }
                };
                match res {
                    Ok(EncapStatus::CompletedPkt(n)) => {
                        off += n as usize;
                        j.done = true;
                        j.ctx = None;
                        expected.push((pdu.to_vec(), j.md.protocol_type, j.md.label));
                        pkts += 1;
                        idle = 0;
                    }
                    Ok(EncapStatus::FragmentedPkt(n, c)) => {
                        assert!(n as usize <= space_len);
                        off += n as usize;
                        j.ctx = Some(c);
                        pkts += 1;
                        idle = 0;
                    }
                    Err(EncapError::ErrorSizeBuffer) => {
                        if j.ctx.is_some() {
                            let rem = j.len - j.ctx.unwrap().len_pdu_frag() as usize;
                            assert!(space_len <= 3 || (rem == 0 && space_len < 7), "continuation rejected with {space_len} bytes left, rem={rem}");
                        }
                        idle += 1;
                    }
                    Err(e) => panic!("{e:?}"),
                }
            }
            assert!(off > 0 || frame_len < 13, "empty frame: no progress");
            frames_n += 1;
            let got = walk(&mut dec, &frame);
            got_all.extend(got);
        }
        assert_eq!(got_all.len(), expected.len(), "round {round}");
        for (g, e) in got_all.iter().zip(expected.iter()) {
            assert!(g.0 == e.0, "round {round}: pdu differs");
            assert_eq!(g.1, e.1);
            assert_eq!(g.2, e.2);
        }
        delivered += got_all.len() as u64;
    }
    println!("c11_interleaved_frames: {delivered} pdus delivered in {frames_n} frames, {pkts} packets, {restarts} sender restarts");
}

/// contexts that do not belong to the pdu are refused, and nothing is written
#[test]
fn c11_context_beyond_pdu() {
    let big = big_pdu(20);
    let enc = Encapsulator::new(DefaultCrc {});
    let mut sc = scratch();
    let mut n = 0;
    for l in [0usize, 1, 10, 4096, 65534] {
        for d in [1usize, 2, 100] {
            if l + d > 65535 {
                continue;
            }
            for b in [0usize, 3, 7, 100, 70000] {
                let ctx = ContextFrag::new(1, 2, (l + d) as u16);
                assert_eq!(enc.encap_frag(&big[..l], &ctx, &mut sc[..b]), Err(EncapError::ErrorPduLength));
                assert!(sc[..b].iter().all(|&x| x == FILL));
                n += 1;
            }
        }
    }
    println!("c11_context_beyond_pdu: {n} calls");
}

#[allow(dead_code)]
fn unused(_: DecapError) {}
