// Harness for property C01 (second-round adversarial review)
//
//   C01: Unfragmented round trip preserves PDU, protocol type and label
//
// Public API only.  Differential / model based: the harness owns
//   * an independent model of the label re-use state of the sender (`TxModel`),
//   * an independent builder of the on-wire complete packet (`model_complete`),
//   * an independent prediction of "encap must report a completed packet" (`predict_encap`),
// and compares them with what `Encapsulator::encap` writes and with what
// `Decapsulator::decap` gives back.
//
// Run (copied to tests/harness_C01.rs):
//   CARGO_NET_OFFLINE=true cargo test --offline --test harness_C01 -- --nocapture
//   CARGO_NET_OFFLINE=true cargo test --offline --release --test harness_C01 -- --nocapture

use dvb_gse_rust::crc::DefaultCrc;
use dvb_gse_rust::gse_decap::{
    DecapError, DecapMemoryError, DecapStatus, Decapsulator, GseDecapMemory, SimpleGseMemory,
};
use dvb_gse_rust::gse_encap::{
    encap_preview, ContextFrag, EncapError, EncapMetadata, EncapStatus, Encapsulator,
};
use dvb_gse_rust::header_extension::{
    Extension, MandatoryHeaderExt, MandatoryHeaderExtensionManager,
    SimpleMandatoryExtensionHeaderManager,
};
use dvb_gse_rust::label::Label;
use std::collections::VecDeque;

// ---------------------------------------------------------------------------------------------
// tiny deterministic PRNG
// ---------------------------------------------------------------------------------------------
struct Rng(u64);
impl Rng {
    fn new(seed: u64) -> Self {
        Rng(seed.wrapping_mul(0x9E37_79B9_7F4A_7C15) ^ 0xD1B5_4A32_D192_ED03)
    }
    fn next(&mut self) -> u64 {
        let mut x = self.0;
        x ^= x >> 12;
        x ^= x << 25;
        x ^= x >> 27;
        self.0 = x;
        x.wrapping_mul(0x2545_F491_4F6C_DD1D)
    }
    fn below(&mut self, n: usize) -> usize {
        (self.next() % (n as u64)) as usize
    }
    fn range(&mut self, lo: usize, hi_incl: usize) -> usize {
        lo + self.below(hi_incl - lo + 1)
    }
    fn chance(&mut self, num: usize, den: usize) -> bool {
        self.below(den) < num
    }
    fn fill(&mut self, v: &mut [u8]) {
        for b in v.iter_mut() {
            *b = self.next() as u8;
        }
    }
    fn pick<T: Copy>(&mut self, v: &[T]) -> T {
        v[self.below(v.len())]
    }
}

// ---------------------------------------------------------------------------------------------
// independent model
// ---------------------------------------------------------------------------------------------
fn lbl_bytes(l: &Label) -> Vec<u8> {
    match l {
        Label::SixBytesLabel(b) => b.to_vec(),
        Label::ThreeBytesLabel(b) => b.to_vec(),
        Label::Broadcast | Label::ReUse => vec![],
    }
}
fn lbl_type_bits(l: &Label) -> u16 {
    match l {
        Label::SixBytesLabel(_) => 0,
        Label::ThreeBytesLabel(_) => 1,
        Label::Broadcast => 2,
        Label::ReUse => 3,
    }
}

/// on-wire complete packet, as the standard describes it
fn model_complete(pt: u16, written: &Label, pdu: &[u8]) -> Vec<u8> {
    let lb = lbl_bytes(written);
    let gse_len = 2 + lb.len() + pdu.len();
    assert!(gse_len <= 4095);
    let h: u16 = 0xC000 | (lbl_type_bits(written) << 12) | gse_len as u16;
    let mut v = Vec::with_capacity(2 + gse_len);
    v.extend_from_slice(&h.to_be_bytes());
    v.extend_from_slice(&pt.to_be_bytes());
    v.extend_from_slice(&lb);
    v.extend_from_slice(pdu);
    v
}

/// label re-use state of the sender
#[derive(Clone, Debug)]
struct TxModel {
    enabled: bool,
    max: u8,
    cur: u8,
    last: Option<Label>,
}
impl TxModel {
    fn new() -> Self {
        TxModel {
            enabled: true,
            max: 0,
            cur: 0,
            last: None,
        }
    }
    fn written(&self, l: Label) -> Label {
        if self.enabled && Some(l) == self.last && (self.max == 0 || self.cur < self.max) {
            Label::ReUse
        } else {
            l
        }
    }
    fn commit(&mut self, l: Label) {
        if !self.enabled {
            return;
        }
        if Some(l) == self.last {
            if self.max == 0 {
                return;
            }
            if self.cur < self.max {
                self.cur += 1;
                return;
            }
            self.cur = 0;
        }
        if l == Label::Broadcast {
            self.last = None;
        } else {
            self.last = Some(l);
        }
    }
    fn reset(&mut self) {
        self.last = None;
    }
    fn disable(&mut self) {
        self.enabled = false;
        self.max = 0;
        self.cur = 0;
    }
    fn enable(&mut self, max: u8) {
        if !self.enabled {
            self.last = None;
        }
        self.enabled = true;
        self.max = max;
        self.cur = 0;
    }
}

#[derive(Debug, PartialEq, Eq, Clone, Copy)]
enum Pred {
    Complete(usize),
    First(usize),
    ErrSize,
    ErrPduLen,
}
/// what `encap` has to do (the Complete branch is what C01 demands, the others keep the
/// harness in step with the code)
fn predict(pdu_len: usize, written_len: usize, ext_len: usize, buf_len: usize) -> Pred {
    let complete = 4 + written_len + ext_len + pdu_len;
    if buf_len >= complete && 2 + written_len + ext_len + pdu_len <= 4095 {
        return Pred::Complete(complete);
    }
    let hdr = 7 + written_len + ext_len;
    if buf_len < hdr || hdr > 4097 {
        return Pred::ErrSize;
    }
    if pdu_len + 2 + written_len > 65535 {
        return Pred::ErrPduLen;
    }
    let n = (buf_len - hdr).min(4097 - hdr);
    Pred::First(hdr + n)
}

// ---------------------------------------------------------------------------------------------
// receiver helpers
// ---------------------------------------------------------------------------------------------
#[derive(Clone, Copy)]
struct Mgr;
impl MandatoryHeaderExtensionManager for Mgr {
    fn is_mandatory_header_id_known(&self, id: u16) -> MandatoryHeaderExt {
        match id {
            0x10..=0x18 => MandatoryHeaderExt::NonFinal((id - 0x10) as u8),
            0x20..=0x28 => MandatoryHeaderExt::Final((id - 0x20) as u8),
            _ => MandatoryHeaderExt::Unknown,
        }
    }
}

type Rx<M> = Decapsulator<SimpleGseMemory, DefaultCrc, M>;

fn mk_rx<M: MandatoryHeaderExtensionManager>(
    m: M,
    slots: usize,
    max_pdu_size: usize,
    storages: usize,
    storage_len: usize,
) -> Rx<M> {
    let mut mem = SimpleGseMemory::new(slots, max_pdu_size, 0, 0);
    for _ in 0..storages {
        mem.provision_storage(vec![0x5Au8; storage_len].into_boxed_slice())
            .expect("provision");
    }
    Decapsulator::new(mem, DefaultCrc {}, m)
}

/// C01 check of one packet: exactly `pkt` bytes are handed to the receiver
fn expect_complete<M: MandatoryHeaderExtensionManager>(
    rx: &mut Rx<M>,
    pkt: &[u8],
    pdu: &[u8],
    pt: u16,
    label: Label,
    storage_len: usize,
    ctx: &str,
) {
    match rx.decap(pkt) {
        Ok((DecapStatus::CompletedPkt(b, md), used)) => {
            assert_eq!(used, pkt.len(), "consumed length {ctx}");
            assert_eq!(md.pdu_len(), pdu.len(), "pdu len {ctx}");
            assert_eq!(&b[..pdu.len()], pdu, "pdu bytes {ctx}");
            assert_eq!(md.protocol_type(), pt, "protocol type {ctx}");
            assert_eq!(md.label(), label, "label {ctx}");
            assert!(md.extensions().is_empty(), "extensions {ctx}");
            assert_eq!(b.len(), storage_len, "storage identity {ctx}");
            rx.provision_storage(b).expect("give the storage back");
        }
        other => panic!("C01 violated {ctx}: decap gave {:?}", other),
    }
}

fn labels_under_test() -> Vec<Label> {
    vec![
        Label::SixBytesLabel([0, 0, 0, 0, 0, 1]),
        Label::SixBytesLabel([1, 0, 0, 0, 0, 0]),
        Label::SixBytesLabel([0xFF; 6]),
        Label::SixBytesLabel(*b"012345"),
        Label::ThreeBytesLabel([0, 0, 0]),
        Label::ThreeBytesLabel([0, 0, 1]),
        Label::ThreeBytesLabel([0xFF; 3]),
        Label::ThreeBytesLabel(*b"abc"),
        Label::Broadcast,
    ]
}

const PTS: [u16; 12] = [
    0x0600, 0x0601, 0x06FF, 0x0700, 0x0800, 0x0806, 0x86DD, 0x8100, 0xC000, 0xFFFE, 0xFFFF, 0x1000,
];

// ---------------------------------------------------------------------------------------------
// T1: every PDU length x every label kind x buffer sizes x storage sizes, re-use on/off, no
//     substitution (fresh label)
// ---------------------------------------------------------------------------------------------
#[test]
fn t1_all_lengths_all_labels_buffers_storages() {
    let mut rng = Rng::new(1);
    let mut pattern = vec![0u8; 8192];
    rng.fill(&mut pattern);
    let mut big = vec![0xA5u8; 70_016];
    let mut cases = 0usize;
    let mut neg = 0usize;

    for label in labels_under_test() {
        let ll = lbl_bytes(&label).len();
        // persistent receivers with big storages
        let mut rx4096 = mk_rx(SimpleMandatoryExtensionHeaderManager {}, 1, 4096, 1, 4096);
        let mut rx65535 = mk_rx(SimpleMandatoryExtensionHeaderManager {}, 3, 0, 5, 65_535);
        let mut rx65536 = mk_rx(SimpleMandatoryExtensionHeaderManager {}, 256, 65_536, 1, 65_536);
        let mut rx70000 = mk_rx(SimpleMandatoryExtensionHeaderManager {}, 2, 4093, 4, 70_000);

        for pdu_len in 0..=(4093 - ll) {
            let start = rng.below(4096);
            let pdu = &pattern[start..start + pdu_len];
            let pkt_len = 4 + ll + pdu_len;
            let pt = PTS[(pdu_len + ll) % PTS.len()];
            let model = model_complete(pt, &label, pdu);
            assert_eq!(model.len(), pkt_len);

            let buf_sizes = [
                pkt_len,
                pkt_len + 1,
                pkt_len + 2,
                4097.max(pkt_len),
                4098,
                5000,
                65_535,
                65_536,
                70_000,
            ];
            for (bi, &bs) in buf_sizes.iter().enumerate() {
                let reuse_on = (bi + pdu_len) % 2 == 0;
                let mut tx = Encapsulator::new(DefaultCrc {});
                if !reuse_on {
                    tx.disable_re_use_label();
                }
                let hi = (pkt_len + 16).min(big.len());
                for b in big[..hi].iter_mut() {
                    *b = 0xA5;
                }
                let md = EncapMetadata::new(pt, label);
                // preview must agree
                let pv = encap_preview(pdu, md, &big[..bs]).expect("preview");
                assert_eq!(pv.pkt_len() as usize, pkt_len);
                let r = tx.encap(pdu, (pdu_len % 256) as u8, md, &mut big[..bs]);
                assert_eq!(
                    r,
                    Ok(EncapStatus::CompletedPkt(pkt_len as u16)),
                    "encap must complete: label {:?} pdu_len {} buf {}",
                    label,
                    pdu_len,
                    bs
                );
                assert_eq!(&big[..pkt_len], &model[..], "wire bytes");
                if bs > pkt_len {
                    let end = (pkt_len + 16).min(bs);
                    assert!(big[pkt_len..end].iter().all(|&b| b == 0xA5), "wrote past packet");
                }
                let ctx = format!("label {:?} pdu_len {} buf {}", label, pdu_len, bs);
                // rotate the receivers over the buffer sizes
                match bi % 6 {
                    0 => {
                        let mut rx =
                            mk_rx(SimpleMandatoryExtensionHeaderManager {}, 1, pdu_len, 1, pdu_len);
                        expect_complete(&mut rx, &big[..pkt_len], pdu, pt, label, pdu_len, &ctx)
                    }
                    1 => {
                        let mut rx =
                            mk_rx(SimpleMandatoryExtensionHeaderManager {}, 7, 0, 9, pdu_len + 1);
                        expect_complete(&mut rx, &big[..pkt_len], pdu, pt, label, pdu_len + 1, &ctx)
                    }
                    2 => expect_complete(&mut rx4096, &big[..pkt_len], pdu, pt, label, 4096, &ctx),
                    3 => expect_complete(&mut rx65535, &big[..pkt_len], pdu, pt, label, 65_535, &ctx),
                    4 => expect_complete(&mut rx65536, &big[..pkt_len], pdu, pt, label, 65_536, &ctx),
                    _ => expect_complete(&mut rx70000, &big[..pkt_len], pdu, pt, label, 70_000, &ctx),
                }
                cases += 1;
            }

            // negative side (not demanded by C01, but a wrong "Completed" would be a violation):
            // one byte short => never a completed packet
            if pkt_len >= 1 {
                let mut tx = Encapsulator::new(DefaultCrc {});
                let r = tx.encap(pdu, 1, EncapMetadata::new(pt, label), &mut big[..pkt_len - 1]);
                assert!(
                    !matches!(r, Ok(EncapStatus::CompletedPkt(_))),
                    "completed in a too small buffer"
                );
                neg += 1;
            }
        }
        // one byte too long for the GSE length => never completed, whatever the buffer
        for extra in 1..=4usize {
            let pdu_len = 4093 - ll + extra;
            let pdu = &pattern[..pdu_len];
            for bs in [4 + ll + pdu_len, 4097, 4098, 8000, 70_000] {
                let mut tx = Encapsulator::new(DefaultCrc {});
                let r = tx.encap(pdu, 1, EncapMetadata::new(0x0800, label), &mut big[..bs]);
                assert!(!matches!(r, Ok(EncapStatus::CompletedPkt(_))));
                neg += 1;
            }
        }
    }
    println!("T1: {cases} complete round trips, {neg} negative checks");
}

// ---------------------------------------------------------------------------------------------
// T1b: every PDU length with a re-use substitution (label written empty), plain / max 1 / max 255
// ---------------------------------------------------------------------------------------------
#[test]
fn t1b_all_lengths_with_reuse_substitution() {
    let mut rng = Rng::new(2);
    let mut pattern = vec![0u8; 8192];
    rng.fill(&mut pattern);
    let mut buf = vec![0u8; 70_000];
    let mut cases = 0usize;
    for label in labels_under_test() {
        if label == Label::Broadcast {
            continue;
        }
        let ll = lbl_bytes(&label).len();
        for (mode, maxc) in [(0usize, 0u8), (1, 1), (2, 255), (3, 2)] {
            let mut pdu_len = 0usize;
            while pdu_len <= 4093 {
                let mut tx = Encapsulator::new(DefaultCrc {});
                let mut m = TxModel::new();
                if mode != 0 {
                    tx.enable_re_use_label_with_max_consecutive(maxc);
                    m.enable(maxc);
                }
                let storage_len = if pdu_len % 3 == 0 { 4093 } else { 4096 + pdu_len };
                let mut rx = mk_rx(Mgr, 1 + pdu_len % 256, 0, 2, storage_len);
                let start = rng.below(4096);
                let pdu = &pattern[start..start + pdu_len];
                // prime both sides
                let pt0 = 0x0600;
                let r = tx
                    .encap(&[1, 2, 3], 0, EncapMetadata::new(pt0, label), &mut buf[..7 + ll])
                    .unwrap();
                assert_eq!(r, EncapStatus::CompletedPkt((7 + ll) as u16));
                assert_eq!(m.written(label), label);
                m.commit(label);
                expect_complete(&mut rx, &buf[..7 + ll], &[1, 2, 3], pt0, label, storage_len, "prime");

                // up to 3 further packets with the same label
                for k in 0..3 {
                    let pt = PTS[(pdu_len + k) % PTS.len()];
                    let written = m.written(label);
                    let wl = lbl_bytes(&written).len();
                    let bs = match (pdu_len + k) % 4 {
                        0 => 4 + wl + pdu_len,
                        1 => 4 + wl + pdu_len + 1,
                        2 => 4098,
                        _ => 70_000,
                    }
                    .max(4 + wl + pdu_len);
                    let pred = predict(pdu_len, wl, 0, bs);
                    let r = tx.encap(pdu, 9, EncapMetadata::new(pt, label), &mut buf[..bs]);
                    match pred {
                        Pred::Complete(n) => {
                            assert_eq!(
                                r,
                                Ok(EncapStatus::CompletedPkt(n as u16)),
                                "label {:?} as written {:?} pdu {} buf {}",
                                label,
                                written,
                                pdu_len,
                                bs
                            );
                            assert_eq!(&buf[..n], &model_complete(pt, &written, pdu)[..]);
                            m.commit(label);
                            let ctx = format!(
                                "reuse mode {mode} k {k} label {:?} written {:?} pdu_len {pdu_len}",
                                label, written
                            );
                            expect_complete(&mut rx, &buf[..n], pdu, pt, label, storage_len, &ctx);
                            cases += 1;
                        }
                        Pred::First(n) => {
                            // full label does not fit in a complete packet: a first fragment is emitted,
                            // hand it to the receiver so that both sides stay in step
                            match r {
                                Ok(EncapStatus::FragmentedPkt(l, _)) => assert_eq!(l as usize, n),
                                o => panic!("expected first fragment, got {:?}", o),
                            }
                            m.commit(label);
                            match rx.decap(&buf[..n]) {
                                Ok((DecapStatus::FragmentedPkt(_), u)) => assert_eq!(u, n),
                                o => panic!("first frag not accepted {:?}", o),
                            }
                        }
                        p => panic!("unexpected prediction {:?}", p),
                    }
                }
                // dense near the corners, sparse in the middle (T1 is dense everywhere)
                pdu_len += if pdu_len < 40 || pdu_len >= 4050 {
                    1
                } else {
                    7
                };
            }
        }
    }
    println!("T1b: {cases} complete round trips around a re-use substitution");
}

// ---------------------------------------------------------------------------------------------
// T2: every protocol type 0x0600..=0xFFFF x label kinds; refused range 0x0100..0x0600 leaves the
//     state untouched
// ---------------------------------------------------------------------------------------------
#[test]
fn t2_all_protocol_types() {
    let mut rng = Rng::new(3);
    let labels = [
        Label::SixBytesLabel(*b"\x02\x00\x00\x00\x00\x07"),
        Label::ThreeBytesLabel([0, 0, 0]),
        Label::Broadcast,
    ];
    let mut buf = vec![0u8; 4200];
    let mut cases = 0usize;
    let mut refused = 0usize;
    for reuse in [false, true] {
        let mut tx = Encapsulator::new(DefaultCrc {});
        let mut m = TxModel::new();
        if !reuse {
            tx.disable_re_use_label();
            m.disable();
        }
        let mut rx = mk_rx(SimpleMandatoryExtensionHeaderManager {}, 4, 64, 6, 64);
        let mut li = 0usize;
        for pt in 0x0100u32..=0xFFFF {
            let pt = pt as u16;
            // change the label from time to time so that substitutions and full labels alternate
            if rng.chance(1, 3) {
                li = rng.below(3);
            }
            let label = labels[li];
            let pdu_len = rng.below(33);
            let mut pdu = vec![0u8; pdu_len];
            rng.fill(&mut pdu);
            let written = m.written(label);
            let wl = lbl_bytes(&written).len();
            let bs = 4 + wl + pdu_len + rng.below(3);
            let r = tx.encap(&pdu, 0, EncapMetadata::new(pt, label), &mut buf[..bs]);
            if pt < 0x0600 {
                assert_eq!(r, Err(EncapError::ErrorProtocolType));
                refused += 1;
                continue;
            }
            let n = 4 + wl + pdu_len;
            assert_eq!(r, Ok(EncapStatus::CompletedPkt(n as u16)), "pt {:#x}", pt);
            assert_eq!(&buf[..n], &model_complete(pt, &written, &pdu)[..]);
            m.commit(label);
            expect_complete(&mut rx, &buf[..n], &pdu, pt, label, 64, &format!("pt {:#x}", pt));
            cases += 1;
        }
    }
    println!("T2: {cases} round trips over all protocol types, {refused} refused types interleaved");
}

// ---------------------------------------------------------------------------------------------
// T3: payload contents (adversarial patterns + random)
// ---------------------------------------------------------------------------------------------
#[test]
fn t3_payload_contents() {
    let mut rng = Rng::new(4);
    let mut buf = vec![0u8; 70_000];
    let mut cases = 0usize;
    let lens = [0usize, 1, 2, 3, 4, 5, 6, 7, 8, 9, 10, 63, 64, 255, 256, 1500, 4084, 4087, 4090, 4091];
    for label in labels_under_test() {
        let ll = lbl_bytes(&label).len();
        for &len in lens.iter() {
            if len + ll > 4093 {
                continue;
            }
            let mut pats: Vec<Vec<u8>> = vec![
                vec![0u8; len],
                vec![0xFFu8; len],
                vec![0xC0u8; len],
                (0..len).map(|i| i as u8).collect(),
                // looks like a chain of GSE headers / extension ids
                (0..len).map(|i| [0xC0u8, 0x02, 0x00, 0x81, 0x01, 0x00, 0x05, 0xFF][i % 8]).collect(),
                (0..len).map(|i| [0x00u8, 0x00, 0x30, 0x05][i % 4]).collect(),
            ];
            for _ in 0..6 {
                let mut p = vec![0u8; len];
                rng.fill(&mut p);
                pats.push(p);
            }
            for pdu in pats {
                for pt in [0x0600u16, 0x0800, 0xFFFF] {
                    for reuse in [true, false] {
                        let mut tx = Encapsulator::new(DefaultCrc {});
                        if !reuse {
                            tx.disable_re_use_label();
                        }
                        let mut rx = mk_rx(Mgr, 2, len, 3, len.max(1));
                        // twice: the second one carries the substituted label when re-use is on
                        for k in 0..2 {
                            let written = if reuse && k == 1 && label != Label::Broadcast {
                                Label::ReUse
                            } else {
                                label
                            };
                            let wl = lbl_bytes(&written).len();
                            let n = 4 + wl + len;
                            let bs = if k == 0 { n } else { 70_000 };
                            let r = tx.encap(&pdu, 3, EncapMetadata::new(pt, label), &mut buf[..bs]);
                            assert_eq!(r, Ok(EncapStatus::CompletedPkt(n as u16)));
                            assert_eq!(&buf[..n], &model_complete(pt, &written, &pdu)[..]);
                            expect_complete(&mut rx, &buf[..n], &pdu, pt, label, len.max(1), "t3");
                            cases += 1;
                        }
                    }
                }
            }
        }
    }
    println!("T3: {cases} content round trips");
}

// ---------------------------------------------------------------------------------------------
// T4: model based stateful runs (interleavings, fragments, extensions, errors, frames, padding)
// ---------------------------------------------------------------------------------------------
#[derive(Debug)]
enum Expect {
    Complete {
        pdu: Vec<u8>,
        pt: u16,
        label: Label,
        exts: Vec<Extension>,
        from_encap: bool,
    },
    Frag,
    ErrUndefinedId,
    ErrUnknownMandatory,
    ErrInvalidLabel,
}

struct Pending {
    pdu: Vec<u8>,
    ctx: ContextFrag,
    pt: u16,
    label: Label,
    exts: Vec<Extension>,
}

#[derive(Default, Debug)]
struct Stats {
    encap_complete: usize,
    encap_complete_reuse: usize,
    encap_first: usize,
    encap_err: usize,
    ext_complete: usize,
    ext_first: usize,
    frag_pkts: usize,
    reassembled: usize,
    injected_err: usize,
    frames: usize,
    frames_padding: usize,
    frames_one_byte_tail: usize,
    frames_exact: usize,
    continuity: usize,
    cfg_ops: usize,
    restarts: usize,
    exact_delivery_runs: usize,
    big_buffers: usize,
}

fn gen_label(rng: &mut Rng, pool: &[Label]) -> Label {
    // a burst of identical labels is what triggers the substitution: favour the first entries
    if rng.chance(1, 2) {
        pool[1 + rng.below(2)]
    } else {
        rng.pick(pool)
    }
}

fn gen_exts(rng: &mut Rng) -> (Vec<Extension>, Option<u16>) {
    let k = rng.range(1, 4);
    let mut v = vec![];
    let final_mand = rng.chance(1, 3);
    for i in 0..k {
        let last = i == k - 1;
        if last && final_mand {
            let n = rng.below(9);
            let mut d = vec![0u8; n];
            rng.fill(&mut d);
            v.push(Extension::new(0x20 + n as u16, &d).unwrap());
            return (v, Some(0x20 + n as u16));
        }
        if rng.chance(1, 3) {
            let n = rng.below(9);
            let mut d = vec![0u8; n];
            rng.fill(&mut d);
            v.push(Extension::new(0x10 + n as u16, &d).unwrap());
        } else {
            let hlen = rng.range(1, 5);
            let n = [0usize, 0, 2, 4, 6, 8][hlen];
            let mut d = vec![0u8; n];
            rng.fill(&mut d);
            let id = ((hlen as u16) << 8) | (rng.next() as u8 as u16);
            v.push(Extension::new(id, &d).unwrap());
        }
    }
    (v, None)
}

fn check_event(
    ev: Result<(DecapStatus, usize), (DecapError, usize)>,
    exp: Expect,
    pkt_len: usize,
    rx: &mut Rx<Mgr>,
    storage_len: usize,
    ctx: &str,
) {
    match exp {
        Expect::Complete {
            pdu,
            pt,
            label,
            exts,
            from_encap,
        } => match ev {
            Ok((DecapStatus::CompletedPkt(b, md), used)) => {
                assert_eq!(used, pkt_len, "consumed {ctx}");
                assert_eq!(md.pdu_len(), pdu.len(), "pdu_len {ctx}");
                assert!(b[..pdu.len()] == pdu[..], "pdu bytes {ctx}");
                assert_eq!(md.protocol_type(), pt, "pt {ctx}");
                assert_eq!(md.label(), label, "label {ctx}");
                assert_eq!(md.extensions(), &exts, "exts {ctx}");
                assert_eq!(b.len(), storage_len);
                rx.provision_storage(b).expect("storage back");
            }
            o => panic!(
                "{} {ctx}: expected completed PDU (len {}, pt {:#x}, label {:?}), got {:?}",
                if from_encap { "C01 VIOLATED" } else { "other traffic broken" },
                pdu.len(),
                pt,
                label,
                o.map(|(s, u)| (s.to_str(), u))
            ),
        },
        Expect::Frag => match ev {
            Ok((DecapStatus::FragmentedPkt(_), used)) => assert_eq!(used, pkt_len, "{ctx}"),
            o => panic!("{ctx}: expected fragment accepted, got {:?}", o),
        },
        Expect::ErrUndefinedId => match ev {
            Err((DecapError::ErrorMemory(DecapMemoryError::UndefinedId), used)) => {
                assert_eq!(used, pkt_len)
            }
            o => panic!("{ctx}: expected UndefinedId, got {:?}", o),
        },
        Expect::ErrUnknownMandatory => match ev {
            Err((DecapError::ErrorUnkownMandatoryHeader, used)) => assert_eq!(used, pkt_len),
            o => panic!("{ctx}: expected unknown mandatory, got {:?}", o),
        },
        Expect::ErrInvalidLabel => match ev {
            Err((DecapError::ErrorInvalidLabel, used)) => assert_eq!(used, pkt_len),
            o => panic!("{ctx}: expected invalid label, got {:?}", o),
        },
    }
}

fn run_stateful(seed: u64, steps: usize, st: &mut Stats) {
    let mut rng = Rng::new(seed);
    // ---- run configuration
    let max_pdu = rng.pick(&[100usize, 1500, 4093, 4100, 20_000, 65_533]);
    let storage_len = match rng.below(5) {
        0 => max_pdu,
        1 => max_pdu + 1,
        2 => 65_535.max(max_pdu),
        3 => 65_536.max(max_pdu),
        _ => 70_000,
    };
    let slots = match rng.below(6) {
        0 => 1,
        1 => 2,
        2 => 255,
        3 => 256,
        _ => rng.range(1, 256),
    };
    let capacity = slots + 2;
    let storages = match rng.below(4) {
        0 => 1,
        1 => capacity,
        2 => 2,
        _ => rng.range(1, capacity),
    };
    let max_pdu_size = rng.pick(&[0usize, max_pdu, storage_len]);
    let max_pending = slots.min(storages - 1).min(6);
    let exact_delivery = rng.chance(1, 3);
    if exact_delivery {
        st.exact_delivery_runs += 1;
    }
    let frame_cap_choices = [64usize, 300, 2001, 4097, 4098, 8100, 16_200, 70_000];

    let pool: Vec<Label> = {
        let mut p = vec![
            Label::Broadcast,
            Label::ThreeBytesLabel([0, 0, 0]),
            Label::ThreeBytesLabel([9, 9, 9]),
            Label::SixBytesLabel([0, 0, 0, 0, 0, 1]),
            Label::SixBytesLabel([0xFF; 6]),
        ];
        if rng.chance(1, 2) {
            p.push(Label::SixBytesLabel([0, 0, 0, 9, 9, 9])); // same tail as the 3 byte label
        }
        p
    };

    let mut tx = Encapsulator::new(DefaultCrc {});
    let mut m = TxModel::new();
    let mut rx = mk_rx(Mgr, slots, max_pdu_size, storages, storage_len);
    if storages == capacity {
        // exactly full free list: one more must be refused and handed back
        match rx.provision_storage(vec![0u8; storage_len].into_boxed_slice()) {
            Err(DecapMemoryError::StorageOverflow(b)) => assert_eq!(b.len(), storage_len),
            o => panic!("expected overflow, got {:?}", o),
        }
    }

    let mut pending: Vec<Pending> = vec![];
    let mut frame_cap = rng.pick(&frame_cap_choices);
    let mut frame = vec![0u8; frame_cap];
    let mut off = 0usize;
    let mut delivered = 0usize;
    let mut queue: VecDeque<(Expect, usize)> = VecDeque::new();

    // delivers what is in the frame; `tail` = number of zero bytes kept after the last packet
    macro_rules! deliver {
        ($tail:expr) => {{
            let end = (off + $tail).min(frame.len());
            let data = &frame[..end];
            let mut p = delivered;
            while let Some((exp, len)) = queue.pop_front() {
                let ctx = format!("seed {seed} frame {} at {p}", st.frames);
                let ev = if exact_delivery {
                    rx.decap(&data[p..p + len])
                } else {
                    rx.decap(&data[p..])
                };
                check_event(ev, exp, len, &mut rx, storage_len, &ctx);
                p += len;
            }
            assert_eq!(p, off);
            delivered = off;
            let rest = end - off;
            let mut rx_label_lost = false;
            if rest == 1 {
                match rx.decap(&data[p..]) {
                    Err((DecapError::ErrorSizeBuffer, 1)) => {}
                    o => panic!("1 byte tail: {:?}", o),
                }
                st.frames_one_byte_tail += 1;
                rx_label_lost = true;
            } else if rest >= 2 {
                match rx.decap(&data[p..]) {
                    Ok((DecapStatus::Padding, u)) => assert_eq!(u, rest),
                    o => panic!("padding: {:?}", o),
                }
                st.frames_padding += 1;
                rx_label_lost = true;
            } else {
                st.frames_exact += 1;
            }
            st.frames += 1;
            rx_label_lost
        }};
    }

    macro_rules! new_frame {
        ($rx_label_lost:expr) => {{
            // start of a new BBFrame: both sides forget the label, except (rarely) when nothing
            // made the receiver forget it: then both may also keep it
            if !$rx_label_lost && rng.chance(1, 3) {
                st.continuity += 1;
            } else {
                tx.reset_last_label();
                m.reset();
                if rng.chance(1, 2) {
                    rx.reset_last_label();
                }
            }
            frame_cap = rng.pick(&frame_cap_choices);
            frame = vec![0u8; frame_cap];
            off = 0;
            delivered = 0;
        }};
    }

    for _step in 0..steps {
        let avail = frame_cap - off;
        // close the frame?
        if avail < 12 || rng.chance(1, 25) {
            let tail = match rng.below(6) {
                0 => 0,
                1 => 1,
                2 => 2,
                3 => 3,
                _ => avail,
            }
            .min(avail);
            let lost = deliver!(tail);
            new_frame!(lost);
            continue;
        }
        if exact_delivery && !queue.is_empty() && rng.chance(1, 2) {
            // hand over immediately, packet by packet (no tail)
            let lost = deliver!(0);
            assert!(!lost);
            st.frames -= 1;
            st.frames_exact -= 1;
        }

        let op = rng.below(100);
        match op {
            // ---------------- sender configuration
            0..=5 => {
                st.cfg_ops += 1;
                match rng.below(5) {
                    0 => {
                        tx.disable_re_use_label();
                        m.disable();
                    }
                    1 => {
                        tx.enable_re_use_label();
                        m.enable(0);
                    }
                    2 => {
                        let n = rng.pick(&[0u8, 1, 2, 3, 255]);
                        tx.enable_re_use_label_with_max_consecutive(n);
                        m.enable(n);
                    }
                    3 => {
                        tx.reset_last_label();
                        m.reset();
                    }
                    _ => {
                        assert_eq!(tx.is_enabled_re_use_label(), m.enabled);
                    }
                }
            }
            // ---------------- sender calls that must fail and leave no trace
            6..=11 => {
                st.encap_err += 1;
                let label = gen_label(&mut rng, &pool);
                let pdu = vec![7u8; rng.below(50)];
                match rng.below(4) {
                    0 => {
                        let r = tx.encap(
                            &pdu,
                            0,
                            EncapMetadata::new(0x0800, Label::SixBytesLabel([0; 6])),
                            &mut frame[off..],
                        );
                        assert_eq!(r, Err(EncapError::ErrorInvalidLabel));
                    }
                    1 => {
                        let pt = rng.range(0x100, 0x5FF) as u16;
                        let r = tx.encap(&pdu, 0, EncapMetadata::new(pt, label), &mut frame[off..]);
                        assert_eq!(r, Err(EncapError::ErrorProtocolType));
                    }
                    2 => {
                        // buffer too small for anything
                        let wl = lbl_bytes(&m.written(label)).len();
                        let pdu = vec![7u8; 3 + rng.below(50)];
                        let bs = rng.below(7 + wl).min(avail);
                        let save: Vec<u8> = frame[off..off + bs].to_vec();
                        let r =
                            tx.encap(&pdu, 0, EncapMetadata::new(0x0800, label), &mut frame[off..off + bs]);
                        assert_eq!(r, Err(EncapError::ErrorSizeBuffer), "bs {bs} wl {wl}");
                        assert_eq!(&frame[off..off + bs], &save[..], "failed encap wrote bytes");
                    }
                    _ => {
                        let r = tx.encap_ext(&pdu, 0, EncapMetadata::new(0x0800, label), &mut frame[off..], vec![]);
                        assert_eq!(r, Err(EncapError::ErrorNoExtensionFound));
                        // mandatory protocol type not carried by the last extension
                        let e = Extension::new(0x0100 | 7, &[]).unwrap();
                        let r = tx.encap_ext(&pdu, 0, EncapMetadata::new(0x0021, label), &mut frame[off..], vec![e]);
                        assert_eq!(r, Err(EncapError::ErrorFinalMandatoryExtensionHeader));
                    }
                }
            }
            // ---------------- continue a fragmented PDU
            12..=35 if !pending.is_empty() => {
                let i = rng.below(pending.len());
                let bs = if rng.chance(1, 2) { avail } else { rng.range(4, avail) };
                let p = &pending[i];
                match tx.encap_frag(&p.pdu, &p.ctx, &mut frame[off..off + bs]) {
                    Ok(EncapStatus::CompletedPkt(n)) => {
                        let p = pending.swap_remove(i);
                        queue.push_back((
                            Expect::Complete {
                                pdu: p.pdu,
                                pt: p.pt,
                                label: p.label,
                                exts: p.exts,
                                from_encap: false,
                            },
                            n as usize,
                        ));
                        off += n as usize;
                        st.frag_pkts += 1;
                        st.reassembled += 1;
                    }
                    Ok(EncapStatus::FragmentedPkt(n, c)) => {
                        pending[i].ctx = c;
                        queue.push_back((Expect::Frag, n as usize));
                        off += n as usize;
                        st.frag_pkts += 1;
                    }
                    Err(EncapError::ErrorSizeBuffer) => {}
                    Err(e) => panic!("encap_frag {:?}", e),
                }
            }
            // ---------------- receiver side garbage between valid packets
            36..=41 => {
                st.injected_err += 1;
                match rng.below(4) {
                    0 | 1 => {
                        // intermediate / end fragment of an unknown frag id: refused, label kept
                        let used: Vec<u8> = pending.iter().map(|p| p.ctx.frag_id()).collect();
                        let mut id = rng.next() as u8;
                        while used.contains(&id) {
                            id = id.wrapping_add(1);
                        }
                        let n = rng.range(6, 12).min(avail);
                        if n < 8 {
                            continue;
                        }
                        let end = rng.chance(1, 2);
                        let h: u16 = if end { 0x4000 } else { 0x0000 } | 0x3000 | (n as u16 - 2);
                        frame[off..off + 2].copy_from_slice(&h.to_be_bytes());
                        frame[off + 2] = id;
                        for b in frame[off + 3..off + n].iter_mut() {
                            *b = 0xEE;
                        }
                        queue.push_back((Expect::ErrUndefinedId, n));
                        off += n;
                    }
                    2 => {
                        // complete packet with an unknown mandatory extension: refused, the receiver
                        // forgets its label (policy) => the sender is told to start again
                        let n = 10usize;
                        let h: u16 = 0xC000 | 0x2000 | (n as u16 - 2);
                        frame[off..off + 2].copy_from_slice(&h.to_be_bytes());
                        frame[off + 2..off + 4].copy_from_slice(&0x00F0u16.to_be_bytes());
                        for b in frame[off + 4..off + n].iter_mut() {
                            *b = 0x11;
                        }
                        queue.push_back((Expect::ErrUnknownMandatory, n));
                        off += n;
                        tx.reset_last_label();
                        m.reset();
                    }
                    _ => {
                        // complete packet with the all zero 6 byte label
                        let n = 12usize;
                        let h: u16 = 0xC000 | (n as u16 - 2);
                        frame[off..off + 2].copy_from_slice(&h.to_be_bytes());
                        frame[off + 2..off + 4].copy_from_slice(&0x0800u16.to_be_bytes());
                        for b in frame[off + 4..off + 10].iter_mut() {
                            *b = 0;
                        }
                        frame[off + 10] = 1;
                        frame[off + 11] = 2;
                        queue.push_back((Expect::ErrInvalidLabel, n));
                        off += n;
                        tx.reset_last_label();
                        m.reset();
                    }
                }
            }
            // ---------------- receiver restart (new decapsulator), sender told
            42 => {
                if pending.is_empty() && queue.is_empty() {
                    st.restarts += 1;
                    rx = mk_rx(Mgr, slots, max_pdu_size, storages, storage_len);
                    tx.reset_last_label();
                    m.reset();
                }
            }
            // ---------------- encap_ext traffic
            43..=54 => {
                let label = gen_label(&mut rng, &pool);
                let (exts, final_id) = gen_exts(&mut rng);
                let pt = final_id.unwrap_or_else(|| rng.range(0x600, 0xFFFF) as u16);
                let mut ext_len: usize = exts.iter().map(|e| e.len()).sum();
                if final_id.is_some() {
                    ext_len -= 2;
                }
                let written = m.written(label);
                let wl = lbl_bytes(&written).len();
                let pdu_len = match rng.below(4) {
                    0 => rng.below(10),
                    1 => rng.below(1500.min(max_pdu)),
                    2 => (4093usize.saturating_sub(wl + ext_len + rng.below(4))).min(max_pdu),
                    _ => rng.below(max_pdu + 1),
                };
                let bs = if rng.chance(1, 2) { avail } else { rng.range(1, avail) };
                let pred = predict(pdu_len, wl, ext_len, bs);
                if matches!(pred, Pred::First(_)) && pending.len() >= max_pending {
                    continue;
                }
                let mut pdu = vec![0u8; pdu_len];
                rng.fill(&mut pdu);
                let used: Vec<usize> = pending.iter().map(|p| p.ctx.frag_id() as usize % slots).collect();
                let mut fid = rng.next() as u8;
                while pending.len() < slots && used.contains(&(fid as usize % slots)) {
                    fid = fid.wrapping_add(1);
                }
                let r = tx.encap_ext(&pdu, fid, EncapMetadata::new(pt, label), &mut frame[off..off + bs], exts.clone());
                match (pred, r) {
                    (Pred::Complete(n), Ok(EncapStatus::CompletedPkt(l))) => {
                        assert_eq!(l as usize, n);
                        m.commit(label);
                        queue.push_back((
                            Expect::Complete { pdu, pt, label, exts, from_encap: false },
                            n,
                        ));
                        off += n;
                        st.ext_complete += 1;
                    }
                    (Pred::First(n), Ok(EncapStatus::FragmentedPkt(l, c))) => {
                        assert_eq!(l as usize, n);
                        m.commit(label);
                        queue.push_back((Expect::Frag, n));
                        off += n;
                        pending.push(Pending { pdu, ctx: c, pt, label, exts });
                        st.ext_first += 1;
                    }
                    (Pred::ErrSize, Err(EncapError::ErrorSizeBuffer)) => {}
                    (Pred::ErrPduLen, Err(EncapError::ErrorPduLength)) => {}
                    (p, r) => panic!("encap_ext: predicted {:?}, got {:?}", p, r),
                }
            }
            // ---------------- encap traffic: the subject of C01
            _ => {
                let label = gen_label(&mut rng, &pool);
                let pt = match rng.below(6) {
                    0 => 0x0600,
                    1 => 0x0601,
                    2 => 0xFFFF,
                    3 => 0x0800,
                    _ => rng.range(0x600, 0xFFFF) as u16,
                };
                let written = m.written(label);
                let wl = lbl_bytes(&written).len();
                let pdu_len = match rng.below(8) {
                    0 => rng.below(3),
                    1 | 2 => rng.below(64),
                    3 => rng.below(1500.min(max_pdu) + 1),
                    4 => (4093usize.saturating_sub(wl + rng.below(3))).min(max_pdu),
                    5 => (4094 - wl + rng.below(5)).min(max_pdu),
                    6 => max_pdu - rng.below(3.min(max_pdu)),
                    _ => rng.below(max_pdu + 1),
                };
                let exact = 4 + wl + pdu_len;
                let bs = match rng.below(5) {
                    0 if exact <= avail => exact,
                    1 if exact < avail => exact + 1,
                    2 => rng.range(1, avail),
                    _ => avail,
                };
                if bs > 4097 {
                    st.big_buffers += 1;
                }
                let pred = predict(pdu_len, wl, 0, bs);
                if matches!(pred, Pred::First(_)) && pending.len() >= max_pending {
                    continue;
                }
                let mut pdu = vec![0u8; pdu_len];
                match rng.below(4) {
                    0 => {}
                    1 => pdu.iter_mut().for_each(|b| *b = 0xFF),
                    _ => rng.fill(&mut pdu),
                }
                let used: Vec<usize> = pending.iter().map(|p| p.ctx.frag_id() as usize % slots).collect();
                let mut fid = rng.next() as u8;
                while pending.len() < slots && used.contains(&(fid as usize % slots)) {
                    fid = fid.wrapping_add(1);
                }
                let r = tx.encap(&pdu, fid, EncapMetadata::new(pt, label), &mut frame[off..off + bs]);
                match (pred, r) {
                    (Pred::Complete(n), r) => {
                        assert_eq!(
                            r,
                            Ok(EncapStatus::CompletedPkt(n as u16)),
                            "C01: encap must complete (seed {seed}, label {:?} written {:?}, pdu {}, buf {})",
                            label,
                            written,
                            pdu_len,
                            bs
                        );
                        assert!(frame[off..off + n] == model_complete(pt, &written, &pdu)[..], "wire bytes seed {seed}");
                        m.commit(label);
                        queue.push_back((
                            Expect::Complete { pdu, pt, label, exts: vec![], from_encap: true },
                            n,
                        ));
                        off += n;
                        st.encap_complete += 1;
                        if written == Label::ReUse {
                            st.encap_complete_reuse += 1;
                        }
                    }
                    (Pred::First(n), Ok(EncapStatus::FragmentedPkt(l, c))) => {
                        assert_eq!(l as usize, n);
                        m.commit(label);
                        queue.push_back((Expect::Frag, n));
                        off += n;
                        pending.push(Pending { pdu, ctx: c, pt, label, exts: vec![] });
                        st.encap_first += 1;
                    }
                    (Pred::ErrSize, Err(EncapError::ErrorSizeBuffer)) => st.encap_err += 1,
                    (Pred::ErrPduLen, Err(EncapError::ErrorPduLength)) => st.encap_err += 1,
                    (p, r) => panic!("encap: predicted {:?}, got {:?} (seed {seed})", p, r),
                }
            }
        }
    }
    // flush
    let _ = deliver!(0);
}

#[test]
fn t4_stateful_model_based() {
    let mut st = Stats::default();
    let seeds: u64 = std::env::var("C01_SEEDS").ok().and_then(|s| s.parse().ok()).unwrap_or(600);
    let steps: usize = std::env::var("C01_STEPS").ok().and_then(|s| s.parse().ok()).unwrap_or(400);
    for seed in 0..seeds {
        run_stateful(1000 + seed, steps, &mut st);
    }
    println!("T4: {seeds} runs x {steps} steps: {:#?}", st);
    assert!(st.encap_complete > 1000 && st.encap_complete_reuse > 100);
}

// ---------------------------------------------------------------------------------------------
// T5: memory corners: 1..=256 slots, free list exactly full / empty, storage too small then valid
// ---------------------------------------------------------------------------------------------
#[test]
fn t5_memory_corners() {
    let mut buf = vec![0u8; 5000];
    let mut cases = 0usize;
    let label = Label::ThreeBytesLabel([0, 0, 0]);
    for slots in 1..=256usize {
        let cap = slots + 2;
        let pdu: Vec<u8> = (0..(slots * 16 % 4091)).map(|i| (i * 7) as u8).collect();
        let mut tx = Encapsulator::new(DefaultCrc {});
        // exactly full
        let mut rx = mk_rx(SimpleMandatoryExtensionHeaderManager {}, slots, pdu.len(), cap, pdu.len());
        assert!(matches!(
            rx.provision_storage(vec![0u8; pdu.len()].into_boxed_slice()),
            Err(DecapMemoryError::StorageOverflow(_))
        ));
        for k in 0..3 {
            let written = if k == 0 { label } else { Label::ReUse };
            let n = 4 + lbl_bytes(&written).len() + pdu.len();
            let r = tx.encap(&pdu, 0, EncapMetadata::new(0x0600, label), &mut buf[..n + k]);
            assert_eq!(r, Ok(EncapStatus::CompletedPkt(n as u16)));
            expect_complete(&mut rx, &buf[..n], &pdu, 0x0600, label, pdu.len(), "full free list");
            cases += 1;
        }
        // empty free list: the antecedent of C01 does not hold; afterwards valid traffic works
        let mut taken = vec![];
        while let Ok(b) = rx.new_pdu() {
            taken.push(b);
        }
        assert_eq!(taken.len(), cap);
        let n = 4 + pdu.len();
        let r = tx.encap(&pdu, 0, EncapMetadata::new(0x0600, label), &mut buf[..n]);
        assert_eq!(r, Ok(EncapStatus::CompletedPkt(n as u16))); // re-use label
        match rx.decap(&buf[..n]) {
            Err((DecapError::ErrorMemory(DecapMemoryError::StorageUnderflow), u)) => assert_eq!(u, n),
            o => panic!("{:?}", o),
        }
        // the receiver dropped its label (policy): sender starts again
        tx.reset_last_label();
        rx.provision_storage(taken.pop().unwrap()).unwrap();
        let n = 4 + 3 + pdu.len();
        let r = tx.encap(&pdu, 0, EncapMetadata::new(0xFFFF, label), &mut buf[..n]);
        assert_eq!(r, Ok(EncapStatus::CompletedPkt(n as u16)));
        expect_complete(&mut rx, &buf[..n], &pdu, 0xFFFF, label, pdu.len(), "after underflow");
        cases += 1;

        // storage one byte too small, then a PDU that fits in the very same storage
        if pdu.len() >= 2 {
            let mut rx = mk_rx(SimpleMandatoryExtensionHeaderManager {}, slots, 0, 1, pdu.len() - 1);
            let mut tx = Encapsulator::new(DefaultCrc {});
            let n = 4 + 3 + pdu.len();
            tx.encap(&pdu, 0, EncapMetadata::new(0x0800, label), &mut buf[..n]).unwrap();
            match rx.decap(&buf[..n]) {
                Err((DecapError::ErrorSizePduBuffer, u)) => assert_eq!(u, n),
                o => panic!("{:?}", o),
            }
            tx.reset_last_label();
            let small = &pdu[..pdu.len() - 1];
            let n = 4 + 3 + small.len();
            let r = tx.encap(small, 0, EncapMetadata::new(0x0800, label), &mut buf[..n]);
            assert_eq!(r, Ok(EncapStatus::CompletedPkt(n as u16)));
            expect_complete(&mut rx, &buf[..n], small, 0x0800, label, pdu.len() - 1, "after too small");
            cases += 1;
        }
    }
    println!("T5: {cases} round trips over 1..=256 slots");
}

// ---------------------------------------------------------------------------------------------
// T6: walking a BBFrame made only of complete packets, dense packing up to > 4097 bytes buffers
// ---------------------------------------------------------------------------------------------
#[test]
fn t6_frame_walk_complete_only() {
    let mut rng = Rng::new(77);
    let mut total = 0usize;
    let mut frames = 0usize;
    for frame_len in [16usize, 100, 4097, 4098, 4099, 8000, 16_200, 58_192 / 8, 65_535, 65_536, 70_000] {
        for round in 0..40 {
            let mut tx = Encapsulator::new(DefaultCrc {});
            let mut m = TxModel::new();
            match round % 4 {
                0 => {}
                1 => {
                    tx.disable_re_use_label();
                    m.disable()
                }
                2 => {
                    tx.enable_re_use_label_with_max_consecutive(2);
                    m.enable(2)
                }
                _ => {
                    tx.enable_re_use_label_with_max_consecutive(1);
                    m.enable(1)
                }
            }
            let mut rx = mk_rx(Mgr, 1 + round, 0, 1, 4093);
            let mut frame = vec![0u8; frame_len];
            let mut off = 0usize;
            let mut exp: Vec<(Vec<u8>, u16, Label, usize)> = vec![];
            let pool = [
                Label::SixBytesLabel([0, 0, 0, 0, 1, 0]),
                Label::ThreeBytesLabel([0, 0, 0]),
                Label::Broadcast,
                Label::SixBytesLabel([0, 0, 0, 0, 1, 0]),
            ];
            loop {
                let avail = frame_len - off;
                let label = pool[rng.below(4)];
                let wl = lbl_bytes(&m.written(label)).len();
                if avail < 4 + wl {
                    break;
                }
                let room = (avail - 4 - wl).min(4093 - wl);
                let pdu_len = match rng.below(4) {
                    0 => room, // fill the frame / the GSE length exactly
                    1 => rng.below(room + 1).min(40),
                    _ => rng.below(room + 1),
                };
                let mut pdu = vec![0u8; pdu_len];
                rng.fill(&mut pdu);
                let pt = rng.range(0x600, 0xFFFF) as u16;
                let n = 4 + wl + pdu_len;
                let r = tx.encap(&pdu, 0, EncapMetadata::new(pt, label), &mut frame[off..]);
                assert_eq!(r, Ok(EncapStatus::CompletedPkt(n as u16)), "frame {frame_len} off {off} pdu {pdu_len}");
                m.commit(label);
                exp.push((pdu, pt, label, n));
                off += n;
                if rng.chance(1, 30) {
                    break;
                }
            }
            // walk
            let mut p = 0usize;
            for (pdu, pt, label, n) in exp {
                match rx.decap(&frame[p..]) {
                    Ok((DecapStatus::CompletedPkt(b, md), used)) => {
                        assert_eq!(used, n);
                        assert_eq!(md.pdu_len(), pdu.len());
                        assert!(b[..pdu.len()] == pdu[..]);
                        assert_eq!(md.protocol_type(), pt);
                        assert_eq!(md.label(), label);
                        rx.provision_storage(b).unwrap();
                    }
                    o => panic!("C01 VIOLATED in frame walk: {:?}", o.map(|(s, u)| (s.to_str(), u))),
                }
                p += n;
                total += 1;
            }
            assert_eq!(p, off);
            if frame_len - p >= 2 {
                assert!(matches!(rx.decap(&frame[p..]), Ok((DecapStatus::Padding, _))));
            }
            frames += 1;
        }
    }
    println!("T6: {total} packets walked in {frames} frames");
}

// ---------------------------------------------------------------------------------------------
// T7: receiver error paths that do not concern the label, followed by a substituted label
// ---------------------------------------------------------------------------------------------
#[test]
fn t7_errors_then_reuse_packet() {
    let mut buf = vec![0u8; 5000];
    let mut cases = 0usize;
    for label in [
        Label::SixBytesLabel([0, 0, 0, 0, 0, 9]),
        Label::ThreeBytesLabel([0, 0, 0]),
        Label::ThreeBytesLabel([1, 2, 3]),
    ] {
        let ll = lbl_bytes(&label).len();
        for pdu_len in [0usize, 1, 17, 4000, 4093] {
            for scenario in 0..6 {
                let storage_len = 4093;
                let mut rx = mk_rx(Mgr, 3, 0, 3, storage_len);
                let mut tx = Encapsulator::new(DefaultCrc {});
                let pdu: Vec<u8> = (0..pdu_len).map(|i| (i * 13 + scenario) as u8).collect();
                // 1. full label
                let r = tx.encap(&[0xAB], 0, EncapMetadata::new(0x0800, label), &mut buf).unwrap();
                assert_eq!(r, EncapStatus::CompletedPkt((5 + ll) as u16));
                expect_complete(&mut rx, &buf[..5 + ll], &[0xAB], 0x0800, label, storage_len, "t7 prime");
                // 2. something the receiver refuses (or accepts) without touching the label
                let mut junk: Vec<Vec<u8>> = vec![];
                match scenario {
                    0 => junk.push(vec![0x30, 0x03, 0x07, 0xDE, 0xAD]), // intermediate, unknown id
                    1 => junk.push(vec![0x70, 0x06, 0x07, 0xDE, 1, 2, 3, 4]), // end, unknown id
                    2 | 3 | 4 => {
                        // own first fragment with a re-use label (keeps the label), then a bad end
                        let total: u16 = if scenario == 3 { 50 } else { 2 + 4 };
                        let mut f = vec![0xB0, 0x07, 0x05];
                        f.extend_from_slice(&total.to_be_bytes());
                        f.extend_from_slice(&0x0800u16.to_be_bytes());
                        f.extend_from_slice(&[1, 2]);
                        junk.push(f);
                        if scenario == 4 {
                            // intermediate larger than the storage left
                            let mut i = vec![0x3F, 0xFF, 0x05];
                            i.extend(std::iter::repeat(0x77).take(4094));
                            junk.push(i);
                        } else {
                            // end: wrong crc (2) / wrong total length (3)
                            junk.push(vec![0x70, 0x07, 0x05, 3, 4, 0, 0, 0, 0]);
                        }
                    }
                    _ => {
                        // a complete fragmented PDU of the real sender with the same label in between
                        let big: Vec<u8> = (0..300).map(|i| i as u8).collect();
                        let mut b = vec![0u8; 100];
                        let mut ctx = match tx.encap(&big, 1, EncapMetadata::new(0x86DD, label), &mut b).unwrap() {
                            EncapStatus::FragmentedPkt(n, c) => {
                                junk.push(b[..n as usize].to_vec());
                                c
                            }
                            o => panic!("{:?}", o),
                        };
                        loop {
                            match tx.encap_frag(&big, &ctx, &mut b).unwrap() {
                                EncapStatus::FragmentedPkt(n, c) => {
                                    junk.push(b[..n as usize].to_vec());
                                    ctx = c;
                                }
                                EncapStatus::CompletedPkt(n) => {
                                    junk.push(b[..n as usize].to_vec());
                                    break;
                                }
                            }
                        }
                    }
                }
                for j in junk {
                    match rx.decap(&j) {
                        Ok((DecapStatus::CompletedPkt(b, _), u)) => {
                            assert_eq!(u, j.len());
                            rx.provision_storage(b).unwrap();
                        }
                        Ok((_, u)) => assert_eq!(u, j.len()),
                        Err((e, u)) => {
                            assert_eq!(u, j.len(), "{:?}", e);
                            assert!(
                                matches!(
                                    e,
                                    DecapError::ErrorMemory(DecapMemoryError::UndefinedId)
                                        | DecapError::ErrorCrc
                                        | DecapError::ErrorTotalLength
                                        | DecapError::ErrorSizePduBuffer
                                ),
                                "{:?}",
                                e
                            );
                        }
                    }
                }
                // 3. substituted label: must come back as the real one
                let n = 4 + pdu_len;
                let r = tx.encap(&pdu, 0, EncapMetadata::new(0xFFFF, label), &mut buf[..n]);
                assert_eq!(r, Ok(EncapStatus::CompletedPkt(n as u16)));
                assert_eq!(&buf[..n], &model_complete(0xFFFF, &Label::ReUse, &pdu)[..]);
                let ctx = format!("t7 scenario {scenario} label {:?} pdu_len {pdu_len}", label);
                expect_complete(&mut rx, &buf[..n], &pdu, 0xFFFF, label, storage_len, &ctx);
                cases += 1;
            }
        }
    }
    println!("T7: {cases} substituted-label round trips after receiver side events");
}
