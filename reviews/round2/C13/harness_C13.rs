// Harness for property C13 (extension-header chains round-trip; unknown mandatory extensions
// cause a drop).  Public API only.  Model based: an independent reference encoder predicts
// the exact bytes / status of encap_ext, and the decapsulator must give back the inputs.
//
// Run: copy / symlink into tests/ and
//   CARGO_NET_OFFLINE=true cargo test --offline --test harness_C13 -- --nocapture
//   CARGO_NET_OFFLINE=true cargo test --offline --release --test harness_C13 -- --nocapture

use dvb_gse_rust::crc::{CrcCalculator, DefaultCrc};
use dvb_gse_rust::gse_decap::{
    DecapError, DecapMemoryError, DecapStatus, Decapsulator, GseDecapMemory, SimpleGseMemory,
};
use dvb_gse_rust::gse_encap::{ContextFrag, EncapError, EncapMetadata, EncapStatus, Encapsulator};
use dvb_gse_rust::header_extension::{
    Extension, ExtensionData, MandatoryHeaderExt, MandatoryHeaderExtensionManager,
    NewExtensionError, SignalisationMandatoryExtensionHeaderManager,
    SimpleMandatoryExtensionHeaderManager,
};
use dvb_gse_rust::label::Label;
use std::panic::{catch_unwind, AssertUnwindSafe};

// ---------------------------------------------------------------------------------------------
// Domain description
// ---------------------------------------------------------------------------------------------

/// ids of the known non-final mandatory extensions, indexed by data length 0..=8
const NF_ID: [u16; 9] = [0x0000, 0x0011, 0x0022, 0x0033, 0x0044, 0x0055, 0x0066, 0x0077, 0x007F];
/// ids of the final mandatory extensions, indexed by data length 0..=8
const F_ID: [u16; 9] = [0x0081, 0x0080, 0x0093, 0x00A4, 0x00B5, 0x00C6, 0x00D7, 0x00E8, 0x00FF];

#[derive(Clone, Copy, Debug, PartialEq, Eq)]
enum Kind {
    Opt(u8), // h-len class 1..=5
    Nf(u8),  // non final mandatory, data len 0..=8
    Fin(u8), // final mandatory, data len 0..=8
}

#[derive(Clone, Debug)]
struct Ext {
    kind: Kind,
    id: u16,
    data: Vec<u8>,
}

fn mk_ext(kind: Kind, pos: usize, salt: u8) -> Ext {
    let (id, len) = match kind {
        Kind::Opt(h) => {
            // both edges of every class
            let low = (h as u16) << 8;
            let id = if (pos + salt as usize) % 2 == 0 { low } else { low | 0xFF };
            (id, (h as usize - 1) * 2)
        }
        Kind::Nf(l) => (NF_ID[l as usize], l as usize),
        Kind::Fin(l) => (F_ID[l as usize], l as usize),
    };
    // data bytes that look like extension ids / protocol types to catch a mis-walk
    let pat: [u8; 8] = [0x00, 0x05, 0x01, 0x00, 0x00, 0x81, 0x06, 0x00];
    let data: Vec<u8> = (0..len)
        .map(|i| if salt % 3 == 0 { pat[(i + pos) % 8] } else { (i as u8).wrapping_mul(37) ^ salt ^ (pos as u8) << 4 })
        .collect();
    Ext { kind, id, data }
}

fn to_lib(chain: &[Ext]) -> Vec<Extension> {
    chain.iter().map(|e| Extension::new(e.id, &e.data).expect("constructor")).collect()
}

/// manager built from a table id -> (final, len)
#[derive(Clone)]
struct Mgr {
    tab: [Option<(bool, u8)>; 256],
}
impl Mgr {
    fn none() -> Self {
        Mgr { tab: [None; 256] }
    }
    fn all() -> Self {
        let mut m = Self::none();
        for l in 0..9 {
            m.tab[NF_ID[l] as usize] = Some((false, l as u8));
            m.tab[F_ID[l] as usize] = Some((true, l as u8));
        }
        m
    }
    fn forget(mut self, id: u16) -> Self {
        self.tab[id as usize] = None;
        self
    }
}
impl MandatoryHeaderExtensionManager for Mgr {
    fn is_mandatory_header_id_known(&self, id: u16) -> MandatoryHeaderExt {
        assert!(id < 0x100, "manager asked about a non mandatory id {id:#x}");
        match self.tab[id as usize] {
            None => MandatoryHeaderExt::Unknown,
            Some((true, l)) => MandatoryHeaderExt::Final(l),
            Some((false, l)) => MandatoryHeaderExt::NonFinal(l),
        }
    }
}

fn labels() -> Vec<Label> {
    vec![
        Label::SixBytesLabel([1, 2, 3, 4, 5, 6]),
        Label::SixBytesLabel([0, 0, 0, 0, 0, 1]),
        Label::ThreeBytesLabel([9, 8, 7]),
        Label::ThreeBytesLabel([0, 0, 0]),
        Label::Broadcast,
    ]
}

fn pdu_bytes(len: usize, seed: u32) -> Vec<u8> {
    // starts with bytes that look like extension ids
    let head: [u8; 8] = [0x00, 0x81, 0x01, 0x00, 0x05, 0xFF, 0x00, 0x00];
    let mut x = seed.wrapping_mul(2654435761).wrapping_add(12345);
    (0..len)
        .map(|i| {
            if i < 8 && seed % 2 == 0 {
                head[i]
            } else {
                x ^= x << 13;
                x ^= x >> 17;
                x ^= x << 5;
                (x >> 8) as u8
            }
        })
        .collect()
}

// ---------------------------------------------------------------------------------------------
// Reference encoder
// ---------------------------------------------------------------------------------------------

#[derive(Debug, PartialEq, Eq)]
enum Model {
    Complete(Vec<u8>),
    First { bytes: Vec<u8>, sent: usize, crc: u32 },
    Err(EncapError),
}

fn is_final_chain(chain: &[Ext]) -> bool {
    matches!(chain.last().unwrap().kind, Kind::Fin(_))
}

/// bytes that follow the label: data0, id1, data1, ..., [protocol type]
fn ext_area(chain: &[Ext], ptype: u16, fin: bool) -> Vec<u8> {
    let mut v = vec![];
    for (i, e) in chain.iter().enumerate() {
        if i > 0 {
            v.extend_from_slice(&e.id.to_be_bytes());
        }
        v.extend_from_slice(&e.data);
    }
    if !fin {
        v.extend_from_slice(&ptype.to_be_bytes());
    }
    v
}

fn lt_bits(l: &Label) -> u16 {
    match l {
        Label::SixBytesLabel(_) => 0x0000,
        Label::ThreeBytesLabel(_) => 0x1000,
        Label::Broadcast => 0x2000,
        Label::ReUse => 0x3000,
    }
}

/// `wire_label` is the label after the re-use decision.  `fin` says whether the protocol type is
/// carried by the last (mandatory) extension.
fn model_encap(chain: &[Ext], ptype: u16, wire_label: Label, pdu: &[u8], frag_id: u8, buf_len: usize) -> Model {
    let fin = ptype < 0x100;
    let area = ext_area(chain, ptype, fin);
    let lab = wire_label.get_bytes().to_vec();
    let gse_complete = 2 + lab.len() + area.len() + pdu.len();
    if buf_len >= 2 + gse_complete && gse_complete <= 4095 {
        let mut b = vec![];
        b.extend_from_slice(&(0xC000u16 | lt_bits(&wire_label) | gse_complete as u16).to_be_bytes());
        b.extend_from_slice(&chain[0].id.to_be_bytes());
        b.extend_from_slice(&lab);
        b.extend_from_slice(&area);
        b.extend_from_slice(pdu);
        return Model::Complete(b);
    }
    let hdr = 2 + 3 + 2 + lab.len() + area.len();
    if buf_len < hdr || hdr > 4097 {
        return Model::Err(EncapError::ErrorSizeBuffer);
    }
    if pdu.len() + 2 + lab.len() > 65535 {
        return Model::Err(EncapError::ErrorPduLength);
    }
    let sent = buf_len.min(4097) - hdr;
    assert!(sent < pdu.len(), "model: first fragment would carry the whole pdu");
    let total_len = (pdu.len() + 2 + lab.len()) as u16;
    let gse = hdr - 2 + sent;
    let mut b = vec![];
    b.extend_from_slice(&(0x8000u16 | lt_bits(&wire_label) | gse as u16).to_be_bytes());
    b.push(frag_id);
    b.extend_from_slice(&total_len.to_be_bytes());
    b.extend_from_slice(&chain[0].id.to_be_bytes());
    b.extend_from_slice(&lab);
    b.extend_from_slice(&area);
    b.extend_from_slice(&pdu[..sent]);
    let crc = DefaultCrc {}.calculate_crc32(pdu, ptype, total_len, &lab);
    Model::First { bytes: b, sent, crc }
}

/// expected error of encap_ext for the protocol type / chain combination, if any
fn model_ptype_err(chain: &[Ext], ptype: u16) -> Option<EncapError> {
    if ptype < 0x100 {
        let last = chain.last().unwrap();
        if last.id != ptype || last.id >= 0x100 {
            return Some(EncapError::ErrorFinalMandatoryExtensionHeader);
        }
        None
    } else if ptype < 0x600 {
        Some(EncapError::ErrorProtocolType)
    } else {
        None
    }
}

const SENTINEL: u8 = 0xEE;

/// calls encap_ext on a sentinel filled buffer of `buf_len`, compares with the model,
/// returns (bytes on wire, Some(ctx) if fragmented) or None on (expected) error
fn checked_encap(
    enc: &mut Encapsulator<DefaultCrc>,
    chain: &[Ext],
    ptype: u16,
    label: Label,
    wire_label: Label,
    pdu: &[u8],
    frag_id: u8,
    buf_len: usize,
    what: &str,
) -> Option<(Vec<u8>, Option<ContextFrag>)> {
    let mut buf = vec![SENTINEL; buf_len];
    let before = enc.clone();
    let r = catch_unwind(AssertUnwindSafe(|| {
        enc.encap_ext(pdu, frag_id, EncapMetadata::new(ptype, label), &mut buf, to_lib(chain))
    }))
    .unwrap_or_else(|_| panic!("encap_ext panicked: {what}"));
    let model = match model_ptype_err(chain, ptype) {
        Some(e) => Model::Err(e),
        None => {
            if label == Label::SixBytesLabel([0; 6]) {
                Model::Err(EncapError::ErrorInvalidLabel)
            } else {
                model_encap(chain, ptype, wire_label, pdu, frag_id, buf_len)
            }
        }
    };
    match (r, model) {
        (Err(e), Model::Err(m)) => {
            assert_eq!(e, m, "error kind: {what}");
            assert!(buf.iter().all(|b| *b == SENTINEL), "buffer written on error: {what}");
            assert!(*enc == before, "encapsulator state changed on error: {what}");
            None
        }
        (Ok(EncapStatus::CompletedPkt(n)), Model::Complete(bytes)) => {
            assert_eq!(n as usize, bytes.len(), "reported length: {what}");
            assert_eq!(&buf[..bytes.len()], &bytes[..], "bytes: {what}");
            assert!(buf[bytes.len()..].iter().all(|b| *b == SENTINEL), "wrote past the packet: {what}");
            Some((bytes, None))
        }
        (Ok(EncapStatus::FragmentedPkt(n, ctx)), Model::First { bytes, sent, crc }) => {
            assert_eq!(n as usize, bytes.len(), "reported length (first): {what}");
            assert_eq!(&buf[..bytes.len()], &bytes[..], "bytes (first): {what}");
            assert!(buf[bytes.len()..].iter().all(|b| *b == SENTINEL), "wrote past the packet: {what}");
            assert_eq!(ctx, ContextFrag::new(frag_id, crc, sent as u16), "context: {what}");
            Some((bytes, Some(ctx)))
        }
        (r, m) => panic!("encap_ext / model disagree: {what}\n got {r:?}\n model {m:?}"),
    }
}

type Dec<M> = Decapsulator<SimpleGseMemory, DefaultCrc, M>;

fn new_dec<M: MandatoryHeaderExtensionManager>(slots: usize, storage: usize, nb_storage: usize, mgr: M) -> Dec<M> {
    let mut mem = SimpleGseMemory::new(slots, storage, 0, 0);
    for _ in 0..nb_storage {
        mem.provision_storage(vec![0xA5; storage].into_boxed_slice()).unwrap();
    }
    Decapsulator::new(mem, DefaultCrc {}, mgr)
}

fn check_completed(st: &DecapStatus, chain: &[Ext], ptype: u16, label: Label, pdu: &[u8], what: &str) {
    match st {
        DecapStatus::CompletedPkt(store, md) => {
            assert_eq!(md.pdu_len(), pdu.len(), "pdu len: {what}");
            assert_eq!(&store[..pdu.len()], pdu, "pdu: {what}");
            assert_eq!(md.protocol_type(), ptype, "ptype: {what}");
            assert_eq!(md.label(), label, "label: {what}");
            assert_eq!(md.extensions(), &to_lib(chain), "extensions: {what}");
        }
        other => panic!("expected a completed pdu: {what}: {other:?}"),
    }
}

fn check_fragment(st: &DecapStatus, chain: &[Ext], ptype: u16, label: Label, what: &str) {
    match st {
        DecapStatus::FragmentedPkt(md) => {
            assert_eq!(md.protocol_type(), ptype, "ptype(frag): {what}");
            assert_eq!(md.label(), label, "label(frag): {what}");
            assert_eq!(md.extensions(), &to_lib(chain), "extensions(frag): {what}");
        }
        other => panic!("expected a fragment status: {what}: {other:?}"),
    }
}

/// all chains of 1..=max_len; non last positions: 5 optional classes + 9 non final mandatory,
/// last position: the same plus 9 final mandatory
fn all_chains(max_len: usize) -> Vec<Vec<Kind>> {
    let mut non_last: Vec<Kind> = (1..=5).map(Kind::Opt).collect();
    non_last.extend((0..=8).map(Kind::Nf));
    let mut last = non_last.clone();
    last.extend((0..=8).map(Kind::Fin));
    let mut out = vec![];
    let mut prefixes: Vec<Vec<Kind>> = vec![vec![]];
    for _ in 0..max_len {
        for p in &prefixes {
            for l in &last {
                let mut c = p.clone();
                c.push(*l);
                out.push(c);
            }
        }
        let mut next = vec![];
        for p in &prefixes {
            for k in &non_last {
                let mut c = p.clone();
                c.push(*k);
                next.push(c);
            }
        }
        prefixes = next;
    }
    out
}

fn build(kinds: &[Kind], salt: u8) -> Vec<Ext> {
    kinds.iter().enumerate().map(|(i, k)| mk_ext(*k, i, salt)).collect()
}

fn ptype_of(chain: &[Ext], alt: usize) -> u16 {
    if is_final_chain(chain) {
        chain.last().unwrap().id
    } else {
        [0x0600, 0x0601, 0x0800, 0xFFFF, 0x86DD][alt % 5]
    }
}

// ---------------------------------------------------------------------------------------------
// T1 : the constructor, all 65536 ids x data lengths 0..=10 (and a few longer ones)
// ---------------------------------------------------------------------------------------------
#[test]
fn t1_constructor_exhaustive() {
    let mut cases = 0u64;
    let mut oks = 0u64;
    let lens: Vec<usize> = (0..=10).chain([11, 12, 16, 255, 256, 300].into_iter()).collect();
    for id in 0..=0xFFFFu16 {
        for &len in &lens {
            let data: Vec<u8> = (0..len).map(|i| (i as u8) ^ (id as u8)).collect();
            let r = catch_unwind(|| Extension::new(id, &data));
            let r = r.unwrap_or_else(|_| panic!("Extension::new({id:#x}, {len} bytes) panicked"));
            let expect_ok = if id >= 0x600 {
                false
            } else if id < 0x100 {
                true
            } else {
                len == ((id >> 8) as usize - 1) * 2
            };
            cases += 1;
            match r {
                Ok(e) => {
                    assert!(expect_ok, "Extension::new({id:#x}, {len}) should fail");
                    oks += 1;
                    assert_eq!(e.id(), id);
                    assert_eq!(e.len(), 2 + len);
                    match e.data() {
                        ExtensionData::MandatoryData(v) => assert!(id < 0x100 && v == &data),
                        ExtensionData::NoData => assert!(id >> 8 == 1 && len == 0),
                        ExtensionData::Data2(d) => assert!(id >> 8 == 2 && d[..] == data[..]),
                        ExtensionData::Data4(d) => assert!(id >> 8 == 3 && d[..] == data[..]),
                        ExtensionData::Data6(d) => assert!(id >> 8 == 4 && d[..] == data[..]),
                        ExtensionData::Data8(d) => assert!(id >> 8 == 5 && d[..] == data[..]),
                    }
                    assert_eq!(e.clone(), e);
                }
                Err(err) => {
                    assert!(!expect_ok, "Extension::new({id:#x}, {len}) should succeed");
                    if id >= 0x600 {
                        assert_eq!(err, NewExtensionError::IncorrectExtensionId);
                    } else {
                        assert_eq!(err, NewExtensionError::IdAndVecSizeNotMatchingError);
                    }
                }
            }
        }
    }
    println!("T1 constructor: {cases} cases, {oks} Ok");
}

// ---------------------------------------------------------------------------------------------
// T2 : every chain of 1..=4 extensions, complete and fragmented, receiver knows everything
// ---------------------------------------------------------------------------------------------
#[test]
fn t2_all_chains_roundtrip() {
    let chains = all_chains(4);
    assert_eq!(chains.len(), 23 * (1 + 14 + 196 + 2744));
    let labs = labels();
    let mut n_complete = 0u64;
    let mut n_frag = 0u64;
    let mut n_err = 0u64;
    for (ci, kinds) in chains.iter().enumerate() {
      // every label kind, plus the label carried by re-use (variant 5)
      for lv in 0..6usize {
        let chain = build(kinds, (ci + lv) as u8);
        let ptype = ptype_of(&chain, ci + lv);
        let label = labs[(ci + lv) % labs.len()];
        let reuse = lv == 5 && label != Label::Broadcast;
        let wire = if reuse { Label::ReUse } else { label };
        let area = ext_area(&chain, ptype, ptype < 0x100).len();
        let hdr_c = 4 + wire.len() + area;
        let pdu_len = [0usize, 1, 2, 9, 40, 100][(ci + lv) % 6];
        let pdu = pdu_bytes(pdu_len, ci as u32);
        // buffers: too small for anything, exactly the fragment header, inside pdu, exactly complete, larger
        let bufs = [
            0,
            hdr_c.saturating_sub(1),
            hdr_c + 2,
            hdr_c + 3,
            hdr_c + 3 + pdu_len / 2,
            hdr_c + pdu_len - 1 + (pdu_len == 0) as usize,
            hdr_c + pdu_len,
            hdr_c + pdu_len + 7,
            5000,
        ];
        for &bl in &bufs {
            let what = format!("chain#{ci} {kinds:?} ptype {ptype:#x} label {label:?} pdu {pdu_len} buf {bl}");
            let mut enc = Encapsulator::new(DefaultCrc {});
            let frag_id = (ci % 256) as u8;
            let slots = [1usize, 2, 3, 7, 255, 256][ci % 6];
            let mut dec = new_dec(slots, pdu_len.max(2), 1, Mgr::all());
            if reuse {
                let mut b = vec![0; 32];
                let EncapStatus::CompletedPkt(n) = enc.encap(&[1, 2], 0, EncapMetadata::new(0x0800, label), &mut b).unwrap() else { panic!() };
                let (st, used) = dec.decap(&b[..n as usize]).unwrap();
                assert_eq!(used, n as usize);
                let DecapStatus::CompletedPkt(s, _) = st else { panic!() };
                dec.provision_storage(s).unwrap();
            }
            let Some((bytes, ctx)) = checked_encap(&mut enc, &chain, ptype, label, wire, &pdu, frag_id, bl, &what) else {
                n_err += 1;
                continue;
            };
            // the packet is followed by padding in its frame
            let mut frame = bytes.clone();
            frame.extend_from_slice(&[0u8; 5]);
            let (st, used) = dec.decap(&frame).unwrap_or_else(|e| panic!("decap failed {e:?}: {what}"));
            assert_eq!(used, bytes.len(), "consumed: {what}");
            match ctx {
                None => {
                    n_complete += 1;
                    check_completed(&st, &chain, ptype, label, &pdu, &what);
                }
                Some(mut ctx) => {
                    n_frag += 1;
                    check_fragment(&st, &chain, ptype, label, &what);
                    // remaining fragments: small, then whatever is needed
                    let mut sizes = [4usize + (ci % 5), 9, 5000].into_iter();
                    let mut guard = 0;
                    loop {
                        guard += 1;
                        assert!(guard < 200, "no progress: {what}");
                        let bl2 = sizes.next().unwrap_or(5000);
                        let mut b2 = vec![SENTINEL; bl2];
                        match enc.encap_frag(&pdu, &ctx, &mut b2) {
                            Ok(EncapStatus::FragmentedPkt(n, c2)) => {
                                let (st, used) = dec.decap(&b2[..n as usize]).unwrap_or_else(|e| panic!("decap inter {e:?}: {what}"));
                                assert_eq!(used, n as usize);
                                check_fragment(&st, &chain, ptype, label, &what);
                                ctx = c2;
                            }
                            Ok(EncapStatus::CompletedPkt(n)) => {
                                let (st, used) = dec.decap(&b2[..n as usize]).unwrap_or_else(|e| panic!("decap end {e:?}: {what}"));
                                assert_eq!(used, n as usize);
                                check_completed(&st, &chain, ptype, label, &pdu, &what);
                                break;
                            }
                            Err(EncapError::ErrorSizeBuffer) => continue,
                            Err(e) => panic!("encap_frag {e:?}: {what}"),
                        }
                    }
                }
            }
            // padding after the packet
            let (st, used) = dec.decap(&frame[bytes.len()..]).unwrap();
            assert_eq!((st, used), (DecapStatus::Padding, 5));
        }
      }
    }
    println!("T2 all chains: {} chains x 6 label variants, {n_complete} complete, {n_frag} fragmented, {n_err} refused", chains.len());
}

// ---------------------------------------------------------------------------------------------
// T3 : receivers that know some / none of the mandatory ids: the packet is rejected as a whole,
//      exactly its own length is consumed, nothing is kept, the traffic that follows is intact
// ---------------------------------------------------------------------------------------------
fn mem_snapshot<M: MandatoryHeaderExtensionManager>(dec: &Dec<M>) -> SimpleGseMemory {
    dec.memory.clone()
}

#[test]
fn t3_unknown_mandatory_dropped() {
    let chains = all_chains(4);
    let labs = labels();
    let mut n_cases = 0u64;
    let mut n_complete = 0u64;
    let mut n_first = 0u64;
    let mut n_known_ok = 0u64;
    // a valid follower with known extensions only
    let follower_chain = build(&[Kind::Opt(3), Kind::Nf(2)], 1);
    let follower_pdu = pdu_bytes(33, 77);
    for (ci, kinds) in chains.iter().enumerate() {
        let chain = build(kinds, ci as u8);
        let mut mand_ids: Vec<u16> = chain.iter().filter(|e| e.id < 0x100).map(|e| e.id).collect();
        mand_ids.sort();
        mand_ids.dedup();
        if mand_ids.is_empty() {
            continue;
        }
        let ptype = ptype_of(&chain, ci);
        let label = labs[ci % labs.len()];
        let pdu = pdu_bytes(30 + ci % 7, ci as u32);
        let area = ext_area(&chain, ptype, ptype < 0x100).len();
        let hdr_c = 4 + label.len() + area;
        // one complete packet, one first fragment (+ its continuation)
        for frag in [false, true] {
            let bl = if frag { hdr_c + 3 + 5 } else { 4000 };
            let what0 = format!("chain#{ci} {kinds:?} ptype {ptype:#x} label {label:?} frag {frag}");
            let mut enc = Encapsulator::new(DefaultCrc {});
            enc.disable_re_use_label();
            let (bytes, ctx) = checked_encap(&mut enc, &chain, ptype, label, label, &pdu, 5, bl, &what0).unwrap();
            assert_eq!(ctx.is_some(), frag);
            // rest of the pdu
            let mut rest = vec![0u8; 200];
            let rest_len = match ctx {
                Some(c) => match enc.encap_frag(&pdu, &c, &mut rest).unwrap() {
                    EncapStatus::CompletedPkt(n) => n as usize,
                    _ => unreachable!(),
                },
                None => 0,
            };
            // follower packets
            let mut f1 = vec![0u8; 200];
            let f1_len = match enc.encap(&follower_pdu, 9, EncapMetadata::new(0x0800, label), &mut f1).unwrap() {
                EncapStatus::CompletedPkt(n) => n as usize,
                _ => unreachable!(),
            };
            let mut f2 = vec![0u8; 200];
            let f2_len = match enc
                .encap_ext(&follower_pdu, 9, EncapMetadata::new(0x0801, label), &mut f2, to_lib(&follower_chain))
                .unwrap()
            {
                EncapStatus::CompletedPkt(n) => n as usize,
                _ => unreachable!(),
            };
            let mut frame = bytes.clone();
            frame.extend_from_slice(&rest[..rest_len]);
            frame.extend_from_slice(&f1[..f1_len]);
            frame.extend_from_slice(&f2[..f2_len]);
            frame.extend_from_slice(&[0u8; 11]);

            // every non-empty subset of forgotten ids, plus the empty one (control)
            for mask in 0..(1u32 << mand_ids.len()) {
                let mut mgr = Mgr::all();
                for (i, id) in mand_ids.iter().enumerate() {
                    if mask & (1 << i) != 0 {
                        mgr = mgr.forget(*id);
                    }
                }
                // the follower uses NF_ID[2]; keep it known unless it is one of the forgotten ones
                let follower_known = mgr.tab[NF_ID[2] as usize].is_some();
                let what = format!("{what0} forgotten mask {mask:#b} of {mand_ids:x?}");
                let slots = [1usize, 2, 6, 256][ci % 4];
                let mut dec = new_dec(slots, 64, 3, mgr);
                let snap = mem_snapshot(&dec);
                let mut off = 0;
                n_cases += 1;
                let r = catch_unwind(AssertUnwindSafe(|| dec.decap(&frame[off..]))).unwrap_or_else(|_| panic!("decap panicked: {what}"));
                if mask == 0 {
                    n_known_ok += 1;
                    let (st, used) = r.unwrap_or_else(|e| panic!("known receiver refused {e:?}: {what}"));
                    assert_eq!(used, bytes.len());
                    off += used;
                    if frag {
                        check_fragment(&st, &chain, ptype, label, &what);
                        let (st, used) = dec.decap(&frame[off..]).unwrap();
                        assert_eq!(used, rest_len);
                        off += used;
                        check_completed(&st, &chain, ptype, label, &pdu, &what);
                    } else {
                        check_completed(&st, &chain, ptype, label, &pdu, &what);
                    }
                } else {
                    match r {
                        Err((DecapError::ErrorUnkownMandatoryHeader, used)) => {
                            assert_eq!(used, bytes.len(), "rejected packet must consume its own length: {what}")
                        }
                        other => panic!("unknown mandatory extension not rejected properly: {what}: {other:?}"),
                    }
                    assert!(dec.memory == snap, "memory changed by a rejected packet: {what}");
                    off += bytes.len();
                    if frag {
                        n_first += 1;
                        // the end fragment of the rejected pdu must not deliver anything
                        match dec.decap(&frame[off..]) {
                            Err((DecapError::ErrorMemory(DecapMemoryError::UndefinedId), used)) => assert_eq!(used, rest_len, "{what}"),
                            other => panic!("end of a rejected pdu: {what}: {other:?}"),
                        }
                        assert!(dec.memory == snap, "memory changed by the end of a rejected pdu: {what}");
                        off += rest_len;
                    } else {
                        n_complete += 1;
                    }
                }
                // follower 1 (no extension): always delivered
                let (st, used) = dec.decap(&frame[off..]).unwrap_or_else(|e| panic!("follower1 {e:?}: {what}"));
                assert_eq!(used, f1_len);
                off += used;
                check_completed(&st, &[], 0x0800, label, &follower_pdu, &what);
                // follower 2
                match dec.decap(&frame[off..]) {
                    Ok((st, used)) => {
                        assert!(follower_known);
                        assert_eq!(used, f2_len);
                        check_completed(&st, &follower_chain, 0x0801, label, &follower_pdu, &what);
                    }
                    Err((DecapError::ErrorUnkownMandatoryHeader, used)) => {
                        assert!(!follower_known);
                        assert_eq!(used, f2_len);
                    }
                    other => panic!("follower2: {what}: {other:?}"),
                }
                off += f2_len;
                assert_eq!(dec.decap(&frame[off..]).unwrap(), (DecapStatus::Padding, 11));
            }
        }
    }
    println!("T3 unknown mandatory: {n_cases} receiver cases ({n_known_ok} all-known controls, {n_complete} complete rejected, {n_first} first fragments rejected)");

    // library managers: Simple knows nothing, Signalisation knows 0x81 / 0x82 as Final(0)
    let mut n = 0;
    for id in 0..0x100u16 {
        for dl in 0..=8usize {
            let chain = vec![Ext { kind: Kind::Fin(dl as u8), id, data: (0..dl as u8).collect() }];
            let pdu = pdu_bytes(20, id as u32);
            for label in labels() {
                for frag in [false, true] {
                    let bl = if frag { 4 + label.len() + dl + 3 + 4 } else { 500 };
                    let mut enc = Encapsulator::new(DefaultCrc {});
                    let what = format!("lib managers id {id:#x} dl {dl} {label:?} frag {frag}");
                    let (bytes, _) = checked_encap(&mut enc, &chain, id, label, label, &pdu, 1, bl, &what).unwrap();
                    let mut frame = bytes.clone();
                    frame.extend_from_slice(&[0; 4]);
                    n += 1;
                    let mut d1 = new_dec(3, 32, 1, SimpleMandatoryExtensionHeaderManager {});
                    assert_eq!(d1.decap(&frame), Err((DecapError::ErrorUnkownMandatoryHeader, bytes.len())), "{what}");
                    let mut d2 = new_dec(3, 32, 1, SignalisationMandatoryExtensionHeaderManager {});
                    let r = d2.decap(&frame);
                    if (id == 0x81 || id == 0x82) && dl == 0 {
                        let (st, used) = r.unwrap();
                        assert_eq!(used, bytes.len());
                        if frag { check_fragment(&st, &chain, id, label, &what) } else { check_completed(&st, &chain, id, label, &pdu, &what) }
                    } else if id == 0x81 || id == 0x82 {
                        // data the receiver does not expect: the receiver takes it for pdu bytes (different meaning: not judged)
                        assert!(r.is_ok());
                    } else {
                        assert_eq!(r, Err((DecapError::ErrorUnkownMandatoryHeader, bytes.len())), "{what}");
                    }
                }
            }
        }
    }
    println!("T3 library managers: {n} packets x 2 managers");
}

// ---------------------------------------------------------------------------------------------
// T4 : buffers of every size from 0 to beyond the complete packet (so the cut falls before,
//      inside and after the extension area), then every size for the second packet
// ---------------------------------------------------------------------------------------------
#[test]
fn t4_fragmentation_at_every_offset() {
    let mut chains = all_chains(2);
    // plus a sample of the long chains
    for (i, c) in all_chains(4).into_iter().enumerate() {
        if c.len() >= 3 && i % 97 == 0 {
            chains.push(c);
        }
    }
    let labs = labels();
    let (mut n_first, mut n_err, mut n_complete, mut n_second, mut n_pdus) = (0u64, 0u64, 0u64, 0u64, 0u64);
    for (ci, kinds) in chains.iter().enumerate() {
        let chain = build(kinds, (ci * 3) as u8);
        let ptype = ptype_of(&chain, ci);
        for (li, label) in labs.iter().enumerate() {
            let pdu_len = 24 + (ci + li) % 5;
            let pdu = pdu_bytes(pdu_len, (ci * 7 + li) as u32);
            let area = ext_area(&chain, ptype, ptype < 0x100).len();
            let full = 4 + label.len() + area + pdu_len;
            for bl in 0..=full + 4 {
                let what = format!("chain#{ci} {kinds:?} ptype {ptype:#x} {label:?} pdu {pdu_len} buf {bl}");
                let mut enc = Encapsulator::new(DefaultCrc {});
                let r = checked_encap(&mut enc, &chain, ptype, *label, *label, &pdu, 200, bl, &what);
                let Some((bytes, ctx)) = r else {
                    n_err += 1;
                    assert!(bl < 7 + label.len() + area, "refused although the header fits: {what}");
                    continue;
                };
                let Some(ctx) = ctx else {
                    n_complete += 1;
                    assert!(bl >= full);
                    let mut dec = new_dec(1, pdu_len, 1, Mgr::all());
                    let (st, used) = dec.decap(&bytes).unwrap();
                    assert_eq!(used, bytes.len());
                    check_completed(&st, &chain, ptype, *label, &pdu, &what);
                    continue;
                };
                n_first += 1;
                assert!(bl < full);
                // second packet of every size; third packet large
                let remaining = pdu_len - ctx.len_pdu_frag() as usize;
                for bl2 in 0..=remaining + 9 {
                    let mut dec = new_dec(2, pdu_len, 1, Mgr::all());
                    let (st, used) = dec.decap(&bytes).unwrap();
                    assert_eq!(used, bytes.len());
                    check_fragment(&st, &chain, ptype, *label, &what);
                    let mut b2 = vec![SENTINEL; bl2];
                    n_second += 1;
                    let mut c = ctx;
                    let mut done = false;
                    match enc.encap_frag(&pdu, &c, &mut b2) {
                        Err(EncapError::ErrorSizeBuffer) => {}
                        Err(e) => panic!("encap_frag {e:?}: {what} bl2 {bl2}"),
                        Ok(EncapStatus::FragmentedPkt(n, c2)) => {
                            let (st, used) = dec.decap(&b2[..n as usize]).unwrap();
                            assert_eq!(used, n as usize);
                            check_fragment(&st, &chain, ptype, *label, &what);
                            c = c2;
                        }
                        Ok(EncapStatus::CompletedPkt(n)) => {
                            let (st, used) = dec.decap(&b2[..n as usize]).unwrap();
                            assert_eq!(used, n as usize);
                            check_completed(&st, &chain, ptype, *label, &pdu, &what);
                            done = true;
                        }
                    }
                    if !done {
                        let mut b3 = vec![SENTINEL; 300];
                        match enc.encap_frag(&pdu, &c, &mut b3).unwrap() {
                            EncapStatus::CompletedPkt(n) => {
                                let (st, used) = dec.decap(&b3[..n as usize]).unwrap();
                                assert_eq!(used, n as usize);
                                check_completed(&st, &chain, ptype, *label, &pdu, &what);
                            }
                            other => panic!("{other:?}"),
                        }
                    }
                    n_pdus += 1;
                }
            }
        }
    }
    println!("T4 every offset: {} chains x 5 labels; {n_err} refused, {n_complete} complete, {n_first} first fragments, {n_second} second-packet sizes, {n_pdus} pdus reassembled", chains.len());
}

// ---------------------------------------------------------------------------------------------
// T5 : protocol types on both sides of 0x0100 and 0x0600, for every kind of last extension
// ---------------------------------------------------------------------------------------------
#[test]
fn t5_protocol_types() {
    let chains = all_chains(2);
    let ptypes: Vec<u16> = vec![
        0x0000, 0x0001, 0x0011, 0x007F, 0x0080, 0x0081, 0x0082, 0x00FE, 0x00FF, 0x0100, 0x0101, 0x01FF, 0x0200, 0x03AB, 0x0500,
        0x05FE, 0x05FF, 0x0600, 0x0601, 0x0800, 0x86DD, 0xFFFE, 0xFFFF,
    ];
    let (mut n, mut n_ok, mut n_err) = (0u64, 0u64, 0u64);
    for (ci, kinds) in chains.iter().enumerate() {
        let chain = build(kinds, ci as u8);
        for &pt in &ptypes {
            for label in labels().into_iter().chain([Label::SixBytesLabel([0; 6])]) {
                for frag in [false, true] {
                    let pdu = pdu_bytes(17, pt as u32 + ci as u32);
                    let what = format!("chain#{ci} {kinds:?} ptype {pt:#x} {label:?} frag {frag}");
                    let last = chain.last().unwrap();
                    let fin = pt < 0x100;
                    let area = ext_area(&chain, pt, fin).len();
                    let bl = if frag { 4 + label.len() + area + 3 + 6 } else { 300 };
                    let mut enc = Encapsulator::new(DefaultCrc {});
                    n += 1;
                    let r = checked_encap(&mut enc, &chain, pt, label, label, &pdu, 3, bl, &what);
                    let Some((bytes, ctx)) = r else {
                        n_err += 1;
                        continue;
                    };
                    n_ok += 1;
                    assert!(pt >= 0x600 || (pt < 0x100 && last.id == pt));
                    // receiver: knows every mandatory id of the chain with the role it plays in this packet
                    let mut mgr = Mgr::none();
                    for (i, e) in chain.iter().enumerate() {
                        if e.id < 0x100 {
                            let is_final = fin && i == chain.len() - 1;
                            let new = Some((is_final, e.data.len() as u8));
                            // the same id in two roles: dismissed by the first review, skip
                            if mgr.tab[e.id as usize].is_some() && mgr.tab[e.id as usize] != new {
                                mgr.tab[e.id as usize] = None;
                            } else {
                                mgr.tab[e.id as usize] = new;
                            }
                        }
                    }
                    if chain.iter().any(|e| e.id < 0x100 && mgr.tab[e.id as usize].is_none()) {
                        continue;
                    }
                    let mut dec = new_dec(4, 17, 1, mgr);
                    let (st, used) = dec.decap(&bytes).unwrap_or_else(|e| panic!("{e:?} {what}"));
                    assert_eq!(used, bytes.len());
                    match ctx {
                        None => check_completed(&st, &chain, pt, label, &pdu, &what),
                        Some(c) => {
                            check_fragment(&st, &chain, pt, label, &what);
                            let mut b = vec![0; 100];
                            let EncapStatus::CompletedPkt(n2) = enc.encap_frag(&pdu, &c, &mut b).unwrap() else { panic!() };
                            let (st, used) = dec.decap(&b[..n2 as usize]).unwrap();
                            assert_eq!(used, n2 as usize);
                            check_completed(&st, &chain, pt, label, &pdu, &what);
                        }
                    }
                }
            }
        }
    }
    // the empty chain
    let mut enc = Encapsulator::new(DefaultCrc {});
    let mut b = vec![0; 100];
    assert_eq!(enc.encap_ext(&[1, 2], 0, EncapMetadata::new(0x800, Label::Broadcast), &mut b, vec![]), Err(EncapError::ErrorNoExtensionFound));
    println!("T5 protocol types: {n} calls, {n_ok} Ok, {n_err} refused");
}

// ---------------------------------------------------------------------------------------------
// T6 : size corners: pdu 0, 1, around the 4095 gse length limit, 65533..65536; buffers around
//      4097 and far above; storage smaller / equal / larger than the pdu and above 65535
// ---------------------------------------------------------------------------------------------
fn send_all(
    enc: &mut Encapsulator<DefaultCrc>,
    chain: &[Ext],
    ptype: u16,
    label: Label,
    wire_label: Label,
    pdu: &[u8],
    frag_id: u8,
    first_buf: usize,
    next_bufs: &[usize],
    what: &str,
) -> Option<Vec<Vec<u8>>> {
    let (bytes, ctx) = checked_encap(enc, chain, ptype, label, wire_label, pdu, frag_id, first_buf, what)?;
    let mut pkts = vec![bytes];
    if let Some(mut ctx) = ctx {
        let mut i = 0;
        let mut guard = 0;
        loop {
            guard += 1;
            assert!(guard < 100_000, "no progress {what}");
            let bl = next_bufs[i % next_bufs.len()];
            i += 1;
            let mut b = vec![SENTINEL; bl];
            match enc.encap_frag(pdu, &ctx, &mut b) {
                Err(EncapError::ErrorSizeBuffer) => continue,
                Err(e) => panic!("encap_frag {e:?} {what}"),
                Ok(EncapStatus::FragmentedPkt(n, c2)) => {
                    assert!(n as usize <= bl && n as usize <= 4097);
                    assert!(b[n as usize..].iter().all(|x| *x == SENTINEL));
                    assert!(c2.len_pdu_frag() > ctx.len_pdu_frag(), "empty intermediate fragment {what}");
                    b.truncate(n as usize);
                    pkts.push(b);
                    ctx = c2;
                }
                Ok(EncapStatus::CompletedPkt(n)) => {
                    assert!(n as usize <= bl && n as usize <= 4097);
                    b.truncate(n as usize);
                    pkts.push(b);
                    break;
                }
            }
        }
    }
    Some(pkts)
}

#[test]
fn t6_size_corners() {
    let kinds_list: Vec<Vec<Kind>> = vec![
        vec![Kind::Opt(1)],
        vec![Kind::Opt(5)],
        vec![Kind::Nf(0)],
        vec![Kind::Nf(8)],
        vec![Kind::Fin(0)],
        vec![Kind::Fin(8)],
        vec![Kind::Fin(3)],
        vec![Kind::Opt(2), Kind::Fin(1)],
        vec![Kind::Nf(5), Kind::Opt(4)],
        vec![Kind::Opt(5), Kind::Opt(5), Kind::Opt(5), Kind::Opt(5)],
        vec![Kind::Nf(8), Kind::Nf(8), Kind::Nf(8), Kind::Fin(8)],
        vec![Kind::Opt(1), Kind::Opt(1), Kind::Opt(1), Kind::Opt(1)],
        vec![Kind::Nf(0), Kind::Nf(0), Kind::Nf(0), Kind::Fin(0)],
        vec![Kind::Opt(3), Kind::Nf(7), Kind::Opt(2), Kind::Nf(1)],
    ];
    let base_labels = labels();
    let (mut n_calls, mut n_pdus, mut n_refused, mut n_small_storage) = (0u64, 0u64, 0u64, 0u64);
    for (ci, kinds) in kinds_list.iter().enumerate() {
        let chain = build(kinds, ci as u8 + 1);
        let ptype = ptype_of(&chain, ci);
        let area = ext_area(&chain, ptype, ptype < 0x100).len();
        // label variants: the five plain ones, implicit re-use, explicit re-use
        for lv in 0..7usize {
            let (label, wire_label, resolved, prime) = match lv {
                0..=4 => (base_labels[lv], base_labels[lv], base_labels[lv], None),
                5 => (base_labels[0], Label::ReUse, base_labels[0], Some(base_labels[0])),
                _ => (Label::ReUse, Label::ReUse, base_labels[3], Some(base_labels[3])),
            };
            let ov = 2 + wire_label.len() + area; // gse overhead of a complete packet
            let lim = 4095 - ov; // largest pdu that fits a complete packet
            let tl_lim = 65535 - 2 - wire_label.len(); // largest pdu the total length can describe
            let mut pdu_lens = vec![0usize, 1, 2, lim - 1, lim, lim + 1, lim + 2, lim + 3, lim + 4, lim + 5, 4093, 4094, 4095, 4096, 4097, 8191,
                tl_lim - 1, tl_lim, tl_lim + 1, 65533, 65534, 65535, 65536, 70000];
            pdu_lens.sort();
            pdu_lens.dedup();
            for &pl in &pdu_lens {
                let pdu = pdu_bytes(pl, (pl + ci) as u32);
                let mut bufs = vec![ov + 2 + pl, ov + 1 + pl, ov + 5, ov + 6, 100, 4090, 4094, 4095, 4096, 4097, 4098, 4099, 4100, 5000, 70000, 80000];
                bufs.sort();
                bufs.dedup();
                for (bi, &bl) in bufs.iter().enumerate() {
                    let what = format!("T6 chain {kinds:?} ptype {ptype:#x} lv {lv} pdu {pl} buf {bl}");
                    let mut enc = Encapsulator::new(DefaultCrc {});
                    let slots = [1usize, 2, 255, 256][(bi + ci) % 4];
                    // storage: equal, larger, above 65535 ; (smaller is done below)
                    let storage = match bi % 3 { 0 => pl.max(if prime.is_some() { 3 } else { 0 }), 1 => pl + 13, _ => 70001.max(pl) };
                    let mut dec = new_dec(slots, storage, 2, Mgr::all());
                    if let Some(pl0) = prime {
                        // a first packet carrying the label in full
                        let mut b = vec![0; 64];
                        let EncapStatus::CompletedPkt(n) = enc.encap(&[7; 3], 0, EncapMetadata::new(0x0800, pl0), &mut b).unwrap() else { panic!() };
                        let (st, used) = dec.decap(&b[..n as usize]).unwrap();
                        assert_eq!(used, n as usize);
                        let DecapStatus::CompletedPkt(s, _) = st else { panic!() };
                        dec.provision_storage(s).unwrap();
                    }
                    n_calls += 1;
                    let nexts = [[4097usize, 5000, 70000], [1000, 3, 4098], [70000, 4096, 6]][bi % 3];
                    let frag_id = (bi * 37 + ci) as u8;
                    let Some(pkts) = send_all(&mut enc, &chain, ptype, label, wire_label, &pdu, frag_id, bl, &nexts, &what) else {
                        n_refused += 1;
                        assert!(pl > tl_lim || bl < ov + 5, "refused without reason: {what}");
                        continue;
                    };
                    assert!(pl <= tl_lim);
                    if pkts.len() == 1 {
                        assert!(pl <= lim && bl >= ov + 2 + pl, "complete packet beyond the limits: {what}");
                    }
                    // walk them in one frame with padding
                    let mut frame: Vec<u8> = pkts.concat();
                    frame.extend_from_slice(&[0; 3]);
                    let mut off = 0;
                    for (i, p) in pkts.iter().enumerate() {
                        let (st, used) = dec.decap(&frame[off..]).unwrap_or_else(|e| panic!("decap {:?} pkt {i}/{}: {what}", e.0, pkts.len()));
                        assert_eq!(used, p.len(), "consumed pkt {i}: {what}");
                        off += used;
                        if i + 1 == pkts.len() {
                            check_completed(&st, &chain, ptype, resolved, &pdu, &what);
                        } else {
                            check_fragment(&st, &chain, ptype, resolved, &what);
                        }
                    }
                    assert_eq!(dec.decap(&frame[off..]).unwrap(), (DecapStatus::Padding, 3));
                    n_pdus += 1;

                    // storage one byte too small: the pdu is refused, the storage survives, later traffic is fine
                    if pl >= 2 && bi % 4 == 0 {
                        n_small_storage += 1;
                        let mut dec = new_dec(slots, pl - 1, 1, Mgr::all());
                        dec.reset_last_label();
                        let mut enc2 = Encapsulator::new(DefaultCrc {});
                        enc2.disable_re_use_label();
                        let lab2 = if label == Label::ReUse { resolved } else { label };
                        let pk = send_all(&mut enc2, &chain, ptype, lab2, lab2, &pdu, frag_id, bl, &nexts, &what);
                        let Some(pk) = pk else { continue };
                        let mut delivered = false;
                        let mut refused = false;
                        for p in &pk {
                            match dec.decap(p) {
                                Ok((DecapStatus::CompletedPkt(..), _)) => delivered = true,
                                Ok((_, used)) => assert_eq!(used, p.len()),
                                Err((DecapError::ErrorSizePduBuffer, used)) => {
                                    assert_eq!(used, p.len());
                                    refused = true;
                                }
                                Err((DecapError::ErrorMemory(DecapMemoryError::UndefinedId), used)) => {
                                    assert!(refused);
                                    assert_eq!(used, p.len());
                                }
                                Err(e) => panic!("{e:?} {what}"),
                            }
                        }
                        assert!(refused && !delivered, "pdu of {pl} delivered in a storage of {}: {what}", pl - 1);
                        // valid traffic afterwards (one byte shorter: fits exactly)
                        let pdu2 = &pdu[..pl - 1];
                        let pk = send_all(&mut enc2, &chain, ptype, lab2, lab2, pdu2, frag_id, bl, &nexts, &what).unwrap();
                        for (i, p) in pk.iter().enumerate() {
                            let (st, used) = dec.decap(p).unwrap_or_else(|e| panic!("after error: {:?} {what}", e.0));
                            assert_eq!(used, p.len());
                            if i + 1 == pk.len() {
                                check_completed(&st, &chain, ptype, lab2, pdu2, &what);
                            }
                        }
                    }
                }
            }
        }
    }
    println!("T6 size corners: {n_calls} encap_ext calls, {n_refused} refused, {n_pdus} pdus round-tripped, {n_small_storage} too-small-storage scenarios");
}

// ---------------------------------------------------------------------------------------------
// T7 : model based random traffic: frames with several packets and padding, interleaved
//      fragmented pdus, label re-use, restarts, receivers knowing all / some mandatory ids
// ---------------------------------------------------------------------------------------------
struct Rng(u64);
impl Rng {
    fn next(&mut self) -> u64 {
        self.0 ^= self.0 << 13;
        self.0 ^= self.0 >> 7;
        self.0 ^= self.0 << 17;
        self.0
    }
    fn below(&mut self, n: usize) -> usize {
        (self.next() % n as u64) as usize
    }
}

#[derive(Clone, PartialEq)]
struct ReuseModel {
    enabled: bool,
    max: u8,
    cur: u8,
    last: Option<Label>,
}
impl ReuseModel {
    fn decide(&self, label: Label) -> (Label, ReuseModel) {
        let mut n = self.clone();
        if !n.enabled {
            return (label, n);
        }
        if Some(label) == n.last {
            if n.max == 0 {
                return (Label::ReUse, n);
            } else if n.cur < n.max {
                n.cur += 1;
                return (Label::ReUse, n);
            } else {
                n.cur = 0;
            }
        }
        if label == Label::Broadcast {
            n.last = None;
        } else if label != Label::ReUse {
            n.last = Some(label);
        }
        (label, n)
    }
}

struct InFlight {
    frag_id: u8,
    ctx: ContextFrag,
    pdu: Vec<u8>,
    chain: Vec<Ext>,
    ptype: u16,
    label: Label,
    known: bool,
}

fn random_chain(rng: &mut Rng) -> Vec<Ext> {
    let n = 1 + rng.below(4);
    let mut kinds = vec![];
    for i in 0..n {
        let last = i + 1 == n;
        let r = rng.below(if last { 23 } else { 14 });
        kinds.push(if r < 5 { Kind::Opt(r as u8 + 1) } else if r < 14 { Kind::Nf(r as u8 - 5) } else { Kind::Fin(r as u8 - 14) });
    }
    build(&kinds, rng.below(256) as u8)
}

fn run_random(seed: u64, partial: bool, stats: &mut [u64; 8]) {
    let mut rng = Rng(seed.wrapping_mul(0x9E3779B97F4A7C15) | 1);
    let slots = [3usize, 8, 256, 1][rng.below(4)];
    let max_inflight = slots.min(3);
    let storage = 65536usize;
    let mut mgr = Mgr::all();
    if partial {
        for l in 0..9 {
            if rng.below(3) == 0 {
                mgr = mgr.forget(NF_ID[l]);
            }
            if rng.below(3) == 0 {
                mgr = mgr.forget(F_ID[l]);
            }
        }
    }
    let mut dec = new_dec(slots, storage, slots + 2, mgr.clone());
    let mut enc = Encapsulator::new(DefaultCrc {});
    let mut model = ReuseModel { enabled: true, max: 0, cur: 0, last: None };
    if partial {
        enc.disable_re_use_label();
        model.enabled = false;
    } else {
        match rng.below(3) {
            0 => {}
            1 => {
                let m = 1 + rng.below(3) as u8;
                enc.enable_re_use_label_with_max_consecutive(m);
                model.max = m;
            }
            _ => {
                enc.disable_re_use_label();
                model.enabled = false;
            }
        }
    }
    let labs = labels();
    let mut inflight: Vec<InFlight> = vec![];
    let mut next_id: usize = rng.below(256);
    for frame_no in 0..60 {
        // restarts
        if frame_no > 0 && rng.below(15) == 0 {
            stats[6] += 1;
            let keep = (model.enabled, model.max);
            enc = Encapsulator::new(DefaultCrc {});
            model = ReuseModel { enabled: true, max: 0, cur: 0, last: None };
            if !keep.0 {
                enc.disable_re_use_label();
                model.enabled = false;
            } else if keep.1 != 0 {
                enc.enable_re_use_label_with_max_consecutive(keep.1);
                model.max = keep.1;
            }
            inflight.clear();
            if rng.below(2) == 0 {
                dec = new_dec(slots, storage, slots + 2, mgr.clone());
            }
        }
        enc.reset_last_label();
        model.last = None;
        dec.reset_last_label();
        let frame_len = [20usize, 60, 200, 1000, 4097, 4200, 9000, 16000][rng.below(8)] + rng.below(50);
        let mut frame = vec![0u8; frame_len];
        // what the receiver must see, packet by packet: (len, expectation)
        enum Exp {
            Frag { chain: Vec<Ext>, ptype: u16, label: Label },
            Done { chain: Vec<Ext>, ptype: u16, label: Label, pdu: Vec<u8> },
            RejectUnknown,
            RejectOrphan,
        }
        let mut exps: Vec<(usize, Exp)> = vec![];
        let mut off = 0;
        loop {
            let room = frame_len - off;
            let cap = if rng.below(3) == 0 { room.min(5 + rng.below(300)) } else { room };
            let cont = !inflight.is_empty() && (inflight.len() >= max_inflight || rng.below(2) == 0);
            if cont {
                let i = rng.below(inflight.len());
                let f = &mut inflight[i];
                match enc.encap_frag(&f.pdu, &f.ctx, &mut frame[off..off + cap]) {
                    Err(EncapError::ErrorSizeBuffer) => break,
                    Err(e) => panic!("{e:?}"),
                    Ok(EncapStatus::FragmentedPkt(n, c)) => {
                        f.ctx = c;
                        let e = if f.known { Exp::Frag { chain: f.chain.clone(), ptype: f.ptype, label: f.label } } else { Exp::RejectOrphan };
                        exps.push((n as usize, e));
                        off += n as usize;
                    }
                    Ok(EncapStatus::CompletedPkt(n)) => {
                        let f = inflight.remove(i);
                        let e = if f.known { Exp::Done { chain: f.chain, ptype: f.ptype, label: f.label, pdu: f.pdu } } else { Exp::RejectOrphan };
                        exps.push((n as usize, e));
                        off += n as usize;
                    }
                }
            } else {
                let with_ext = rng.below(5) != 0;
                let chain = if with_ext { random_chain(&mut rng) } else { vec![] };
                let ptype = if with_ext { ptype_of(&chain, rng.below(5)) } else { [0x0600u16, 0x0800, 0xFFFF, 0x86DD, 0x0601][rng.below(5)] };
                let label = labs[rng.below(labs.len())];
                let pl = match rng.below(10) {
                    0 => 0,
                    1..=5 => rng.below(120),
                    6..=7 => rng.below(5000),
                    8 => 4000 + rng.below(200),
                    _ => 60000 + rng.below(5530),
                };
                let pdu = pdu_bytes(pl, rng.next() as u32);
                // frag id: distinct residue from the in-flight ones
                let frag_id = loop {
                    next_id = (next_id + 1) % 256;
                    if inflight.iter().all(|f| f.frag_id as usize % slots != next_id % slots) {
                        break next_id as u8;
                    }
                };
                let (wire, new_model) = model.decide(label);
                let known = chain.iter().all(|e| e.id >= 0x100 || mgr.tab[e.id as usize].is_some());
                let what = format!("T7 seed {seed} frame {frame_no} off {off} cap {cap} chain {:?} ptype {ptype:#x} {label:?} wire {wire:?} pdu {pl}", chain.iter().map(|e| e.kind).collect::<Vec<_>>());
                let res = if with_ext {
                    let r = checked_encap(&mut enc, &chain, ptype, label, wire, &pdu, frag_id, cap, &what);
                    r.map(|(b, c)| {
                        frame[off..off + b.len()].copy_from_slice(&b);
                        (b.len(), c)
                    })
                } else {
                    match enc.encap(&pdu, frag_id, EncapMetadata::new(ptype, label), &mut frame[off..off + cap]) {
                        Ok(EncapStatus::CompletedPkt(n)) => Some((n as usize, None)),
                        Ok(EncapStatus::FragmentedPkt(n, c)) => Some((n as usize, Some(c))),
                        Err(_) => None,
                    }
                };
                let Some((n, ctx)) = res else {
                    // wipe whatever and pad
                    for b in &mut frame[off..] {
                        *b = 0;
                    }
                    break;
                };
                model = new_model;
                stats[0] += 1;
                match ctx {
                    None => {
                        let e = if known { Exp::Done { chain, ptype, label, pdu } } else { Exp::RejectUnknown };
                        exps.push((n, e));
                    }
                    Some(ctx) => {
                        stats[1] += 1;
                        let e = if known { Exp::Frag { chain: chain.clone(), ptype, label } } else { Exp::RejectUnknown };
                        exps.push((n, e));
                        inflight.push(InFlight { frag_id, ctx, pdu, chain, ptype, label, known });
                    }
                }
                off += n;
            }
            if frame_len - off < 2 {
                break;
            }
        }
        for b in &mut frame[off..] {
            *b = 0;
        }
        // receiver walks the frame
        let mut roff = 0;
        for (i, (len, exp)) in exps.iter().enumerate() {
            let what = format!("T7 seed {seed} partial {partial} frame {frame_no} pkt {i} at {roff}");
            let r = catch_unwind(AssertUnwindSafe(|| dec.decap(&frame[roff..]))).unwrap_or_else(|_| panic!("decap panicked {what}"));
            match (r, exp) {
                (Ok((st, used)), Exp::Frag { chain, ptype, label }) => {
                    assert_eq!(used, *len, "{what}");
                    check_fragment(&st, chain, *ptype, *label, &what);
                    stats[2] += 1;
                }
                (Ok((st, used)), Exp::Done { chain, ptype, label, pdu }) => {
                    assert_eq!(used, *len, "{what}");
                    check_completed(&st, chain, *ptype, *label, pdu, &what);
                    let DecapStatus::CompletedPkt(s, _) = st else { unreachable!() };
                    dec.provision_storage(s).unwrap();
                    stats[3] += 1;
                }
                (Err((DecapError::ErrorUnkownMandatoryHeader, used)), Exp::RejectUnknown) => {
                    assert_eq!(used, *len, "{what}");
                    stats[4] += 1;
                }
                (Err((DecapError::ErrorMemory(DecapMemoryError::UndefinedId), used)), Exp::RejectOrphan) => {
                    assert_eq!(used, *len, "{what}");
                    stats[5] += 1;
                }
                (r, _) => panic!("unexpected receiver result {what}: {r:?}"),
            }
            roff += len;
        }
        assert_eq!(roff, off);
        if frame_len - roff >= 2 {
            assert_eq!(dec.decap(&frame[roff..]).unwrap(), (DecapStatus::Padding, frame_len - roff));
        }
        stats[7] += 1;
    }
}

#[test]
fn t7_random_traffic() {
    let mut stats = [0u64; 8];
    for seed in 1..=400 {
        run_random(seed, false, &mut stats);
    }
    println!("T7 all-known receiver: {} pdus sent ({} fragmented), receiver saw {} fragment statuses, {} pdus delivered, {} restarts, {} frames", stats[0], stats[1], stats[2], stats[3], stats[6], stats[7]);
    let mut stats = [0u64; 8];
    for seed in 1001..=1400 {
        run_random(seed, true, &mut stats);
    }
    println!("T7 partial receiver: {} pdus sent ({} fragmented), {} fragment statuses, {} delivered, {} rejected (unknown mandatory), {} orphan fragments refused, {} restarts, {} frames", stats[0], stats[1], stats[2], stats[3], stats[4], stats[5], stats[6], stats[7]);
}

// ---------------------------------------------------------------------------------------------
// T8 : free list empty / exactly full, error paths followed by valid traffic
// ---------------------------------------------------------------------------------------------
#[test]
fn t8_free_list_and_error_paths() {
    let chains = all_chains(2);
    let mut n = 0u64;
    for (ci, kinds) in chains.iter().enumerate() {
        let chain = build(kinds, ci as u8);
        let ptype = ptype_of(&chain, ci);
        let label = labels()[ci % 5];
        let pdu = pdu_bytes(50, ci as u32);
        let area = ext_area(&chain, ptype, ptype < 0x100).len();
        for slots in [1usize, 2, 256] {
            for frag in [false, true] {
                let what = format!("T8 chain {kinds:?} slots {slots} frag {frag}");
                let bl = if frag { 4 + label.len() + area + 3 + 10 } else { 500 };
                let mut enc = Encapsulator::new(DefaultCrc {});
                enc.disable_re_use_label();
                let pk = send_all(&mut enc, &chain, ptype, label, label, &pdu, 77, bl, &[30], &what).unwrap();
                n += 1;
                // (a) empty free list, receiver knows everything: refused on memory grounds, own length
                let mut dec = new_dec(slots, 50, 0, Mgr::all());
                match dec.decap(&pk[0]) {
                    Err((DecapError::ErrorMemory(DecapMemoryError::StorageUnderflow), used)) => assert_eq!(used, pk[0].len()),
                    other => panic!("{what}: {other:?}"),
                }
                for p in &pk[1..] {
                    match dec.decap(p) {
                        Err((DecapError::ErrorMemory(DecapMemoryError::UndefinedId), used)) => assert_eq!(used, p.len()),
                        other => panic!("{what}: {other:?}"),
                    }
                }
                // then storage arrives and the same traffic goes through
                dec.provision_storage(vec![0; 50].into_boxed_slice()).unwrap();
                for (i, p) in pk.iter().enumerate() {
                    let (st, used) = dec.decap(p).unwrap_or_else(|e| panic!("{what}: {:?}", e.0));
                    assert_eq!(used, p.len());
                    if i + 1 == pk.len() { check_completed(&st, &chain, ptype, label, &pdu, &what) } else { check_fragment(&st, &chain, ptype, label, &what) }
                }
                // (b) empty free list, receiver knows nothing: the unknown extension is what is reported
                if chain.iter().any(|e| e.id < 0x100) {
                    let mut dec = new_dec(slots, 50, 0, Mgr::none());
                    assert_eq!(dec.decap(&pk[0]), Err((DecapError::ErrorUnkownMandatoryHeader, pk[0].len())), "{what}");
                }
                // (c) free list exactly full (slots + 2 storages)
                let mut dec = new_dec(slots, 50, slots + 2, Mgr::all());
                assert!(matches!(dec.provision_storage(vec![0; 50].into_boxed_slice()), Err(DecapMemoryError::StorageOverflow(_))));
                for round in 0..3 {
                    for (i, p) in pk.iter().enumerate() {
                        let (st, used) = dec.decap(p).unwrap_or_else(|e| panic!("{what} round {round}: {:?}", e.0));
                        assert_eq!(used, p.len());
                        if i + 1 == pk.len() {
                            check_completed(&st, &chain, ptype, label, &pdu, &what);
                            let DecapStatus::CompletedPkt(s, _) = st else { unreachable!() };
                            dec.provision_storage(s).unwrap();
                        }
                    }
                }
                // (d) truncated / corrupted copies in between: never a panic, never a wrong pdu, then valid traffic
                let mut dec = new_dec(slots, 50, 2, Mgr::all());
                for cut in 0..pk[0].len() {
                    let r = catch_unwind(AssertUnwindSafe(|| dec.decap(&pk[0][..cut]))).unwrap_or_else(|_| panic!("panic on truncated packet {what} cut {cut}"));
                    match r {
                        Err((_, used)) => assert_eq!(used, cut),
                        Ok((DecapStatus::Padding, used)) => assert_eq!(used, cut),
                        Ok(other) => panic!("truncated packet accepted {what} cut {cut}: {other:?}"),
                    }
                }
                for (i, p) in pk.iter().enumerate() {
                    let (st, used) = dec.decap(p).unwrap_or_else(|e| panic!("{what}: {:?}", e.0));
                    assert_eq!(used, p.len());
                    if i + 1 == pk.len() { check_completed(&st, &chain, ptype, label, &pdu, &what) }
                }
            }
        }
    }
    println!("T8 free list / error paths: {n} scenarios x 4 sub-cases");
}
