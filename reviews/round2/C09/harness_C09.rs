//! C09 harness: "Encapsulation calls are total and failure-atomic".
//!
//! Public API only.  Run as an integration test:
//!     cp out/harness_C09.rs tests/harness_c09.rs
//!     CARGO_NET_OFFLINE=true cargo test --offline --test harness_c09 -- --nocapture
//!     CARGO_NET_OFFLINE=true cargo test --offline --release --test harness_c09 -- --nocapture
//!
//! What is checked on EVERY call to encap / encap_ext / encap_frag:
//!  * no panic (catch_unwind, the input is printed on failure);
//!  * Ok/Err and the error kind agree with an independent model written from the specification
//!    (own header builder, own bitwise CRC-32, own label re-use state machine);
//!  * on Err: the output buffer is byte-for-byte what it was (whole buffer compared), and the
//!    encapsulator is == to a clone taken before the call;
//!  * on Ok: the first pkt_len bytes equal the model packet, every byte after pkt_len is untouched,
//!    the status (length, context: frag id, CRC, len_pdu_frag) equals the model's;
//!  * a "twin" encapsulator receives only the calls that succeeded: after every call the real one,
//!    which also received all the failing calls, must be == to the twin (next packet identical);
//!  * the error classes demanded by the property (zero 6-byte label, protocol type 0x0100..=0x05FF,
//!    total length above 16 bits, context beyond the PDU) are asserted independently of the model.
//! The previews are compared with the model as well (they are free functions on a shared buffer,
//! so atomicity is by construction; totality and agreement with encap are checked).

#![allow(unused_must_use)]

use dvb_gse_rust::crc::DefaultCrc;
use dvb_gse_rust::gse_decap::{DecapStatus, Decapsulator, GseDecapMemory, SimpleGseMemory};
use dvb_gse_rust::gse_encap::{
    encap_frag_preview, encap_preview, ContextFrag, EncapError, EncapMetadata, EncapStatus,
    Encapsulator,
};
use dvb_gse_rust::header_extension::{
    Extension, MandatoryHeaderExt, MandatoryHeaderExtensionManager, NewExtensionError,
};
use dvb_gse_rust::label::Label;
use std::collections::HashMap;
use std::panic::{catch_unwind, AssertUnwindSafe};

type Enc = Encapsulator<DefaultCrc>;
const MAXBUF: usize = 70000;

// ------------------------------------------------------------------------------------------------
// small deterministic RNG
// ------------------------------------------------------------------------------------------------
struct Rng(u64);
impl Rng {
    fn next(&mut self) -> u64 {
        self.0 ^= self.0 << 13;
        self.0 ^= self.0 >> 7;
        self.0 ^= self.0 << 17;
        self.0
    }
    fn below(&mut self, n: usize) -> usize {
        (self.next() % n as u64) as usize
    }
    fn pick<T: Clone>(&mut self, v: &[T]) -> T {
        v[self.below(v.len())].clone()
    }
}

// ------------------------------------------------------------------------------------------------
// independent CRC-32 (poly 0x04C11DB7, MSB first, init 0xFFFFFFFF, no final xor)
// ------------------------------------------------------------------------------------------------
fn crc_table() -> [u32; 256] {
    let mut t = [0u32; 256];
    for i in 0..256u32 {
        let mut c = i << 24;
        for _ in 0..8 {
            c = if c & 0x8000_0000 != 0 { (c << 1) ^ 0x04C1_1DB7 } else { c << 1 };
        }
        t[i as usize] = c;
    }
    t
}
fn crc_upd(t: &[u32; 256], mut c: u32, d: &[u8]) -> u32 {
    for b in d {
        c = (c << 8) ^ t[(((c >> 24) as u8) ^ *b) as usize];
    }
    c
}

// ------------------------------------------------------------------------------------------------
// model of the label re-use state
// ------------------------------------------------------------------------------------------------
#[derive(Clone, Debug, PartialEq)]
struct ReUse {
    on: bool,
    max: u8,
    cur: u8,
    last: Option<Label>,
}
impl ReUse {
    fn new() -> Self {
        ReUse { on: true, max: 0, cur: 0, last: None }
    }
    fn reset_last(&mut self) {
        self.last = None;
    }
    fn disable(&mut self) {
        self.on = false;
        self.max = 0;
        self.cur = 0;
    }
    fn enable(&mut self, max: u8) {
        if !self.on {
            self.last = None;
        }
        self.on = true;
        self.max = max;
        self.cur = 0;
    }
    fn peek(&self, l: Label) -> Label {
        if self.on && self.last == Some(l) && (self.max == 0 || self.cur < self.max) {
            Label::ReUse
        } else {
            l
        }
    }
    fn commit(&mut self, l: Label) {
        if !self.on {
            return;
        }
        if self.last == Some(l) {
            if self.max == 0 {
                return;
            }
            if self.cur < self.max {
                self.cur += 1;
                return;
            }
            self.cur = 0;
        }
        match l {
            Label::Broadcast => self.last = None,
            Label::ReUse => {}
            _ => self.last = Some(l),
        }
    }
}

fn label_bytes(l: &Label) -> Vec<u8> {
    match l {
        Label::SixBytesLabel(b) => b.to_vec(),
        Label::ThreeBytesLabel(b) => b.to_vec(),
        _ => vec![],
    }
}
fn label_bits(l: &Label) -> u16 {
    match l {
        Label::SixBytesLabel(_) => 0x0000,
        Label::ThreeBytesLabel(_) => 0x1000,
        Label::Broadcast => 0x2000,
        Label::ReUse => 0x3000,
    }
}

// ------------------------------------------------------------------------------------------------
// model of the packets
// ------------------------------------------------------------------------------------------------
#[derive(Debug, PartialEq)]
enum MOut {
    Complete(Vec<u8>),
    Frag(Vec<u8>, (u8, u32, u16)),
}
impl MOut {
    fn pkt(&self) -> &Vec<u8> {
        match self {
            MOut::Complete(p) => p,
            MOut::Frag(p, _) => p,
        }
    }
}

type ExtDesc = (u16, Vec<u8>);

struct Model {
    tab: [u32; 256],
    crc_cache: HashMap<(usize, usize, u16, u16, Vec<u8>), u32>,
}
impl Model {
    fn crc(&mut self, pdu_key: (usize, usize), pdu: &[u8], pt: u16, total: u16, lab: &[u8]) -> u32 {
        let key = (pdu_key.0, pdu_key.1, pt, total, lab.to_vec());
        if let Some(c) = self.crc_cache.get(&key) {
            return *c;
        }
        let mut c = crc_upd(&self.tab, 0xFFFF_FFFF, &total.to_be_bytes());
        c = crc_upd(&self.tab, c, &pt.to_be_bytes());
        c = crc_upd(&self.tab, c, lab);
        c = crc_upd(&self.tab, c, pdu);
        if self.crc_cache.len() > 200_000 {
            self.crc_cache.clear();
        }
        self.crc_cache.insert(key, c);
        c
    }

    /// encap (exts == None) and encap_ext (exts == Some)
    #[allow(clippy::too_many_arguments)]
    fn encap(
        &mut self,
        ru: &ReUse,
        pdu_key: (usize, usize),
        pdu: &[u8],
        frag_id: u8,
        pt: u16,
        label: Label,
        blen: usize,
        exts: Option<&[ExtDesc]>,
    ) -> Result<MOut, EncapError> {
        let zero = label == Label::SixBytesLabel([0; 6]);
        let first_type: u16;
        let mut chain: Vec<u8> = vec![];
        match exts {
            None => {
                if zero {
                    return Err(EncapError::ErrorInvalidLabel);
                }
                if (0x100..0x600).contains(&pt) {
                    return Err(EncapError::ErrorProtocolType);
                }
                first_type = pt;
            }
            Some(exts) => {
                if exts.is_empty() {
                    return Err(EncapError::ErrorNoExtensionFound);
                }
                let mut is_final = false;
                if pt < 0x100 {
                    if exts.last().unwrap().0 != pt {
                        return Err(EncapError::ErrorFinalMandatoryExtensionHeader);
                    }
                    is_final = true;
                } else if pt < 0x600 {
                    return Err(EncapError::ErrorProtocolType);
                }
                if zero {
                    return Err(EncapError::ErrorInvalidLabel);
                }
                first_type = exts[0].0;
                for (i, e) in exts.iter().enumerate() {
                    chain.extend_from_slice(&e.1);
                    if i + 1 < exts.len() {
                        chain.extend_from_slice(&exts[i + 1].0.to_be_bytes());
                    }
                }
                if !is_final {
                    chain.extend_from_slice(&pt.to_be_bytes());
                }
            }
        }
        let wire = ru.peek(label);
        let lb = label_bytes(&wire);
        let l = lb.len();
        let e = chain.len();
        let p = pdu.len();
        if p + l + 2 + e <= 4095 && blen >= 4 + l + e + p {
            let gse = (p + l + 2 + e) as u16;
            let mut pkt = Vec::with_capacity(p + 16);
            pkt.extend_from_slice(&(0xC000u16 | label_bits(&wire) | gse).to_be_bytes());
            pkt.extend_from_slice(&first_type.to_be_bytes());
            pkt.extend_from_slice(&lb);
            pkt.extend_from_slice(&chain);
            pkt.extend_from_slice(pdu);
            return Ok(MOut::Complete(pkt));
        }
        let hdr = 7 + l + e;
        if blen < hdr || hdr > 4097 {
            return Err(EncapError::ErrorSizeBuffer);
        }
        if p + 2 + l > 65535 {
            return Err(EncapError::ErrorPduLength);
        }
        let n = blen.min(4097) - hdr;
        assert!(n < p, "model: first fragment must leave something");
        let total = (p + 2 + l) as u16;
        let gse = (hdr - 2 + n) as u16;
        let mut pkt = Vec::with_capacity(n + 32);
        pkt.extend_from_slice(&(0x8000u16 | label_bits(&wire) | gse).to_be_bytes());
        pkt.push(frag_id);
        pkt.extend_from_slice(&total.to_be_bytes());
        pkt.extend_from_slice(&first_type.to_be_bytes());
        pkt.extend_from_slice(&lb);
        pkt.extend_from_slice(&chain);
        pkt.extend_from_slice(&pdu[..n]);
        let crc = self.crc(pdu_key, pdu, pt, total, &lb);
        Ok(MOut::Frag(pkt, (frag_id, crc, n as u16)))
    }

    fn frag(&self, pdu: &[u8], ctx: (u8, u32, u16), blen: usize) -> Result<MOut, EncapError> {
        let lpf = ctx.2 as usize;
        if lpf > pdu.len() {
            return Err(EncapError::ErrorPduLength);
        }
        let rem = pdu.len() - lpf;
        if rem + 5 <= 4095 && blen >= rem + 7 {
            let mut pkt = Vec::with_capacity(rem + 8);
            pkt.extend_from_slice(&(0x4000u16 | 0x3000 | (rem + 5) as u16).to_be_bytes());
            pkt.push(ctx.0);
            pkt.extend_from_slice(&pdu[lpf..]);
            pkt.extend_from_slice(&ctx.1.to_be_bytes());
            return Ok(MOut::Complete(pkt));
        }
        if blen >= 4 && rem > 0 {
            let n = (blen.min(4097) - 3).min(rem);
            let mut pkt = Vec::with_capacity(n + 4);
            pkt.extend_from_slice(&(0x3000u16 | (n + 1) as u16).to_be_bytes());
            pkt.push(ctx.0);
            pkt.extend_from_slice(&pdu[lpf..lpf + n]);
            // (lpf + n) only exceeds 16 bits for PDUs longer than 65535 bytes (already dismissed)
            return Ok(MOut::Frag(pkt, (ctx.0, ctx.1, (lpf + n) as u16)));
        }
        Err(EncapError::ErrorSizeBuffer)
    }
}

// ------------------------------------------------------------------------------------------------
// the checked executor
// ------------------------------------------------------------------------------------------------
#[derive(Default, Debug)]
struct Stats {
    encap_ok_complete: u64,
    encap_ok_first: u64,
    encap_err: u64,
    ext_ok_complete: u64,
    ext_ok_first: u64,
    ext_err: u64,
    frag_ok_end: u64,
    frag_ok_inter: u64,
    frag_err: u64,
    frag_wrap_gt_65535: u64,
    preview: u64,
    frag_preview: u64,
    err_invalid_label: u64,
    err_ptype: u64,
    err_pdu_len: u64,
    err_size: u64,
    err_noext: u64,
    err_final: u64,
    buf_gt_4097_pdu_gt_4095: u64,
    chains: u64,
    chain_pkts: u64,
    decap_pdus: u64,
}
impl Stats {
    fn count_err(&mut self, e: &EncapError) {
        match e {
            EncapError::ErrorInvalidLabel => self.err_invalid_label += 1,
            EncapError::ErrorProtocolType => self.err_ptype += 1,
            EncapError::ErrorPduLength => self.err_pdu_len += 1,
            EncapError::ErrorSizeBuffer => self.err_size += 1,
            EncapError::ErrorNoExtensionFound => self.err_noext += 1,
            EncapError::ErrorFinalMandatoryExtensionHeader => self.err_final += 1,
        }
    }
}

struct H {
    enc: Enc,
    twin: Enc,
    ru: ReUse,
    model: Model,
    base: Vec<u8>,     // source of PDU bytes
    pristine: Vec<u8>, // reference content of the output buffer
    work: Vec<u8>,     // output buffer given to the crate
    twork: Vec<u8>,    // output buffer given to the twin
    st: Stats,
    use_twin: bool,
}

impl H {
    fn new(seed: u64) -> Self {
        let mut r = Rng(seed | 1);
        let base: Vec<u8> = (0..MAXBUF + 64).map(|_| (r.next() >> 24) as u8).collect();
        let pristine: Vec<u8> = (0..MAXBUF).map(|_| (r.next() >> 16) as u8).collect();
        H {
            enc: Encapsulator::new(DefaultCrc {}),
            twin: Encapsulator::new(DefaultCrc {}),
            ru: ReUse::new(),
            model: Model { tab: crc_table(), crc_cache: HashMap::new() },
            base,
            work: pristine.clone(),
            twork: pristine.clone(),
            pristine,
            st: Stats::default(),
            use_twin: true,
        }
    }
    fn fresh(&mut self) {
        self.enc = Encapsulator::new(DefaultCrc {});
        self.twin = Encapsulator::new(DefaultCrc {});
        self.ru = ReUse::new();
    }
    fn reset_last(&mut self) {
        self.enc.reset_last_label();
        self.twin.reset_last_label();
        self.ru.reset_last();
    }
    fn disable(&mut self) {
        self.enc.disable_re_use_label();
        self.twin.disable_re_use_label();
        self.ru.disable();
        assert!(!self.enc.is_enabled_re_use_label());
    }
    fn enable(&mut self) {
        self.enc.enable_re_use_label();
        self.twin.enable_re_use_label();
        self.ru.enable(0);
        assert!(self.enc.is_enabled_re_use_label());
    }
    fn enable_max(&mut self, m: u8) {
        self.enc.enable_re_use_label_with_max_consecutive(m);
        self.twin.enable_re_use_label_with_max_consecutive(m);
        self.ru.enable(m);
    }

    /// encap / encap_ext through every check. `pdu` = base[off..off+len].
    /// Returns the result and (on Ok) the emitted packet.
    #[allow(clippy::too_many_arguments)]
    fn encap(
        &mut self,
        off: usize,
        len: usize,
        frag_id: u8,
        pt: u16,
        label: Label,
        blen: usize,
        exts: Option<&[ExtDesc]>,
    ) -> (Result<EncapStatus, EncapError>, Vec<u8>) {
        let ru_before = self.ru.clone();
        let what = || {
            format!(
                "{} pdu_len={len} frag_id={frag_id} pt={pt:#06x} label={label:?} buf_len={blen} exts={:?} state={:?}",
                if exts.is_some() { "encap_ext" } else { "encap" },
                exts.map(|e| e.iter().map(|(i, d)| (format!("{i:#06x}"), d.len())).collect::<Vec<_>>()),
                ru_before
            )
        };
        let md = EncapMetadata::new(pt, label);
        let mk = |exts: &[ExtDesc]| -> Vec<Extension> {
            exts.iter().map(|(i, d)| Extension::new(*i, d).expect("pool extension")).collect()
        };
        let before = self.enc.clone();
        let pdu = &self.base[off..off + len];
        let enc = &mut self.enc;
        let work = &mut self.work[..blen];
        let r = catch_unwind(AssertUnwindSafe(|| match exts {
            None => enc.encap(pdu, frag_id, md, work),
            Some(e) => enc.encap_ext(pdu, frag_id, md, work, mk(e)),
        }));
        let r = match r {
            Ok(r) => r,
            Err(_) => panic!("C09 VIOLATION (panic): {}", what()),
        };
        let m = self.model.encap(&self.ru, (off, len), pdu, frag_id, pt, label, blen, exts);

        // property-level demands, independent of the model
        let wire_l = label_bytes(&self.ru.peek(label)).len();
        if label == Label::SixBytesLabel([0; 6])
            || (0x100..=0x5FF).contains(&pt)
            || len + 2 + wire_l > 65535
        {
            assert!(r.is_err(), "C09 VIOLATION (packet instead of error): {} -> {r:?}", what());
        }

        let mut out = vec![];
        match (&r, &m) {
            (Err(e), Err(me)) => {
                assert_eq!(e, me, "error kind differs from model: {}", what());
                assert!(
                    self.work[..blen] == self.pristine[..blen],
                    "C09 VIOLATION (buffer modified on Err): {} -> {e:?}", what()
                );
                assert_eq!(self.enc, before, "C09 VIOLATION (state modified on Err): {}", what());
                self.st.count_err(e);
                if exts.is_some() {
                    self.st.ext_err += 1
                } else {
                    self.st.encap_err += 1
                }
            }
            (Ok(s), Ok(mo)) => {
                let pkt = mo.pkt();
                let n = pkt.len();
                assert!(n <= blen && n <= 4097, "model packet too long: {}", what());
                match (s, mo) {
                    (EncapStatus::CompletedPkt(l), MOut::Complete(_)) => {
                        assert_eq!(*l as usize, n, "length: {}", what());
                        if exts.is_some() {
                            self.st.ext_ok_complete += 1
                        } else {
                            self.st.encap_ok_complete += 1
                        }
                    }
                    (EncapStatus::FragmentedPkt(l, c), MOut::Frag(_, mc)) => {
                        assert_eq!(*l as usize, n, "length: {}", what());
                        assert_eq!(
                            (c.frag_id(), c.crc(), c.len_pdu_frag()),
                            *mc,
                            "context: {}", what()
                        );
                        if exts.is_some() {
                            self.st.ext_ok_first += 1
                        } else {
                            self.st.encap_ok_first += 1
                        }
                    }
                    _ => panic!("status kind differs from model: {} -> {s:?}", what()),
                }
                assert!(self.work[..n] == pkt[..], "packet bytes differ from model: {}", what());
                assert!(
                    self.work[n..blen] == self.pristine[n..blen],
                    "bytes after the packet were modified: {}", what()
                );
                if blen > 4097 && len > 4095 {
                    self.st.buf_gt_4097_pdu_gt_4095 += 1;
                }
                self.work[..n].copy_from_slice(&self.pristine[..n]);
                self.ru.commit(label);
                if self.use_twin {
                    let tr = match exts {
                        None => self.twin.encap(pdu, frag_id, md, &mut self.twork[..blen]),
                        Some(e) => self.twin.encap_ext(pdu, frag_id, md, &mut self.twork[..blen], mk(e)),
                    };
                    assert_eq!(&tr, &r, "C09 VIOLATION (a failed call changed a later result): {}", what());
                    assert!(self.twork[..n] == pkt[..], "twin packet: {}", what());
                    self.twork[..n].copy_from_slice(&self.pristine[..n]);
                }
                out = pkt.clone();
            }
            _ => panic!("Ok/Err differs from model: {}\n crate={r:?}\n model={m:?}", what()),
        }
        if self.use_twin {
            assert_eq!(self.enc, self.twin, "C09 VIOLATION (state differs from twin): {}", what());
        }
        (r, out)
    }

    fn frag(
        &mut self,
        off: usize,
        len: usize,
        ctx: (u8, u32, u16),
        blen: usize,
    ) -> (Result<EncapStatus, EncapError>, Vec<u8>) {
        let what = || format!("encap_frag pdu_len={len} ctx={ctx:?} buf_len={blen}");
        let before = self.enc.clone();
        let pdu = &self.base[off..off + len];
        let c = ContextFrag::new(ctx.0, ctx.1, ctx.2);
        let enc = &self.enc;
        let work = &mut self.work[..blen];
        let r = catch_unwind(AssertUnwindSafe(|| enc.encap_frag(pdu, &c, work)));
        let r = match r {
            Ok(r) => r,
            Err(_) => panic!("C09 VIOLATION (panic): {}", what()),
        };
        let m = self.model.frag(pdu, ctx, blen);
        if ctx.2 as usize > len {
            assert!(r.is_err(), "C09 VIOLATION (context beyond the PDU accepted): {} -> {r:?}", what());
        }
        assert_eq!(self.enc, before, "C09 VIOLATION (encap_frag changed the state): {}", what());
        let mut out = vec![];
        match (&r, &m) {
            (Err(e), Err(me)) => {
                assert_eq!(e, me, "error kind differs from model: {}", what());
                assert!(
                    self.work[..blen] == self.pristine[..blen],
                    "C09 VIOLATION (buffer modified on Err): {} -> {e:?}", what()
                );
                self.st.count_err(e);
                self.st.frag_err += 1;
            }
            (Ok(s), Ok(mo)) => {
                let pkt = mo.pkt();
                let n = pkt.len();
                assert!(n <= blen && n <= 4097, "model packet too long: {}", what());
                match (s, mo) {
                    (EncapStatus::CompletedPkt(l), MOut::Complete(_)) => {
                        assert_eq!(*l as usize, n, "length: {}", what());
                        self.st.frag_ok_end += 1;
                    }
                    (EncapStatus::FragmentedPkt(l, c), MOut::Frag(_, mc)) => {
                        assert_eq!(*l as usize, n, "length: {}", what());
                        assert_eq!((c.frag_id(), c.crc(), c.len_pdu_frag()), *mc, "context: {}", what());
                        self.st.frag_ok_inter += 1;
                        if ctx.2 as usize + (n - 3) > 65535 {
                            self.st.frag_wrap_gt_65535 += 1;
                        }
                    }
                    _ => panic!("status kind differs from model: {} -> {s:?}", what()),
                }
                assert!(self.work[..n] == pkt[..], "packet bytes differ from model: {}", what());
                assert!(
                    self.work[n..blen] == self.pristine[n..blen],
                    "bytes after the packet were modified: {}", what()
                );
                if blen > 4097 && len > 4095 {
                    self.st.buf_gt_4097_pdu_gt_4095 += 1;
                }
                self.work[..n].copy_from_slice(&self.pristine[..n]);
                out = pkt.clone();
            }
            _ => panic!("Ok/Err differs from model: {}\n crate={r:?}\n model={m:?}", what()),
        }
        // preview of the same call
        let pv = catch_unwind(AssertUnwindSafe(|| encap_frag_preview(pdu, &c, &self.pristine[..blen])));
        let pv = match pv {
            Ok(p) => p,
            Err(_) => panic!("C09 VIOLATION (panic): preview of {}", what()),
        };
        self.st.frag_preview += 1;
        match (&pv, &m) {
            (Err(e), Err(me)) => assert_eq!(e, me, "frag preview error: {}", what()),
            (Ok(p), Ok(mo)) => {
                assert_eq!(p.pkt_len() as usize, mo.pkt().len(), "frag preview length: {}", what());
                let (ty, carried) = match mo {
                    MOut::Complete(pk) => ("EndFragPkt", pk.len() - 7),
                    MOut::Frag(pk, _) => ("IntermediateFragPkt", pk.len() - 3),
                };
                assert_eq!(format!("{:?}", p.pkt_type()), ty, "frag preview type: {}", what());
                assert_eq!(p.pdu_len(), carried, "frag preview pdu_len: {}", what());
            }
            _ => panic!("frag preview Ok/Err differs from model: {} -> {pv:?}", what()),
        }
        (r, out)
    }

    /// encap_preview against the model of an encapsulator that never re-uses a label
    fn preview(&mut self, off: usize, len: usize, pt: u16, label: Label, blen: usize) {
        let what = || format!("encap_preview pdu_len={len} pt={pt:#06x} label={label:?} buf_len={blen}");
        let pdu = &self.base[off..off + len];
        let md = EncapMetadata::new(pt, label);
        let pv = catch_unwind(AssertUnwindSafe(|| encap_preview(pdu, md, &self.pristine[..blen])));
        let pv = match pv {
            Ok(p) => p,
            Err(_) => panic!("C09 VIOLATION (panic): {}", what()),
        };
        self.st.preview += 1;
        let mut noreuse = ReUse::new();
        noreuse.disable();
        let m = self.model.encap(&noreuse, (off, len), pdu, 0, pt, label, blen, None);
        if label == Label::SixBytesLabel([0; 6])
            || (0x100..=0x5FF).contains(&pt)
            || len + 2 + label_bytes(&label).len() > 65535
        {
            assert!(pv.is_err(), "preview accepts what encap must refuse: {} -> {pv:?}", what());
        }
        match (&pv, &m) {
            (Err(_), Err(_)) => {} // the kind may differ (order of the checks), both refuse
            (Ok(p), Ok(mo)) => {
                assert_eq!(p.pkt_len() as usize, mo.pkt().len(), "preview length: {}", what());
                let ty = match mo {
                    MOut::Complete(_) => "CompletePkt",
                    MOut::Frag(..) => "FirstFragPkt",
                };
                assert_eq!(format!("{:?}", p.pkt_type()), ty, "preview type: {}", what());
            }
            _ => panic!("preview Ok/Err differs from model: {} -> {pv:?}", what()),
        }
    }
}

// ------------------------------------------------------------------------------------------------
// domains
// ------------------------------------------------------------------------------------------------
fn labels() -> Vec<Label> {
    vec![
        Label::SixBytesLabel([1, 2, 3, 4, 5, 6]),
        Label::SixBytesLabel([0; 6]),
        Label::SixBytesLabel([0, 0, 0, 0, 0, 1]),
        Label::ThreeBytesLabel([7, 8, 9]),
        Label::ThreeBytesLabel([0; 3]),
        Label::Broadcast,
        Label::ReUse,
    ]
}

fn pdu_lens() -> Vec<usize> {
    let mut v: Vec<usize> = (0..=16).collect();
    v.extend([100, 1000]);
    v.extend(4080..=4100);
    v.extend([8191, 8192]);
    v.extend(65524..=65537);
    v.extend([69999, 70000]);
    v
}
fn buf_lens() -> Vec<usize> {
    let mut v: Vec<usize> = (0..=24).collect();
    v.extend([100, 1000]);
    v.extend(4080..=4110);
    v.extend([8191, 8192, 65535, 65536, 65540, 70000]);
    v
}

/// puts the encapsulator in one of the prior states; returns a description
fn prior_state(h: &mut H, k: usize, label: Label) {
    h.fresh();
    let ok = |l: &Label| !matches!(l, Label::SixBytesLabel([0, 0, 0, 0, 0, 0]));
    match k {
        0 => {}
        1 => {
            // the label under test has just been sent: re-use applies (for 3/6 byte labels)
            if ok(&label) {
                h.encap(0, 3, 0, 0x0800, label, 64, None);
            }
        }
        2 => h.disable(),
        3 => {
            // bounded re-use, bound reached
            h.enable_max(1);
            if ok(&label) {
                h.encap(0, 3, 0, 0x0800, label, 64, None);
                h.encap(0, 3, 0, 0x0800, label, 64, None);
            }
        }
        4 => {
            // bounded re-use, bound not reached
            h.enable_max(2);
            if ok(&label) {
                h.encap(0, 3, 0, 0x0800, label, 64, None);
                h.encap(0, 3, 0, 0x0800, label, 64, None);
            }
        }
        5 => {
            // another label remembered
            h.encap(0, 3, 0, 0x0800, Label::SixBytesLabel([9; 6]), 64, None);
        }
        6 => {
            // disabled after a label was remembered, then re-enabled
            if ok(&label) {
                h.encap(0, 3, 0, 0x0800, label, 64, None);
            }
            h.disable();
            h.enable();
        }
        _ => unreachable!(),
    }
}
const N_STATES: usize = 7;

fn report(name: &str, h: &H) {
    println!("[{name}] {:#?}", h.st);
}

// ------------------------------------------------------------------------------------------------
// T1: encap, grid of sizes x labels x prior states
// ------------------------------------------------------------------------------------------------
#[test]
fn t1_encap_size_grid() {
    let mut h = H::new(0xC09);
    let (pl, bl) = (pdu_lens(), buf_lens());
    let mut calls = 0u64;
    for &label in &labels() {
        for k in 0..N_STATES {
            for &pt in &[0x0800u16, 0x0081] {
                for &p in &pl {
                    for &b in &bl {
                        prior_state(&mut h, k, label);
                        let off = p % 61;
                        h.encap(off, p, (p ^ b) as u8, pt, label, b, None);
                        // ... followed by valid traffic with the same label (next packet)
                        h.encap(1, 2, 1, 0x86DD, label, 32, None);
                        calls += 1;
                        if k == 0 && pt == 0x0800 {
                            h.preview(off, p, pt, label, b);
                        }
                    }
                }
            }
        }
    }
    println!("t1 grid points: {calls}");
    report("t1", &h);
}

// ------------------------------------------------------------------------------------------------
// T2: every protocol type 0..=0xFFFF with encap, encap_preview and encap_ext
// ------------------------------------------------------------------------------------------------
#[test]
fn t2_all_protocol_types() {
    let mut h = H::new(0x2C09);
    let labs = labels();
    let mut n = 0u64;
    for pt in 0..=0xFFFFu16 {
        for (li, &label) in labs.iter().enumerate() {
            let k = (pt as usize + li) % N_STATES;
            prior_state(&mut h, k, label);
            for &(p, b) in &[(0usize, 3usize), (5, 9), (9, 40)] {
                h.encap(0, p, 3, pt, label, b, None);
                h.preview(0, p, pt, label, b);
                // one optional extension; one mandatory extension whose id is the low byte of pt
                let e1: Vec<ExtDesc> = vec![(0x0233, vec![0xAA, 0xBB])];
                h.encap(0, p, 3, pt, label, b, Some(&e1));
                let e2: Vec<ExtDesc> = vec![(0x0100, vec![]), (pt & 0xFF, vec![1, 2, 3])];
                h.encap(0, p, 3, pt, label, b + 6, Some(&e2));
                n += 4;
            }
            // valid traffic afterwards
            h.encap(0, 4, 3, 0x0800, label, 40, None);
        }
    }
    println!("t2 calls: {n}");
    report("t2", &h);
}

// ------------------------------------------------------------------------------------------------
// T3: encap_ext, extension lists of 0..4 entries, corner sizes derived from the header length
// ------------------------------------------------------------------------------------------------
fn ext_pool() -> Vec<ExtDesc> {
    let mut v: Vec<ExtDesc> = vec![
        (0x0100, vec![]),
        (0x01FF, vec![]),
        (0x0200, vec![1; 2]),
        (0x02FF, vec![2; 2]),
        (0x0300, vec![3; 4]),
        (0x03AB, vec![4; 4]),
        (0x0400, vec![5; 6]),
        (0x04FF, vec![6; 6]),
        (0x0500, vec![7; 8]),
        (0x05FF, vec![8; 8]),
    ];
    for id in [0x0000u16, 0x0081, 0x00FF] {
        for n in 0..=8usize {
            v.push((id, (0..n as u8).map(|x| x ^ 0x5A).collect()));
        }
    }
    v
}

fn ext_corner_calls(h: &mut H, exts: &[ExtDesc], pt: u16, label: Label, k: usize, big: bool) -> u64 {
    // the corners depend on the header length: extensions, wire label (as given or re-used), and
    // whether the last extension replaces the protocol type
    let e: usize = exts.iter().map(|x| 2 + x.1.len()).sum::<usize>();
    let fin = if pt < 0x100 { 2usize } else { 0 };
    let ls = [label_bytes(&label).len(), 0];
    let mut n = 0;
    let mut ps: Vec<usize> = vec![0, 1, 7];
    let mut bs: Vec<usize> = vec![0, 3, 4096, 4097, 4098, 70000];
    for l in ls {
        let hc = (2 + 2 + l + e).saturating_sub(fin); // header of a complete packet
        for g in [4094usize, 4095, 4096] {
            if g + 2 >= hc {
                ps.push(g + 2 - hc); // gse_len 4094 / 4095 / 4096
            }
        }
        for d in 0..=8 {
            bs.push(hc + d); // around "header only" and "first fragment header"
        }
        bs.push(hc.saturating_sub(1));
        if big {
            ps.push(65535 - 2 - l);
            ps.push(65536 - 2 - l);
        }
    }
    ps.sort();
    ps.dedup();
    for &p in ps.iter().filter(|p| **p <= 70000) {
        let mut bb = bs.clone();
        for l in ls {
            let hc = (4 + l + e).saturating_sub(fin);
            bb.push((hc + p).saturating_sub(1));
            bb.push(hc + p);
            bb.push(hc + p + 1);
        }
        bb.sort();
        bb.dedup();
        for &b in bb.iter().filter(|b| **b <= MAXBUF) {
            prior_state(h, k, label);
            h.encap(p % 13, p, 0xEE, pt, label, b, Some(exts));
            h.encap(1, 2, 1, 0x86DD, label, 32, None);
            n += 1;
        }
    }
    n
}

#[test]
fn t3_encap_ext_lists() {
    let mut h = H::new(0x3C09);
    let pool = ext_pool();
    let mut r = Rng(0x3333);
    let labs = labels();
    let mut lists: Vec<Vec<ExtDesc>> = vec![vec![]];
    for a in &pool {
        lists.push(vec![a.clone()]);
    }
    // all pairs over a reduced pool, random triples and quadruples over the full pool
    let red: Vec<ExtDesc> = vec![
        (0x0100, vec![]),
        (0x0233, vec![1; 2]),
        (0x03AB, vec![4; 4]),
        (0x04FF, vec![6; 6]),
        (0x05FF, vec![8; 8]),
        (0x0081, vec![]),
        (0x0081, vec![1]),
        (0x0081, vec![4; 4]),
        (0x0081, vec![8; 8]),
        (0x0000, vec![]),
        (0x0000, vec![3; 3]),
    ];
    for a in &red {
        for b in &red {
            lists.push(vec![a.clone(), b.clone()]);
        }
    }
    for _ in 0..150 {
        lists.push((0..3).map(|_| r.pick(&pool)).collect());
        lists.push((0..4).map(|_| r.pick(&pool)).collect());
    }
    // headers that do not fit in one GSE packet / huge mandatory data
    for n in [4070usize, 4080, 4084, 4085, 4086, 4087, 4088, 4089, 4090, 4091, 4092, 4093, 4094, 4095, 4100, 5000, 66000] {
        lists.push(vec![(0x0042, vec![0x11; n])]);
        lists.push(vec![(0x0300, vec![1; 4]), (0x0042, vec![0x11; n])]);
        lists.push(vec![(0x0042, vec![0x11; n]), (0x0200, vec![1; 2])]);
    }
    let mut n = 0u64;
    let nl = lists.len();
    for (i, exts) in lists.iter().enumerate() {
        let last_id = exts.last().map(|x| x.0).unwrap_or(0x42);
        // protocol types: real ones, the forbidden range, mandatory ids (matching the last or not)
        let pts = [0x0800u16, 0xFFFF, 0x0600, 0x05FF, 0x0100, 0x0000, 0x0081, 0x00FF, last_id];
        for (j, &pt) in pts.iter().enumerate() {
            // two labels and one prior state per (list, pt), rotating
            for q in 0..2 {
                let label = labs[(i + j + q * 3) % labs.len()];
                let k = (i + 2 * j + q) % N_STATES;
                n += ext_corner_calls(&mut h, exts, pt, label, k, (i + j) % 16 == 0);
            }
        }
    }
    println!("t3 lists: {nl}, grid points: {n}");
    report("t3", &h);
}

// ------------------------------------------------------------------------------------------------
// T4: encap_frag / encap_frag_preview over every ContextFrag corner
// ------------------------------------------------------------------------------------------------
#[test]
fn t4_encap_frag_grid() {
    let mut h = H::new(0x4C09);
    let mut bl: Vec<usize> = (0..=12).collect();
    bl.extend(4085..=4100);
    bl.extend([8192, 65535, 70000]);
    let mut n = 0u64;
    for &p in &pdu_lens() {
        let mut ls: Vec<i64> = vec![0, 1, 2, 3, 4, 5, 4089, 4090, 4091, 65534, 65535];
        let pi = p as i64;
        ls.extend((pi - 4100)..=(pi - 4084));
        ls.extend((pi - 8)..=(pi + 3));
        ls.sort();
        ls.dedup();
        for l in ls.into_iter().filter(|l| (0..=65535).contains(l)) {
            for &b in &bl {
                h.frag((p + b) % 17, p, ((p + b) as u8, 0xDEAD_0000 ^ (l as u32), l as u16), b);
                n += 1;
            }
        }
    }
    println!("t4 grid points: {n}");
    report("t4", &h);
}

// ------------------------------------------------------------------------------------------------
// T5: long random sequences mixing everything, with failing calls in between
// ------------------------------------------------------------------------------------------------
fn rnd_len(r: &mut Rng) -> usize {
    match r.below(10) {
        0 => r.below(8),
        1 => 4085 + r.below(16),
        2 => 65525 + r.below(14),
        3 => 69990 + r.below(11),
        4 => r.below(70001),
        5 => 8000 + r.below(400),
        _ => r.below(3000),
    }
}
fn rnd_buf(r: &mut Rng) -> usize {
    match r.below(10) {
        0 => r.below(16),
        1 => 4090 + r.below(12),
        2 => 65530 + r.below(10),
        3 => r.below(70001),
        4 => 4098 + r.below(60000),
        _ => r.below(5000),
    }
}
fn rnd_pt(r: &mut Rng) -> u16 {
    match r.below(8) {
        0 => r.below(0x100) as u16,
        1 => (0x100 + r.below(0x500)) as u16,
        2 => r.pick(&[0x00FFu16, 0x0100, 0x0101, 0x05FE, 0x05FF, 0x0600, 0x0601]),
        3 => r.next() as u16,
        _ => r.pick(&[0x0800u16, 0x86DD, 0xFFFF, 0x0600]),
    }
}

#[test]
fn t5_random_sequences() {
    let seeds: Vec<u64> = match std::env::var("C09_SEEDS") {
        Ok(s) => s.split(',').filter_map(|x| x.trim().parse().ok()).collect(),
        Err(_) => vec![1, 7, 42, 2024],
    };
    let steps: usize = std::env::var("C09_STEPS").ok().and_then(|s| s.parse().ok()).unwrap_or(40_000);
    let pool = ext_pool();
    let labs: Vec<Label> = {
        let mut l = labels();
        l.push(Label::SixBytesLabel([1, 2, 3, 4, 5, 7]));
        l.push(Label::ThreeBytesLabel([7, 8, 10]));
        l
    };
    for seed in seeds {
        let mut h = H::new(seed.wrapping_mul(0x9E37_79B9_7F4A_7C15));
        let mut r = Rng(seed.wrapping_mul(77) | 1);
        // contexts returned by the crate, to be continued later: (off, len, ctx)
        let mut live: Vec<(usize, usize, (u8, u32, u16))> = vec![];
        let mut sticky = labs[0];
        for _ in 0..steps {
            let label = if r.below(3) == 0 { r.pick(&labs) } else { sticky };
            if r.below(5) == 0 {
                sticky = r.pick(&labs);
            }
            match r.below(20) {
                0 => h.reset_last(),
                1 => h.disable(),
                2 => h.enable(),
                3 => {
                    let m = r.pick(&[0u8, 1, 2, 3, 255]);
                    h.enable_max(m)
                }
                4..=9 => {
                    let (p, b) = (rnd_len(&mut r), rnd_buf(&mut r));
                    let off = r.below(60);
                    let fid = r.next() as u8;
                    let (res, _) = h.encap(off, p, fid, rnd_pt(&mut r), label, b, None);
                    if let Ok(EncapStatus::FragmentedPkt(_, c)) = res {
                        live.push((off, p, (c.frag_id(), c.crc(), c.len_pdu_frag())));
                    }
                    if r.below(4) == 0 {
                        h.preview(off, p, rnd_pt(&mut r), label, b);
                    }
                }
                10..=14 => {
                    let n = r.below(5);
                    let mut exts: Vec<ExtDesc> = (0..n).map(|_| r.pick(&pool)).collect();
                    if r.below(40) == 0 {
                        exts.push((0x0042, vec![9; 4000 + r.below(200)]));
                    }
                    let mut pt = rnd_pt(&mut r);
                    if r.below(3) == 0 {
                        if let Some(l) = exts.last() {
                            pt = l.0; // may be a final mandatory extension, or the forbidden range
                        }
                    }
                    let (p, b) = (rnd_len(&mut r), rnd_buf(&mut r));
                    let off = r.below(60);
                    let (res, _) = h.encap(off, p, r.next() as u8, pt, label, b, Some(&exts));
                    if let Ok(EncapStatus::FragmentedPkt(_, c)) = res {
                        live.push((off, p, (c.frag_id(), c.crc(), c.len_pdu_frag())));
                    }
                }
                15..=18 => {
                    // continue a live context, or a hand-made one
                    if !live.is_empty() && r.below(4) != 0 {
                        let i = r.below(live.len());
                        let (off, p, c) = live[i];
                        let (res, _) = h.frag(off, p, c, rnd_buf(&mut r));
                        match res {
                            Ok(EncapStatus::FragmentedPkt(_, c2)) => {
                                live[i].2 = (c2.frag_id(), c2.crc(), c2.len_pdu_frag())
                            }
                            Ok(EncapStatus::CompletedPkt(_)) => {
                                live.swap_remove(i);
                            }
                            Err(_) => {}
                        }
                    } else {
                        let p = rnd_len(&mut r);
                        let l = match r.below(4) {
                            0 => r.next() as u16,
                            1 => (p.min(65535) as u16).wrapping_add(r.below(3) as u16).wrapping_sub(1),
                            _ => r.below(p.min(65535) + 1) as u16,
                        };
                        h.frag(r.below(60), p, (r.next() as u8, r.next() as u32, l), rnd_buf(&mut r));
                    }
                }
                _ => {
                    // a burst of calls that must fail, then the state must be intact
                    let b = rnd_buf(&mut r);
                    h.encap(0, rnd_len(&mut r), 1, 0x0800, Label::SixBytesLabel([0; 6]), b, None);
                    h.encap(0, rnd_len(&mut r), 1, (0x100 + r.below(0x500)) as u16, label, b, None);
                    h.encap(0, 65534 + r.below(4000), 1, 0x0800, label, b, None);
                    h.encap(0, 10, 1, 0x0800, label, r.below(4), None);
                    h.encap(0, 10, 1, 0x0800, label, 30, Some(&[]));
                    h.encap(0, 10, 1, 0x0033, label, 30, Some(&[(0x0034, vec![1])]));
                }
            }
            if live.len() > 32 {
                live.remove(0);
            }
        }
        report(&format!("t5 seed {seed}"), &h);
    }
}

// ------------------------------------------------------------------------------------------------
// T6: complete chains (encap/encap_ext + encap_frag...) with failing calls interleaved; the packets
// are laid out in frames with padding, parsed by an own parser and by the crate's decapsulator
// ------------------------------------------------------------------------------------------------
#[derive(Clone)]
struct Mhem;
impl MandatoryHeaderExtensionManager for Mhem {
    fn is_mandatory_header_id_known(&self, id: u16) -> MandatoryHeaderExt {
        match id {
            0x0005 => MandatoryHeaderExt::NonFinal(3),
            0x0007 => MandatoryHeaderExt::NonFinal(0),
            0x0081 => MandatoryHeaderExt::Final(0),
            0x0042 => MandatoryHeaderExt::Final(4),
            _ => MandatoryHeaderExt::Unknown,
        }
    }
}

/// one PDU through encap/encap_ext then encap_frag until completion, failing calls interleaved;
/// the packets are appended to `frame`; returns the number of packets
#[allow(clippy::too_many_arguments)]
fn run_chain(
    h: &mut H,
    r: &mut Rng,
    frame: &mut Vec<u8>,
    off: usize,
    p: usize,
    fid: u8,
    pt: u16,
    label: Label,
    exts: &[ExtDesc],
    sched: usize,
) -> u64 {
    let next_buf = |r: &mut Rng, first: bool| -> usize {
        match sched {
            0 => 70000,
            1 => 4097,
            2 => 4096,
            3 => {
                if first {
                    48
                } else {
                    4 + r.below(3000)
                }
            }
            4 => 30 + r.below(200),
            _ => r.below(70001),
        }
    };
    let ex = if exts.is_empty() { None } else { Some(exts) };
    let mut pkts = 0;
    // failing calls first
    h.encap(off, p, fid, pt, Label::SixBytesLabel([0; 6]), 5000, ex);
    h.encap(off, p, fid, 0x0234, label, 5000, None);
    h.encap(off, p, fid, pt, label, 3, ex);
    let mut ctx: Option<(u8, u32, u16)> = None;
    let mut tries = 0;
    loop {
        tries += 1;
        assert!(tries < 100_000, "chain does not terminate");
        let b = next_buf(r, true).max(if tries > 50 { 64 } else { 0 });
        let (res, pkt) = h.encap(off, p, fid, pt, label, b, ex);
        match res {
            Ok(EncapStatus::CompletedPkt(_)) => {
                frame.extend_from_slice(&pkt);
                pkts += 1;
                break;
            }
            Ok(EncapStatus::FragmentedPkt(_, c)) => {
                frame.extend_from_slice(&pkt);
                pkts += 1;
                ctx = Some((c.frag_id(), c.crc(), c.len_pdu_frag()));
                break;
            }
            Err(_) => {}
        }
    }
    while let Some(c) = ctx {
        // interleave failing calls of every kind
        if p < 65535 {
            h.frag(off, p, (c.0, c.1, p as u16 + 1), 5000);
        }
        h.frag(off, p, c, r.below(4));
        if pkts % 16 == 1 {
            h.encap(0, 70000, 1, 0x0800, label, 70000, None);
            h.encap(0, 10, 1, 0x05FF, label, 70000, ex);
        }
        tries += 1;
        assert!(tries < 100_000, "chain does not terminate");
        let b = next_buf(r, false).max(if tries > 50 { 64 } else { 0 });
        let (res, pkt) = h.frag(off, p, c, b);
        match res {
            Ok(EncapStatus::CompletedPkt(_)) => {
                frame.extend_from_slice(&pkt);
                pkts += 1;
                ctx = None;
            }
            Ok(EncapStatus::FragmentedPkt(_, c2)) => {
                frame.extend_from_slice(&pkt);
                pkts += 1;
                assert!(c2.len_pdu_frag() > c.2, "no progress");
                ctx = Some((c2.frag_id(), c2.crc(), c2.len_pdu_frag()));
            }
            Err(_) => {}
        }
    }
    pkts
}

#[test]
fn t6_chains_and_frames() {
    let mut h = H::new(0x6C09);
    let mut r = Rng(0x6666);
    let ext_lists: Vec<(Vec<ExtDesc>, Option<u16>)> = vec![
        (vec![], None),
        (vec![(0x0100, vec![])], None),
        (vec![(0x0233, vec![1, 2]), (0x05FF, vec![9; 8])], None),
        (vec![(0x0005, vec![1, 2, 3]), (0x0300, vec![4; 4])], None),
        (vec![(0x0007, vec![]), (0x0005, vec![1, 2, 3]), (0x0400, vec![6; 6]), (0x0100, vec![])], None),
        (vec![(0x0081, vec![])], Some(0x0081)),
        (vec![(0x0200, vec![7, 7]), (0x0042, vec![1, 2, 3, 4])], Some(0x0042)),
        (vec![(0x0005, vec![1, 2, 3]), (0x0042, vec![1, 2, 3, 4])], Some(0x0042)),
    ];
    let labs = [
        Label::SixBytesLabel([1, 2, 3, 4, 5, 6]),
        Label::ThreeBytesLabel([0, 0, 0]),
        Label::ThreeBytesLabel([7, 8, 9]),
        Label::Broadcast,
        Label::SixBytesLabel([0, 0, 0, 0, 0, 1]),
    ];
    let mut pls: Vec<usize> = vec![0, 1, 2, 5, 100, 2000];
    pls.extend(4075..=4097);
    pls.extend([8190, 12287, 65520, 65527, 65530, 65533]);
    let store = 65536usize;
    let mut mem = SimpleGseMemory::new(4, store, 0, 0);
    for _ in 0..4 {
        mem.provision_storage(vec![0u8; store].into_boxed_slice()).unwrap();
    }
    let mut dec = Decapsulator::new(mem, DefaultCrc {}, Mhem);
    let (mut chains, mut pkts, mut dpdus, mut frames) = (0u64, 0u64, 0u64, 0u64);
    for round in 0..3usize {
        for (ei, (exts, fin)) in ext_lists.iter().enumerate() {
            for (li, &label) in labs.iter().enumerate() {
                for (pi, &p) in pls.iter().enumerate() {
                    // a new frame: both ends forget the label (the decapsulator does so on padding)
                    h.reset_last();
                    dec.reset_last_label();
                    match (round + ei + li + pi) % 4 {
                        0 => h.enable(),
                        1 => h.enable_max(1),
                        2 => h.enable_max(2),
                        _ => {}
                    }
                    let mut frame: Vec<u8> = vec![];
                    let mut want: Vec<(usize, usize, u16, Label, usize)> = vec![];
                    // several PDUs in the frame, same label: the 2nd.. use the re-use label when allowed;
                    // the PDUs that do not fit the total length with this label are replaced
                    let sizes = [p, pls[(pi + 11) % pls.len()], 3, pls[(pi + 5) % pls.len()], 9];
                    for (si, &sz) in sizes.iter().enumerate() {
                        let sz = if sz + 2 + label_bytes(&label).len() > 65535 { sz - 8 } else { sz };
                        // every second PDU goes through encap / encap_ext alternately
                        let (e_idx, e_list): (usize, &[ExtDesc]) = if si % 2 == 0 { (ei, exts) } else { (0, &[]) };
                        let pt = if si % 2 == 0 {
                            fin.unwrap_or(if sz % 2 == 0 { 0x0800 } else { 0xFFFF })
                        } else {
                            0x86DD
                        };
                        let off = (sz + si) % 29;
                        let sched = (round + pi + li + si) % 6;
                        pkts += run_chain(&mut h, &mut r, &mut frame, off, sz, (p + ei + si) as u8, pt, label, e_list, sched);
                        chains += 1;
                        want.push((off, sz, pt, label, e_idx));
                    }
                    frame.extend(std::iter::repeat(0u8).take(r.below(9)));
                    frames += 1;
                    // walk the frame with the crate's decapsulator
                    let mut o = 0usize;
                    let mut wi = 0usize;
                    // (a single trailing padding byte cannot hold a header: nothing left to walk)
                    while o + 1 < frame.len() {
                        match dec.decap(&frame[o..]) {
                            Ok((DecapStatus::CompletedPkt(b, md), n)) => {
                                let (off, sz, pt, lab, e_idx) = want[wi];
                                assert_eq!(md.pdu_len(), sz, "pdu length after the round trip");
                                assert!(b[..sz] == h.base[off..off + sz], "PDU differs after the round trip, pdu_len={sz}");
                                assert_eq!(md.protocol_type(), pt);
                                assert_eq!(md.label(), lab);
                                let we: Vec<Extension> =
                                    ext_lists[e_idx].0.iter().map(|(i, d)| Extension::new(*i, d).unwrap()).collect();
                                assert_eq!(md.extensions(), &we);
                                wi += 1;
                                dpdus += 1;
                                dec.provision_storage(b).unwrap();
                                o += n;
                            }
                            Ok((DecapStatus::FragmentedPkt(_), n)) => o += n,
                            Ok((DecapStatus::Padding, n)) => o += n,
                            Err((e, _)) => panic!(
                                "decap refuses a packet produced by a successful encap chain: {e:?} frame pdu#{wi} {:?} at {o}/{}",
                                want.get(wi),
                                frame.len()
                            ),
                        }
                    }
                    assert_eq!(wi, want.len(), "PDUs out of the frame");
                }
            }
        }
    }
    h.st.chains = chains;
    h.st.chain_pkts = pkts;
    h.st.decap_pdus = dpdus;
    println!("t6 frames: {frames}");
    report("t6", &h);
}

// ------------------------------------------------------------------------------------------------
// T7: Extension::new is total over every id and data length 0..=9 (inputs of encap_ext)
// ------------------------------------------------------------------------------------------------
#[test]
fn t7_extension_new_total() {
    let mut ok = 0u64;
    let mut err = 0u64;
    for id in 0..=0xFFFFu16 {
        for n in 0..=9usize {
            let d = vec![0xA5u8; n];
            let r = catch_unwind(|| Extension::new(id, &d));
            let r = r.unwrap_or_else(|_| panic!("Extension::new panics for id={id:#x} len={n}"));
            let want_ok = if id < 0x100 {
                true
            } else if id < 0x600 {
                n == [0usize, 0, 2, 4, 6, 8][(id >> 8) as usize]
            } else {
                false
            };
            match r {
                Ok(e) => {
                    assert!(want_ok, "accepted id={id:#x} len={n}");
                    assert_eq!(e.len(), 2 + n);
                    assert_eq!(e.id(), id);
                    ok += 1;
                }
                Err(e) => {
                    assert!(!want_ok, "refused id={id:#x} len={n}");
                    if id >= 0x600 {
                        assert_eq!(e, NewExtensionError::IncorrectExtensionId);
                    }
                    err += 1;
                }
            }
        }
    }
    println!("t7 Extension::new ok={ok} err={err}");
}

// ------------------------------------------------------------------------------------------------
// T8: full sweeps of one dimension: every PDU length 0..=70000 and every buffer length 0..=70000
// ------------------------------------------------------------------------------------------------
#[test]
fn t8_full_length_sweeps() {
    let mut h = H::new(0x8C09);
    let labs = [Label::SixBytesLabel([1, 2, 3, 4, 5, 6]), Label::Broadcast, Label::ThreeBytesLabel([0; 3])];
    let ext: Vec<ExtDesc> = vec![(0x0005, vec![1, 2, 3]), (0x0233, vec![1, 2])];
    let mut n = 0u64;
    // every PDU length
    for p in 0..=70000usize {
        let label = labs[p % 3];
        let l = label_bytes(&label).len();
        if p % 7 == 0 {
            h.reset_last();
        }
        for b in [p % 12, 4097, 70000, p + 3 + l, (p + 4 + l).min(MAXBUF), (p + 11 + l).min(MAXBUF)] {
            h.encap(p % 31, p, p as u8, 0x0800, label, b.min(MAXBUF), None);
            n += 1;
        }
        h.encap(p % 31, p, p as u8, 0x86DD, label, (p + 20).min(MAXBUF), Some(&ext));
        h.encap(p % 31, p, p as u8, 0x86DD, label, 4097, Some(&ext));
        h.preview(p % 31, p, 0x0800, label, (p + 9).min(MAXBUF));
        let c = (p as u8, 0xC0FFEE ^ p as u32);
        for lpf in [0usize, p / 2, p.saturating_sub(1), p, p + 1] {
            if lpf <= 65535 {
                for b in [5usize, 4097, 70000, (p - lpf.min(p)) + 6, (p - lpf.min(p)) + 7] {
                    h.frag(p % 31, p, (c.0, c.1, lpf as u16), b.min(MAXBUF));
                    n += 1;
                }
            }
        }
    }
    // every buffer length
    for b in 0..=70000usize {
        let label = labs[b % 3];
        if b % 5 == 0 {
            h.reset_last();
        }
        for p in [0usize, 5, 4090, 4096, 65527, 65533, 70000] {
            h.encap(b % 31, p, b as u8, 0xFFFF, label, b, None);
            n += 1;
        }
        h.encap(b % 31, 4085, b as u8, 0xFFFF, label, b, Some(&ext));
        h.encap(b % 31, 20000, b as u8, 0xFFFF, label, b, Some(&ext));
        h.preview(b % 31, 4093, 0x0800, label, b);
        for (p, lpf) in [(10usize, 3usize), (4100, 7), (4100, 4100), (65533, 61000), (70000, 100), (3, 4)] {
            h.frag(b % 31, p, (1, 2, lpf as u16), b);
            n += 1;
        }
    }
    println!("t8 calls (encap + encap_frag, without ext/preview): {n}");
    report("t8", &h);
}
