// Model-based / differential harness for property C02
// "Fragmented round trip holds for every PDU and every buffer-size schedule".
//
// Public API only.  Run (copied to tests/harness_C02.rs):
//   CARGO_NET_OFFLINE=true cargo test --offline --test harness_C02 -- --nocapture --test-threads=1
//   CARGO_NET_OFFLINE=true cargo test --offline --release --test harness_C02 -- --nocapture --test-threads=1
//
// What is checked for every offered output buffer:
//   * the status (Completed / Fragmented(len, context) / ErrorSizeBuffer) equals the one predicted by an
//     independent model written from the GSE rules (a packet is at most 4097 bytes; the whole remainder is
//     sent as soon as it fits; otherwise as much payload as fits; a fragment needs one payload byte unless it
//     is the first one; the CRC is never split),
//   * the bytes written are exactly the packet predicted by the model (own bitwise CRC-32/MPEG-2),
//   * nothing is written beyond the reported length (canary),
//   * a buffer of 13 bytes or more is never refused.
// and for every produced packet, fed in order to a Decapsulator:
//   * the consumed length equals the length reported by encap / encap_frag,
//   * non final packets give FragmentedPkt carrying the label and the protocol type,
//   * the final packet gives exactly one CompletedPkt equal to the PDU (bytes, length, protocol type, label).

use dvb_gse_rust::crc::DefaultCrc;
use dvb_gse_rust::gse_decap::{
    DecapError, DecapMemoryError, DecapStatus, Decapsulator, GseDecapMemory, SimpleGseMemory,
};
use dvb_gse_rust::gse_encap::{
    encap_frag_preview, encap_preview, ContextFrag, EncapError, EncapMetadata, EncapStatus,
    Encapsulator,
};
use dvb_gse_rust::header_extension::{
    Extension, MandatoryHeaderExt, MandatoryHeaderExtensionManager,
    SimpleMandatoryExtensionHeaderManager,
};
use dvb_gse_rust::label::Label;

const SCALE: usize = if cfg!(debug_assertions) { 1 } else { 6 };
const CANARY: u8 = 0xA5;

// ---------------------------------------------------------------------------------------------
// tiny PRNG
// ---------------------------------------------------------------------------------------------
struct Rng(u64);
impl Rng {
    /// the seed of every test can be shifted with the environment variable C02_SEED
    fn new(seed: u64) -> Self {
        let shift: u64 = std::env::var("C02_SEED").ok().and_then(|s| s.parse().ok()).unwrap_or(0);
        Rng((seed + 1000 * shift).wrapping_mul(0x9E37_79B9_7F4A_7C15) | 1)
    }
    fn next(&mut self) -> u64 {
        let mut x = self.0;
        x ^= x >> 12;
        x ^= x << 25;
        x ^= x >> 27;
        self.0 = x;
        x.wrapping_mul(0x2545_F491_4F6C_DD1D)
    }
    fn below(&mut self, n: usize) -> usize {
        (self.next() % n as u64) as usize
    }
    fn range(&mut self, lo: usize, hi: usize) -> usize {
        lo + self.below(hi - lo + 1)
    }
    fn pick<T: Copy>(&mut self, v: &[T]) -> T {
        v[self.below(v.len())]
    }
    fn bytes(&mut self, n: usize) -> Vec<u8> {
        let mode = self.below(8);
        let mut v = vec![0u8; n];
        match mode {
            0 => {}                                  // all zero (looks like padding)
            1 => v.iter_mut().for_each(|b| *b = 0xFF),
            2 => v.iter_mut().for_each(|b| *b = CANARY), // same as the canary
            _ => {
                let mut i = 0;
                while i < n {
                    let w = self.next().to_le_bytes();
                    let k = (n - i).min(8);
                    v[i..i + k].copy_from_slice(&w[..k]);
                    i += k;
                }
            }
        }
        v
    }
}

// ---------------------------------------------------------------------------------------------
// independent reference: CRC, packet layout, fragmentation decisions
// ---------------------------------------------------------------------------------------------
fn ref_crc(parts: &[&[u8]]) -> u32 {
    let mut crc = 0xFFFF_FFFFu32;
    for p in parts {
        for &b in *p {
            crc ^= (b as u32) << 24;
            for _ in 0..8 {
                crc = if crc & 0x8000_0000 != 0 {
                    (crc << 1) ^ 0x04C1_1DB7
                } else {
                    crc << 1
                };
            }
        }
    }
    crc
}

fn label_bits(l: &Label) -> u16 {
    match l {
        Label::SixBytesLabel(_) => 0,
        Label::ThreeBytesLabel(_) => 1,
        Label::Broadcast => 2,
        Label::ReUse => 3,
    }
}
fn label_bytes(l: &Label) -> Vec<u8> {
    match l {
        Label::SixBytesLabel(b) => b.to_vec(),
        Label::ThreeBytesLabel(b) => b.to_vec(),
        _ => vec![],
    }
}

#[derive(Clone, Copy, PartialEq, Debug)]
enum Exp {
    Complete,      // the whole PDU in one packet
    First(usize),  // payload bytes in the first fragment
    Inter(usize),  // payload bytes in the intermediate fragment
    End(usize),    // payload bytes in the end fragment
    Reject,        // ErrorSizeBuffer
}

const MAX_PKT: usize = 4097;

/// what encap / encap_ext must do with a buffer of `b` bytes
fn model_start(pdu_len: usize, wire_label_len: usize, ext_total: usize, b: usize) -> Exp {
    let cap = b.min(MAX_PKT);
    let whole = 2 + 2 + wire_label_len + ext_total + pdu_len;
    if whole <= cap {
        return Exp::Complete;
    }
    let hdr = 2 + 1 + 2 + 2 + wire_label_len + ext_total;
    if hdr > cap {
        return Exp::Reject;
    }
    Exp::First(cap - hdr)
}

/// what encap_frag must do with `rem` bytes left and a buffer of `b` bytes
fn model_next(rem: usize, b: usize) -> Exp {
    let cap = b.min(MAX_PKT);
    if 2 + 1 + rem + 4 <= cap {
        return Exp::End(rem);
    }
    if rem > 0 && cap >= 4 {
        return Exp::Inter((cap - 3).min(rem));
    }
    Exp::Reject
}

/// description of the header extensions of a PDU (empty for plain encap)
#[derive(Clone, Debug, Default)]
struct Exts {
    list: Vec<(u16, Vec<u8>)>,
    final_mandatory: bool,
}
impl Exts {
    fn total(&self) -> usize {
        let s: usize = self.list.iter().map(|(_, d)| 2 + d.len()).sum();
        if self.final_mandatory {
            s - 2
        } else {
            s
        }
    }
    fn to_api(&self) -> Vec<Extension> {
        self.list
            .iter()
            .map(|(id, d)| Extension::new(*id, d).expect("extension"))
            .collect()
    }
}

struct PduDesc<'a> {
    crc: u32,
    pdu: &'a [u8],
    proto: u16,
    frag_id: u8,
    wire_label: Label,
    exts: &'a Exts,
}

impl<'a> PduDesc<'a> {
    fn total_len(&self) -> u16 {
        (self.pdu.len() + 2 + self.wire_label.len()) as u16
    }
    fn crc(&self) -> u32 {
        self.crc
    }
    /// protocol type field + label + extension chain, as they appear after the (frag id, total length)
    fn meta_bytes(&self) -> Vec<u8> {
        let mut v = vec![];
        if self.exts.list.is_empty() {
            v.extend_from_slice(&self.proto.to_be_bytes());
            v.extend_from_slice(&label_bytes(&self.wire_label));
        } else {
            v.extend_from_slice(&self.exts.list[0].0.to_be_bytes());
            v.extend_from_slice(&label_bytes(&self.wire_label));
            for (i, (_, d)) in self.exts.list.iter().enumerate() {
                v.extend_from_slice(d);
                if i + 1 < self.exts.list.len() {
                    v.extend_from_slice(&self.exts.list[i + 1].0.to_be_bytes());
                }
            }
            if !self.exts.final_mandatory {
                v.extend_from_slice(&self.proto.to_be_bytes());
            }
        }
        v
    }
    fn packet(&self, e: Exp, sent: usize) -> Vec<u8> {
        let mut v: Vec<u8> = vec![0, 0];
        let se: u16;
        let lt: u16;
        match e {
            Exp::Complete => {
                se = 0xC000;
                lt = label_bits(&self.wire_label);
                v.extend(self.meta_bytes());
                v.extend_from_slice(self.pdu);
            }
            Exp::First(n) => {
                se = 0x8000;
                lt = label_bits(&self.wire_label);
                v.push(self.frag_id);
                v.extend_from_slice(&self.total_len().to_be_bytes());
                v.extend(self.meta_bytes());
                v.extend_from_slice(&self.pdu[..n]);
            }
            Exp::Inter(n) => {
                se = 0x0000;
                lt = 3;
                v.push(self.frag_id);
                v.extend_from_slice(&self.pdu[sent..sent + n]);
            }
            Exp::End(n) => {
                se = 0x4000;
                lt = 3;
                assert_eq!(sent + n, self.pdu.len());
                v.push(self.frag_id);
                v.extend_from_slice(&self.pdu[sent..]);
                v.extend_from_slice(&self.crc().to_be_bytes());
            }
            Exp::Reject => unreachable!(),
        }
        let gse_len = v.len() - 2;
        assert!(gse_len <= 4095, "model produced an oversized packet");
        let h = se | (lt << 12) | gse_len as u16;
        v[..2].copy_from_slice(&h.to_be_bytes());
        v
    }
}

// ---------------------------------------------------------------------------------------------
// sender-side model of the label re-use policy (only used to predict the on-wire label; the receiver
// side check below verifies independently that a ReUse label is resolvable to the requested label)
// ---------------------------------------------------------------------------------------------
#[derive(Clone, Debug)]
struct ReuseModel {
    enabled: bool,
    max: u8,
    cur: u8,
    last: Option<Label>,
}
impl ReuseModel {
    fn new() -> Self {
        ReuseModel {
            enabled: true,
            max: 0,
            cur: 0,
            last: None,
        }
    }
    fn wire(&self, l: Label) -> Label {
        if self.enabled && Some(l) == self.last && (self.max == 0 || self.cur < self.max) {
            Label::ReUse
        } else {
            l
        }
    }
    fn commit(&mut self, l: Label) {
        if !self.enabled {
            return;
        }
        if Some(l) == self.last {
            if self.max == 0 {
                return;
            }
            if self.cur < self.max {
                self.cur += 1;
                return;
            }
            self.cur = 0;
        }
        match l {
            Label::Broadcast => self.last = None,
            Label::ReUse => {}
            _ => self.last = Some(l),
        }
    }
}

// ---------------------------------------------------------------------------------------------
// sender under test + model
// ---------------------------------------------------------------------------------------------
struct Sender {
    enc: Encapsulator<DefaultCrc>,
    reuse: ReuseModel,
    /// label the receiver currently remembers (model of the receiving side, in transmission order)
    rx_last: Option<Label>,
}

#[derive(Debug, Clone)]
struct Pkt {
    bytes: Vec<u8>,
    reported: usize,
    last: bool,
    stream: usize,
}

/// one PDU being sent
struct Stream {
    id: usize,
    pdu: Vec<u8>,
    proto: u16,
    frag_id: u8,
    label: Label,        // requested label
    resolved: Label,     // label the receiver must report
    wire_label: Label,   // label on the wire (requested or ReUse)
    exts: Exts,
    ctx: Option<ContextFrag>,
    sent: usize,
    started: bool,
    done: bool,
    good_bufs: usize, // buffers >= 13 bytes offered so far
    pkts: usize,
    crc: Option<u32>, // reference CRC, computed once
}

impl Stream {
    fn new(id: usize, pdu: Vec<u8>, proto: u16, frag_id: u8, label: Label, exts: Exts) -> Self {
        Stream {
            id,
            pdu,
            proto,
            frag_id,
            label,
            resolved: label,
            wire_label: label,
            exts,
            ctx: None,
            sent: 0,
            started: false,
            done: false,
            good_bufs: 0,
            pkts: 0,
            crc: None,
        }
    }
}

#[derive(Default, Debug)]
struct Stats {
    pdus: usize,
    pdus_fragmented: usize,
    pdus_first_reuse: usize,
    buffers: usize,
    buffers_rejected: usize,
    buffers_over_4097: usize,
    payload_not_crc: usize,
    first_empty: usize,
    packets: usize,
    decaps: usize,
    max_pkts_per_pdu: usize,
}
#[allow(dead_code)]
impl Stats {
    fn add(&mut self, o: &Stats) {
        self.pdus += o.pdus;
        self.pdus_fragmented += o.pdus_fragmented;
        self.pdus_first_reuse += o.pdus_first_reuse;
        self.buffers += o.buffers;
        self.buffers_rejected += o.buffers_rejected;
        self.buffers_over_4097 += o.buffers_over_4097;
        self.payload_not_crc += o.payload_not_crc;
        self.first_empty += o.first_empty;
        self.packets += o.packets;
        self.decaps += o.decaps;
        self.max_pkts_per_pdu = self.max_pkts_per_pdu.max(o.max_pkts_per_pdu);
    }
}

#[derive(Clone, Copy)]
struct Lazy {
    pdu_len: usize,
    label: Label,
    proto: u16,
    frag_id: u8,
    nb_exts: usize,
    sent: usize,
    started: bool,
    b: usize,
}
impl std::fmt::Display for Lazy {
    fn fmt(&self, f: &mut std::fmt::Formatter<'_>) -> std::fmt::Result {
        write!(
            f,
            "pdu_len={} label={:?} proto={:#06x} frag_id={} nb_exts={} sent={} started={} buffer={}",
            self.pdu_len, self.label, self.proto, self.frag_id, self.nb_exts, self.sent, self.started, self.b
        )
    }
}
/// description of the situation, formatted only when a message is needed
fn describe(s: &Stream, b: usize) -> Lazy {
    Lazy {
        pdu_len: s.pdu.len(),
        label: s.label,
        proto: s.proto,
        frag_id: s.frag_id,
        nb_exts: s.exts.list.len(),
        sent: s.sent,
        started: s.started,
        b,
    }
}

impl Sender {
    fn new() -> Self {
        Sender {
            enc: Encapsulator::new(DefaultCrc {}),
            reuse: ReuseModel::new(),
            rx_last: None,
        }
    }

    /// the receiver sees padding / a new frame: it forgets its label, the sender must do the same
    fn new_frame(&mut self) {
        self.enc.reset_last_label();
        self.reuse.last = None;
        self.rx_last = None;
    }

    /// Offer one output buffer to stream `s`.  Returns the packet written, if any.
    /// `buffer` is filled with the canary by the caller.
    fn offer(&mut self, s: &mut Stream, buffer: &mut [u8], st: &mut Stats) -> Result<Option<Pkt>, String> {
        assert!(!s.done);
        let b = buffer.len();
        st.buffers += 1;
        if b > MAX_PKT {
            st.buffers_over_4097 += 1;
        }
        if b >= 13 {
            s.good_bufs += 1;
        }
        let ctx_txt = describe(s, b);

        let (exp, result, wire_label);
        if !s.started {
            wire_label = self.reuse.wire(s.label);
            let ext_total = s.exts.total();
            exp = model_start(s.pdu.len(), wire_label.len(), ext_total, b);
            let md = EncapMetadata::new(s.proto, s.label);
            if s.exts.list.is_empty() {
                // previews must agree with the real thing (on the requested label only when no re-use applies)
                if wire_label == s.label {
                    let pv = encap_preview(&s.pdu, md, buffer);
                    match (exp, &pv) {
                        (Exp::Reject, Err(EncapError::ErrorSizeBuffer)) => {}
                        (Exp::Complete, Ok(p)) if p.pkt_len() as usize == 4 + wire_label.len() + s.pdu.len() => {}
                        (Exp::First(n), Ok(p)) if p.pkt_len() as usize == 7 + wire_label.len() + n => {}
                        _ => return Err(format!("encap_preview disagrees: exp {:?} got {:?} [{}]", exp, pv, ctx_txt)),
                    }
                }
                result = self.enc.encap(&s.pdu, s.frag_id, md, buffer);
            } else {
                result = self.enc.encap_ext(&s.pdu, s.frag_id, md, buffer, s.exts.to_api());
            }
        } else {
            wire_label = s.wire_label;
            exp = model_next(s.pdu.len() - s.sent, b);
            let ctx = s.ctx.unwrap();
            let pv = encap_frag_preview(&s.pdu, &ctx, buffer);
            match (exp, &pv) {
                (Exp::Reject, Err(EncapError::ErrorSizeBuffer)) => {}
                (Exp::Inter(n), Ok(p)) if p.pkt_len() as usize == 3 + n && p.pdu_len() == n => {}
                (Exp::End(n), Ok(p)) if p.pkt_len() as usize == 7 + n && p.pdu_len() == n => {}
                _ => return Err(format!("encap_frag_preview disagrees: exp {:?} got {:?} [{}]", exp, pv, ctx_txt)),
            }
            result = self.enc.encap_frag(&s.pdu, &ctx, buffer);
        }

        if exp == Exp::Reject {
            st.buffers_rejected += 1;
            if b >= 13 && s.exts.list.is_empty() {
                return Err(format!("MODEL: a buffer of 13+ bytes is refused [{}]", ctx_txt));
            }
            if result != Err(EncapError::ErrorSizeBuffer) {
                return Err(format!("expected ErrorSizeBuffer, got {:?} [{}]", result, ctx_txt));
            }
            if buffer.iter().any(|&x| x != CANARY) {
                return Err(format!("a refused buffer was written [{}]", ctx_txt));
            }
            return Ok(None);
        }

        // build the expected packet and status
        if !s.started {
            s.wire_label = wire_label;
            if wire_label == Label::ReUse {
                // resolvable by the receiver ?
                match (s.label, self.rx_last) {
                    (Label::ReUse, Some(l)) => s.resolved = l,
                    (l, Some(r)) if l == r => s.resolved = l,
                    _ => {
                        return Err(format!(
                            "re-use label on the wire but the receiver remembers {:?} [{}]",
                            self.rx_last, ctx_txt
                        ))
                    }
                }
            } else {
                s.resolved = s.label;
            }
        }
        if s.crc.is_none() {
            let total_len = (s.pdu.len() + 2 + s.wire_label.len()) as u16;
            s.crc = Some(ref_crc(&[
                &total_len.to_be_bytes(),
                &s.proto.to_be_bytes(),
                &label_bytes(&s.wire_label),
                &s.pdu,
            ]));
        }
        let desc = PduDesc {
            crc: s.crc.unwrap(),
            pdu: &s.pdu,
            proto: s.proto,
            frag_id: s.frag_id,
            wire_label: s.wire_label,
            exts: &s.exts,
        };
        let exp_bytes = desc.packet(exp, s.sent);
        let exp_len = exp_bytes.len();
        let exp_status = match exp {
            Exp::Complete | Exp::End(_) => EncapStatus::CompletedPkt(exp_len as u16),
            Exp::First(n) => EncapStatus::FragmentedPkt(
                exp_len as u16,
                ContextFrag::new(s.frag_id, desc.crc(), n as u16),
            ),
            Exp::Inter(n) => EncapStatus::FragmentedPkt(
                exp_len as u16,
                ContextFrag::new(s.frag_id, desc.crc(), (s.sent + n) as u16),
            ),
            Exp::Reject => unreachable!(),
        };
        if result.as_ref().ok() != Some(&exp_status) {
            return Err(format!(
                "status differs: expected {:?} ({:?}) got {:?} [{}]",
                exp_status, exp, result, ctx_txt
            ));
        }
        if exp_len > b {
            return Err(format!("MODEL bug: packet longer than the buffer [{}]", ctx_txt));
        }
        if buffer[..exp_len] != exp_bytes[..] {
            let at = (0..exp_len).find(|&i| buffer[i] != exp_bytes[i]).unwrap();
            return Err(format!(
                "packet bytes differ at offset {}: expected {:02x?} got {:02x?} [{}]",
                at,
                &exp_bytes[at..(at + 8).min(exp_len)],
                &buffer[at..(at + 8).min(exp_len)],
                ctx_txt
            ));
        }
        if buffer[exp_len..].iter().any(|&x| x != CANARY) {
            return Err(format!("bytes written beyond the reported length {} [{}]", exp_len, ctx_txt));
        }

        // update the models
        if !s.started {
            self.reuse.commit(s.label);
            match s.wire_label {
                Label::Broadcast => self.rx_last = None,
                Label::ReUse => {}
                l => self.rx_last = Some(l),
            }
            s.started = true;
        }
        let mut last = false;
        match exp {
            Exp::Complete => {
                s.done = true;
                last = true;
            }
            Exp::First(n) => {
                if n == 0 {
                    st.first_empty += 1;
                }
                s.sent = n;
                if let Ok(EncapStatus::FragmentedPkt(_, c)) = result {
                    s.ctx = Some(c);
                }
            }
            Exp::Inter(n) => {
                s.sent += n;
                if s.sent == s.pdu.len() {
                    st.payload_not_crc += 1; // room for the payload but not for the CRC
                }
                if let Ok(EncapStatus::FragmentedPkt(_, c)) = result {
                    s.ctx = Some(c);
                }
            }
            Exp::End(n) => {
                s.sent += n;
                s.done = true;
                last = true;
            }
            Exp::Reject => unreachable!(),
        }
        s.pkts += 1;
        st.packets += 1;
        if last {
            st.pdus += 1;
            if s.pkts > 1 {
                st.pdus_fragmented += 1;
                if s.wire_label == Label::ReUse {
                    st.pdus_first_reuse += 1;
                }
            }
            st.max_pkts_per_pdu = st.max_pkts_per_pdu.max(s.pkts);
        }
        Ok(Some(Pkt {
            bytes: exp_bytes,
            reported: exp_len,
            last,
            stream: s.id,
        }))
    }
}

// ---------------------------------------------------------------------------------------------
// receiver under test
// ---------------------------------------------------------------------------------------------
#[derive(Copy, Clone)]
struct Mhem;
impl MandatoryHeaderExtensionManager for Mhem {
    // ids 0x10..=0x18 : non final, 0..=8 data bytes ; ids 0x90..=0x98 : final, 0..=8 data bytes
    fn is_mandatory_header_id_known(&self, id: u16) -> MandatoryHeaderExt {
        match id {
            0x10..=0x18 => MandatoryHeaderExt::NonFinal((id - 0x10) as u8),
            0x90..=0x98 => MandatoryHeaderExt::Final((id - 0x90) as u8),
            _ => MandatoryHeaderExt::Unknown,
        }
    }
}

struct Expect {
    pdu: Vec<u8>,
    proto: u16,
    label: Label,
    exts: Vec<Extension>,
}

struct FeedInfo<'a>(&'a Pkt, &'a Expect);
impl<'a> std::fmt::Display for FeedInfo<'a> {
    fn fmt(&self, f: &mut std::fmt::Formatter<'_>) -> std::fmt::Result {
        let (p, e) = (self.0, self.1);
        write!(
            f,
            "stream {} pdu_len={} label={:?} proto={:#06x} pkt_len={} last={} hdr={:02x?}",
            p.stream, e.pdu.len(), e.label, e.proto, p.reported, p.last, &p.bytes[..p.bytes.len().min(12)]
        )
    }
}

struct Receiver<M: MandatoryHeaderExtensionManager> {
    dec: Decapsulator<SimpleGseMemory, DefaultCrc, M>,
    storage_len: usize,
    completed: Vec<usize>, // per stream: number of completed PDUs
}

impl<M: MandatoryHeaderExtensionManager> Receiver<M> {
    fn new(slots: usize, storage_len: usize, nb_storage: usize, m: M) -> Self {
        let mut mem = SimpleGseMemory::new(slots, storage_len, 0, 0);
        for _ in 0..nb_storage {
            mem.provision_storage(vec![0x5Au8; storage_len].into_boxed_slice())
                .expect("provision");
        }
        Receiver {
            dec: Decapsulator::new(mem, DefaultCrc {}, m),
            storage_len,
            completed: vec![],
        }
    }

    /// feed `input` (which starts with packet `p`, and may be longer) and check the outcome
    fn feed(&mut self, input: &[u8], p: &Pkt, e: &Expect, st: &mut Stats) -> Result<(), String> {
        st.decaps += 1;
        if self.completed.len() <= p.stream {
            self.completed.resize(p.stream + 1, 0);
        }
        let r = self.dec.decap(input);
        let info = FeedInfo(p, e);
        match r {
            Err((err, n)) => Err(format!("decap error {:?} (consumed {}) [{}]", err, n, info)),
            Ok((status, n)) => {
                if n != p.reported {
                    return Err(format!("decap consumed {} instead of {} [{}]", n, p.reported, info));
                }
                match status {
                    DecapStatus::Padding => Err(format!("padding reported [{}]", info)),
                    DecapStatus::FragmentedPkt(md) => {
                        if p.last {
                            return Err(format!("last packet reported as fragment [{}]", info));
                        }
                        if md.label() != e.label || md.protocol_type() != e.proto || md.extensions() != &e.exts {
                            return Err(format!("fragment metadata differ: {:?} [{}]", md, info));
                        }
                        Ok(())
                    }
                    DecapStatus::CompletedPkt(buf, md) => {
                        if !p.last {
                            return Err(format!("completed before the last packet [{}]", info));
                        }
                        self.completed[p.stream] += 1;
                        if md.pdu_len() != e.pdu.len()
                            || md.label() != e.label
                            || md.protocol_type() != e.proto
                            || md.extensions() != &e.exts
                        {
                            return Err(format!("completed metadata differ: {:?} [{}]", md, info));
                        }
                        if buf.len() != self.storage_len {
                            return Err(format!("storage of another size returned: {} [{}]", buf.len(), info));
                        }
                        if buf[..e.pdu.len()] != e.pdu[..] {
                            return Err(format!("PDU bytes differ [{}]", info));
                        }
                        // give the storage back for the next PDU
                        let mut buf = buf;
                        buf.iter_mut().for_each(|b| *b = 0x5A);
                        self.dec
                            .provision_storage(buf)
                            .map_err(|e| format!("cannot give the storage back: {:?}", e))?;
                        Ok(())
                    }
                }
            }
        }
    }
}

// ---------------------------------------------------------------------------------------------
// helpers to pick corner values
// ---------------------------------------------------------------------------------------------
fn labels(rng: &mut Rng) -> Label {
    match rng.below(9) {
        0 => Label::Broadcast,
        1 => Label::ThreeBytesLabel([0, 0, 0]),
        2 => Label::ThreeBytesLabel([0xFF, 0xFF, 0xFF]),
        3 => Label::ThreeBytesLabel([rng.next() as u8, rng.next() as u8, rng.next() as u8]),
        4 => Label::SixBytesLabel([0, 0, 0, 0, 0, 1]),
        5 => Label::SixBytesLabel([0xFF; 6]),
        6 => Label::SixBytesLabel([1, 0, 0, 0, 0, 0]),
        _ => {
            let mut l = [0u8; 6];
            for b in l.iter_mut() {
                *b = rng.next() as u8;
            }
            if l == [0; 6] {
                l[3] = 9;
            }
            Label::SixBytesLabel(l)
        }
    }
}

fn protos(rng: &mut Rng) -> u16 {
    match rng.below(8) {
        0 => 0x0600,
        1 => 0x0601,
        2 => 0x0800,
        3 => 0x86DD,
        4 => 0xFFFF,
        5 => 0x06FF,
        _ => rng.range(0x0600, 0xFFFF) as u16,
    }
}

fn pdu_lens(rng: &mut Rng, label_len: usize) -> usize {
    let max = 65533 - label_len;
    match rng.below(12) {
        0 => rng.range(0, 12),
        1 => rng.range(0, 64),
        2 => rng.range(4080, 4110),
        3 => rng.range(4093 - label_len - 3, 4093 - label_len + 3),
        4 => rng.range(8170, 8200),
        5 => max - rng.below(4),
        6 => rng.range(max - 40, max),
        7 => rng.range(60, 1600),
        8 => rng.range(0, max),
        9 => rng.range(12270, 12300),
        _ => rng.range(0, 9000),
    }
}

/// buffer size for the next step, biased towards the corners relative to what is left
fn buf_size(rng: &mut Rng, profile: usize, need_start: Option<(usize, usize)>, rem: usize) -> usize {
    // need_start = Some((complete_len, first_hdr_len)) when the PDU is not started
    let around = |rng: &mut Rng, x: usize| -> usize {
        let lo = x.saturating_sub(3);
        rng.range(lo, x + 3).min(70000)
    };
    let cat = match profile {
        0 => rng.below(10),      // everything
        1 => rng.pick(&[0, 1]),  // tiny
        2 => rng.pick(&[4, 6, 7]), // large
        3 => rng.pick(&[2, 2, 1, 8]), // boundary hunting
        4 => 9,
        _ => rng.below(10),
    };
    match cat {
        0 => rng.range(0, 12),
        1 => rng.range(13, 40),
        2 => match need_start {
            Some((c, h)) => {
                if rng.below(2) == 0 {
                    around(rng, c)
                } else {
                    around(rng, h)
                }
            }
            None => around(rng, rem + 5), // rem+2..rem+8 : payload fits, CRC may not
        },
        3 => rng.range(4090, 4100),
        4 => rng.range(4098, 70000),
        5 => rng.range(41, 1500),
        6 => rng.range(65530, 70000),
        7 => rng.range(1500, 4097),
        8 => rng.pick(&[0, 1, 2, 3, 4, 5, 6, 7, 8, 9, 10, 11, 12, 13, 14]),
        _ => rng.range(0, 70000),
    }
}

fn start_need(s: &Stream, wire_len: usize) -> (usize, usize) {
    let e = s.exts.total();
    (4 + wire_len + e + s.pdu.len(), 7 + wire_len + e)
}

// ---------------------------------------------------------------------------------------------
// a complete single-PDU case: sender schedule, then receiver
// ---------------------------------------------------------------------------------------------
#[derive(Clone, Copy, Debug)]
enum Prelude {
    None,
    SameLabelComplete,       // a complete packet with the same label first: the first fragment re-uses it
    SameLabelFragmented,     // a fragmented PDU with the same label first
    ExplicitReuse,           // a labelled packet first, then the PDU is sent with Label::ReUse
    MaxConsecutive(u8),      // re-use limited to n consecutive packets, several packets first
    Disabled,                // re-use disabled, a packet with the same label first: full label expected
    DisabledThenEnabled,     // re-use disabled, same label, enabled again: the stale label is not re-used
}

struct CaseCfg {
    pdu: Vec<u8>,
    label: Label,
    proto: u16,
    frag_id: u8,
    exts: Exts,
    prelude: Prelude,
    slots: usize,
    storage_len: usize,
    nb_storage: usize,
    whole_buffer_to_decap: bool,
}

fn run_case<F: FnMut(&mut Rng, Option<(usize, usize)>, usize) -> usize>(
    cfg: &CaseCfg,
    rng: &mut Rng,
    mut sched: F,
    st: &mut Stats,
) -> Result<(), String> {
    let mut tx = Sender::new();
    let mut rx = Receiver::new(cfg.slots, cfg.storage_len, cfg.nb_storage, Mhem);
    let mut next_stream = 0usize;

    // prelude: traffic that sets the re-use state on both sides
    let mut label = cfg.label;
    let mut pre: Vec<(Vec<u8>, Label, usize)> = vec![]; // (pdu, label, buffer)
    match cfg.prelude {
        Prelude::None => {}
        Prelude::SameLabelComplete => pre.push((rng.bytes(5), cfg.label, 100)),
        Prelude::SameLabelFragmented => pre.push((rng.bytes(40.min(cfg.storage_len)), cfg.label, 20)),
        Prelude::ExplicitReuse => {
            pre.push((rng.bytes(3), cfg.label, 100));
            label = Label::ReUse;
        }
        Prelude::Disabled | Prelude::DisabledThenEnabled => {
            tx.enc.disable_re_use_label();
            tx.reuse.enabled = false;
            pre.push((rng.bytes(4), cfg.label, 100));
        }
        Prelude::MaxConsecutive(n) => {
            tx.enc.enable_re_use_label_with_max_consecutive(n);
            tx.reuse.max = n;
            for _ in 0..rng.range(1, 2 * n as usize + 2) {
                pre.push((rng.bytes(2), cfg.label, 100));
            }
        }
    }
    for (pdu, l, b) in pre {
        let mut s = Stream::new(next_stream, pdu, 0x0800, cfg.frag_id.wrapping_add(1), l, Exts::default());
        next_stream += 1;
        while !s.done {
            let mut buf = vec![CANARY; b];
            if let Some(p) = tx.offer(&mut s, &mut buf, st)? {
                let e = Expect { pdu: s.pdu.clone(), proto: s.proto, label: s.resolved, exts: vec![] };
                rx.feed(&p.bytes, &p, &e, st)?;
            }
        }
    }

    if let Prelude::DisabledThenEnabled = cfg.prelude {
        tx.enc.enable_re_use_label();
        tx.reuse.enabled = true;
        tx.reuse.last = None; // documented: labels are not recorded while re-use is disabled
        tx.reuse.cur = 0;
    }
    let mut s = Stream::new(next_stream, cfg.pdu.clone(), cfg.proto, cfg.frag_id, label, cfg.exts.clone());
    let mut pkts: Vec<(Pkt, Vec<u8>)> = vec![];
    let mut steps = 0usize;
    while !s.done {
        steps += 1;
        if steps > 400_000 {
            return Err("no termination".into());
        }
        let need = if s.started { None } else { Some(start_need(&s, tx.reuse.wire(s.label).len())) };
        let b = sched(rng, need, s.pdu.len() - s.sent);
        let mut buf = vec![CANARY; b];
        if let Some(p) = tx.offer(&mut s, &mut buf, st)? {
            if cfg.whole_buffer_to_decap {
                pkts.push((p, buf));
            } else {
                pkts.push((p, vec![]));
            }
        }
    }
    // "as soon as enough buffers of 13 bytes or more have been offered": every such buffer carries
    // at least 10 payload bytes (or the first header / the CRC), so an upper bound is
    let bound = 2 + (s.pdu.len() + 9) / 10;
    if s.exts.list.is_empty() && s.good_bufs > bound {
        return Err(format!("{} buffers of 13+ bytes were needed for {} bytes", s.good_bufs, s.pdu.len()));
    }
    let e = Expect { pdu: s.pdu.clone(), proto: s.proto, label: s.resolved, exts: cfg.exts.to_api() };
    for (p, whole) in &pkts {
        if cfg.whole_buffer_to_decap {
            rx.feed(whole, p, &e, st)?;
        } else {
            rx.feed(&p.bytes, p, &e, st)?;
        }
    }
    if rx.completed[s.id] != 1 {
        return Err(format!("{} completed PDUs", rx.completed[s.id]));
    }
    // the reassembly is closed: the end packet replayed must not complete anything
    let (p, _) = pkts.last().unwrap();
    if pkts.len() > 1 {
        match rx.dec.decap(&p.bytes) {
            Err((DecapError::ErrorMemory(DecapMemoryError::UndefinedId), n)) if n == p.reported => {}
            other => return Err(format!("replayed end packet: {:?}", other.map(|(s, n)| (s.to_str(), n)))),
        }
    }
    Ok(())
}

fn check(r: Result<(), String>, what: &str) {
    if let Err(e) = r {
        panic!("C02 VIOLATION in {}: {}", what, e);
    }
}

// ---------------------------------------------------------------------------------------------
// 1. exhaustive small domain
// ---------------------------------------------------------------------------------------------
#[test]
fn c02_exhaustive_small() {
    let mut st = Stats::default();
    let mut rng = Rng::new(1);
    let mut cases = 0usize;
    let preludes = [Prelude::None, Prelude::SameLabelComplete, Prelude::ExplicitReuse];
    let labs = [
        Label::Broadcast,
        Label::ThreeBytesLabel([0, 0, 0]),
        Label::ThreeBytesLabel([1, 2, 3]),
        Label::SixBytesLabel([0, 0, 0, 0, 0, 1]),
        Label::SixBytesLabel([9, 8, 7, 6, 5, 4]),
    ];
    let max_len = if cfg!(debug_assertions) { 30 } else { 48 };
    for pdu_len in 0..=max_len {
        let pdu = rng.bytes(pdu_len);
        for label in labs {
            for prelude in preludes {
                if label == Label::Broadcast && !matches!(prelude, Prelude::None) {
                    continue;
                }
                for b1 in 0..=(pdu_len + 16) {
                    for b2 in 0..=(pdu_len + 12).min(if cfg!(debug_assertions) { 24 } else { 60 }) {
                        // b1 for the first buffer(s) until accepted... a buffer that is refused is
                        // followed by one of 13 bytes so that the schedule always terminates
                        let cfg = CaseCfg {
                            pdu: pdu.clone(),
                            label,
                            proto: 0x0600 + (cases as u16 % 7) * 0x1111,
                            frag_id: (cases % 256) as u8,
                            exts: Exts::default(),
                            prelude,
                            slots: 1 + cases % 256,
                            storage_len: pdu_len.max(40) + (cases % 3),
                            nb_storage: 1,
                            whole_buffer_to_decap: cases % 2 == 0,
                        };
                        // b1 is offered first; if it is refused, 13 bytes follow.  Then b2 again and again;
                        // each time b2 is refused a buffer of 13 bytes follows
                        let mut start_offers = 0usize;
                        let mut refused_b2 = false;
                        let r = run_case(
                            &cfg,
                            &mut rng,
                            |_, need, rem| {
                                if need.is_some() {
                                    start_offers += 1;
                                    if start_offers == 1 { b1 } else { 13 }
                                } else if refused_b2 {
                                    refused_b2 = false;
                                    13
                                } else {
                                    refused_b2 = model_next(rem, b2) == Exp::Reject;
                                    b2
                                }
                            },
                            &mut st,
                        );
                        check(r, &format!("exhaustive pdu_len={} label={:?} prelude={:?} b1={} b2={}", pdu_len, label, prelude, b1, b2));
                        cases += 1;
                    }
                }
            }
        }
    }
    println!("c02_exhaustive_small: {} cases, {:?}", cases, st);
}

// ---------------------------------------------------------------------------------------------
// 2. constant buffer size over the corners of the length domain
// ---------------------------------------------------------------------------------------------
#[test]
fn c02_constant_schedule_corner_lengths() {
    let mut st = Stats::default();
    let mut rng = Rng::new(2);
    let mut cases = 0usize;
    let labs = [
        Label::Broadcast,
        Label::ThreeBytesLabel([0, 0, 0]),
        Label::SixBytesLabel([0xAA, 0, 0, 0, 0, 0]),
    ];
    let bufs: &[usize] = &[
        13, 14, 16, 17, 20, 100, 1000, 4089, 4090, 4091, 4092, 4093, 4094, 4095, 4096, 4097, 4098, 4099,
        4100, 5000, 8194, 65535, 65536, 70000,
    ];
    for label in labs {
        let l = label.len();
        let max = 65533 - l;
        let mut lens: Vec<usize> = vec![0, 1, 2, 3, 4, 5, 9, 10, 11, 4079, 4080];
        lens.extend(4083..=4100);
        lens.extend(8170..=8195);
        lens.extend([12282, 12283, 12284, 32767, 32768, 65000]);
        lens.extend(max - 12..=max);
        for &pdu_len in &lens {
            let pdu = rng.bytes(pdu_len);
            for prelude in [Prelude::None, Prelude::SameLabelComplete] {
                if label == Label::Broadcast && !matches!(prelude, Prelude::None) {
                    continue;
                }
                for &b in bufs {
                    if cfg!(debug_assertions) && pdu_len > 20000 && b < 100 && cases % 3 != 0 {
                        cases += 1;
                        continue;
                    }
                    let storage_len = match cases % 4 {
                        0 => pdu_len.max(40),
                        1 => pdu_len.max(40) + 1,
                        2 => 65536,
                        _ => 70000,
                    };
                    let cfg = CaseCfg {
                        pdu: pdu.clone(),
                        label,
                        proto: [0x0600u16, 0x0601, 0xFFFF, 0x86DD][cases % 4],
                        frag_id: [0u8, 1, 127, 128, 254, 255][cases % 6],
                        exts: Exts::default(),
                        prelude,
                        slots: [1usize, 2, 3, 7, 255, 256][cases % 6],
                        storage_len,
                        nb_storage: 1 + cases % 2,
                        whole_buffer_to_decap: cases % 2 == 1,
                    };
                    let r = run_case(&cfg, &mut rng, |_, _, _| b, &mut st);
                    check(r, &format!("constant pdu_len={} label={:?} prelude={:?} buffer={}", pdu_len, label, prelude, b));
                    cases += 1;
                }
            }
        }
    }
    println!("c02_constant_schedule_corner_lengths: {} cases, {:?}", cases, st);
}

// ---------------------------------------------------------------------------------------------
// 3. the longest PDUs with the smallest useful buffers (1 payload byte per packet) and refusals
// ---------------------------------------------------------------------------------------------
#[test]
fn c02_longest_pdu_smallest_buffers() {
    let mut st = Stats::default();
    let mut rng = Rng::new(3);
    let mut cases = 0;
    for (label, prelude) in [
        (Label::Broadcast, Prelude::None),
        (Label::ThreeBytesLabel([0, 0, 0]), Prelude::None),
        (Label::SixBytesLabel([1, 2, 3, 4, 5, 6]), Prelude::None),
        (Label::SixBytesLabel([1, 2, 3, 4, 5, 6]), Prelude::SameLabelComplete),
        (Label::ThreeBytesLabel([0, 0, 0]), Prelude::SameLabelFragmented),
    ] {
        let wire_len = if matches!(prelude, Prelude::None) { label.len() } else { 0 };
        for delta in 0..2 {
            let pdu_len = 65533 - wire_len - delta;
            let pdu = rng.bytes(pdu_len);
            for small in [4usize, 5, 13] {
                let cfg = CaseCfg {
                    pdu: pdu.clone(),
                    label,
                    proto: 0x0600,
                    frag_id: 255,
                    exts: Exts::default(),
                    prelude,
                    slots: 256,
                    storage_len: if cases % 2 == 0 { pdu_len } else { 70000 },
                    nb_storage: 1,
                    whole_buffer_to_decap: false,
                };
                let mut k = 0;
                // first a buffer that is just enough for the first fragment, then `small` buffers, with
                // refused buffers (0..3) in between, the CRC needs 7
                let r = run_case(
                    &cfg,
                    &mut rng,
                    |_, need, rem| {
                        k += 1;
                        if let Some((_, h)) = need {
                            if k == 1 { h - 1 } else { h }
                        } else if rem == 0 {
                            if k % 2 == 0 { 6 } else { 7 }
                        } else if k % 5 == 0 {
                            k % 4
                        } else {
                            small
                        }
                    },
                    &mut st,
                );
                check(r, &format!("longest label={:?} prelude={:?} pdu_len={} small={}", label, prelude, pdu_len, small));
                cases += 1;
            }
        }
    }
    println!("c02_longest_pdu_smallest_buffers: {} cases, {:?}", cases, st);
}

// ---------------------------------------------------------------------------------------------
// 4. the PDU just beyond the domain is refused, the last one inside is accepted
// ---------------------------------------------------------------------------------------------
#[test]
fn c02_domain_edge() {
    let mut enc = Encapsulator::new(DefaultCrc {});
    for label in [
        Label::Broadcast,
        Label::ThreeBytesLabel([0, 0, 0]),
        Label::SixBytesLabel([1, 0, 0, 0, 0, 0]),
    ] {
        for b in [13usize, 4097, 70000] {
            let pdu = vec![7u8; 65534 - label.len()];
            let mut buf = vec![0u8; b];
            enc.reset_last_label();
            let r = enc.encap(&pdu, 0, EncapMetadata::new(0x0600, label), &mut buf);
            assert_eq!(r, Err(EncapError::ErrorPduLength), "label {:?} buffer {}", label, b);
            let r = enc.encap(&pdu[1..], 0, EncapMetadata::new(0x0600, label), &mut buf);
            assert!(matches!(r, Ok(EncapStatus::FragmentedPkt(_, _))), "label {:?} buffer {}", label, b);
        }
    }
}

// ---------------------------------------------------------------------------------------------
// 5. random schedules over the whole domain
// ---------------------------------------------------------------------------------------------
#[test]
fn c02_random_schedules() {
    let mut st = Stats::default();
    let mut cases = 0usize;
    let n = 6000 * SCALE;
    let mut rng = Rng::new(0xC02);
    for i in 0..n {
        let label = labels(&mut rng);
        let prelude = if label == Label::Broadcast {
            Prelude::None
        } else {
            match rng.below(10) {
                0 | 1 => Prelude::SameLabelComplete,
                2 => Prelude::SameLabelFragmented,
                3 => Prelude::ExplicitReuse,
                4 => Prelude::MaxConsecutive(rng.range(1, 4) as u8),
                5 => Prelude::Disabled,
                6 => Prelude::DisabledThenEnabled,
                _ => Prelude::None,
            }
        };
        // the on-wire label may be empty: keep inside the domain for both
        let pdu_len = pdu_lens(&mut rng, label.len());
        let pdu = rng.bytes(pdu_len);
        let mut profile = rng.below(6);
        if pdu_len > 12000 && profile == 1 && i % 8 != 0 {
            profile = 0;
        }
        let storage_len = match rng.below(5) {
            0 => pdu_len.max(40),
            1 => pdu_len.max(40) + rng.range(1, 50),
            2 => 65535,
            3 => 65536 + rng.below(5000),
            _ => pdu_len.max(40) + rng.below(3000),
        };
        let slots = match rng.below(4) {
            0 => 1,
            1 => 256,
            _ => rng.range(1, 256),
        };
        let cfg = CaseCfg {
            pdu,
            label,
            proto: protos(&mut rng),
            frag_id: match rng.below(4) { 0 => 0, 1 => 255, _ => rng.next() as u8 },
            exts: Exts::default(),
            prelude,
            slots,
            storage_len,
            nb_storage: match rng.below(3) { 0 => 1, 1 => slots + 2, _ => rng.range(1, slots + 2) },
            whole_buffer_to_decap: rng.below(2) == 0,
        };
        let r = run_case(&cfg, &mut rng, |rng, need, rem| buf_size(rng, profile, need, rem), &mut st);
        check(r, &format!("random case {} pdu_len={} label={:?} prelude={:?} profile={}", i, pdu_len, label, prelude, profile));
        cases += 1;
    }
    println!("c02_random_schedules: {} cases, {:?}", cases, st);
}

// ---------------------------------------------------------------------------------------------
// 6. interleaved PDUs, complete packets in between, abandoned PDUs restarted on the same frag id,
//    error packets in between (not touching the label), storage exactly sufficient
// ---------------------------------------------------------------------------------------------
#[test]
fn c02_interleaved_restarts_errors() {
    let mut st = Stats::default();
    let mut rng = Rng::new(6);
    let rounds = 300 * SCALE;
    let mut abandoned = 0usize;
    let mut injected = 0usize;
    let mut completes_between = 0usize;
    let mut colliding = 0usize;
    for round in 0..rounds {
        let nstreams = rng.range(1, 6);
        let slots = match rng.below(3) { 0 => 256, 1 => nstreams, _ => rng.range(nstreams, 256) };
        // frag ids distinct modulo the number of slots (limitation of SimpleGseMemory)
        let mut ids: Vec<u8> = vec![];
        while ids.len() < nstreams {
            let c = rng.next() as u8;
            if ids.iter().all(|&i| i as usize % slots != c as usize % slots) {
                ids.push(c);
            }
        }
        let storage_len = [9000usize, 65536, 70000][rng.below(3)];
        let mut tx = Sender::new();
        if rng.below(4) == 0 {
            let n = rng.range(1, 3) as u8;
            tx.enc.enable_re_use_label_with_max_consecutive(n);
            tx.reuse.max = n;
        }
        // exactly one storage per concurrent reassembly, plus one for the complete packets
        let mut rx = Receiver::new(slots, storage_len, nstreams + 1, Mhem);
        let label_pool: Vec<Label> = (0..rng.range(1, 3)).map(|_| labels(&mut rng)).collect();
        let mut next_id = 0usize;
        let mk = |rng: &mut Rng, fid: u8, next_id: &mut usize| -> Stream {
            let label = rng.pick(&label_pool);
            let len = match rng.below(4) {
                0 => rng.range(0, 60),
                1 => rng.range(4000, 4200),
                2 => rng.range(0, 9000.min(storage_len)),
                _ => rng.range(0, 600),
            };
            let s = Stream::new(*next_id, rng.bytes(len), protos(rng), fid, label, Exts::default());
            *next_id += 1;
            s
        };
        let mut streams: Vec<Stream> = ids.iter().map(|&f| mk(&mut rng, f, &mut next_id)).collect();
        let mut remaining_new = rng.range(2, 12);
        let profile = rng.below(6);
        let mut steps = 0;
        loop {
            steps += 1;
            assert!(steps < 200_000);
            let live: Vec<usize> = (0..streams.len()).filter(|&i| !streams[i].done).collect();
            if live.is_empty() {
                break;
            }
            let i = rng.pick(&live);
            // sometimes abandon a started PDU and restart another one on the same frag id
            if streams[i].started && streams[i].pkts >= 1 && rng.below(40) == 0 {
                abandoned += 1;
                let fid = streams[i].frag_id;
                streams[i] = mk(&mut rng, fid, &mut next_id);
                // make sure the new one is fragmented or complete, both are fine
            }
            // sometimes an unrelated complete PDU in between (moves the re-use state)
            if rng.below(6) == 0 {
                completes_between += 1;
                let label = rng.pick(&label_pool);
                let mut c = Stream::new(next_id, { let n = rng.range(0, 30); rng.bytes(n) }, protos(&mut rng), 77, label, Exts::default());
                next_id += 1;
                let mut buf = vec![CANARY; 100];
                let p = tx.offer(&mut c, &mut buf, &mut st).unwrap_or_else(|e| panic!("C02 VIOLATION interleaved round {}: {}", round, e)).unwrap();
                assert!(p.last);
                let e = Expect { pdu: c.pdu.clone(), proto: c.proto, label: c.resolved, exts: vec![] };
                check(rx.feed(&buf, &p, &e, &mut st), &format!("interleaved round {} (complete in between)", round));
            }
            // sometimes packets that are refused without touching the remembered label:
            // fragments of a frag id that is not being reassembled
            if rng.below(10) == 0 {
                injected += 1;
                let mut free = rng.next() as u8;
                while streams.iter().any(|s| s.frag_id as usize % slots == free as usize % slots) && slots > nstreams {
                    free = free.wrapping_add(1);
                }
                if streams.iter().all(|s| s.frag_id as usize % slots != free as usize % slots) {
                    let bogus = [0x70, 0x06, free, 1, 2, 3, 4, 5];
                    match rx.dec.decap(&bogus) {
                        Err((DecapError::ErrorMemory(DecapMemoryError::UndefinedId), 8)) => {}
                        o => panic!("bogus end packet: {:?}", o.map(|(s, n)| (s.to_str(), n))),
                    }
                    let bogus = [0x30, 0x03, free, 1, 2];
                    match rx.dec.decap(&bogus) {
                        Err((DecapError::ErrorMemory(DecapMemoryError::UndefinedId), 5)) => {}
                        o => panic!("bogus intermediate packet: {:?}", o.map(|(s, n)| (s.to_str(), n))),
                    }
                }
            }
            // ... and fragments of another frag id that falls into the slot of a reassembly in progress:
            // refused, and the reassembly in progress must not suffer
            if slots < 256 && rng.below(8) == 0 {
                let f = streams[i].frag_id as usize;
                let other = if f + slots < 256 { Some(f + slots) } else if f >= slots { Some(f - slots) } else { None };
                if let Some(other) = other {
                    colliding += 1;
                    let bogus = [0x70, 0x06, other as u8, 1, 2, 3, 4, 5];
                    match rx.dec.decap(&bogus) {
                        Err((DecapError::ErrorMemory(DecapMemoryError::UndefinedId), 8)) => {}
                        o => panic!("colliding end packet: {:?}", o.map(|(s, n)| (s.to_str(), n))),
                    }
                    let bogus = [0x30, 0x03, other as u8, 1, 2];
                    match rx.dec.decap(&bogus) {
                        Err((DecapError::ErrorMemory(DecapMemoryError::UndefinedId), 5)) => {}
                        o => panic!("colliding intermediate packet: {:?}", o.map(|(s, n)| (s.to_str(), n))),
                    }
                }
            }
            let s = &mut streams[i];
            let need = if s.started { None } else { Some(start_need(s, tx.reuse.wire(s.label).len())) };
            let b = buf_size(&mut rng, profile, need, s.pdu.len() - s.sent);
            let mut buf = vec![CANARY; b];
            let r = tx.offer(s, &mut buf, &mut st);
            let p = match r {
                Err(e) => panic!("C02 VIOLATION interleaved round {}: {}", round, e),
                Ok(None) => continue,
                Ok(Some(p)) => p,
            };
            let e = Expect { pdu: s.pdu.clone(), proto: s.proto, label: s.resolved, exts: vec![] };
            check(rx.feed(&buf, &p, &e, &mut st), &format!("interleaved round {} slots {} ids {:?}", round, slots, ids));
            if s.done {
                if rx.completed[s.id] != 1 {
                    panic!("C02 VIOLATION: stream completed {} times", rx.completed[s.id]);
                }
                if remaining_new > 0 {
                    remaining_new -= 1;
                    let fid = s.frag_id;
                    streams[i] = mk(&mut rng, fid, &mut next_id);
                }
            }
        }
        for (id, &c) in rx.completed.iter().enumerate() {
            assert!(c <= 1, "stream {} completed {} times", id, c);
        }
    }
    println!(
        "c02_interleaved_restarts_errors: {} rounds, {} abandoned+restarted, {} refused packets injected (free slot), {} (occupied slot, other frag id), {} complete PDUs in between, {:?}",
        rounds, abandoned, injected, colliding, completes_between, st
    );
}

// ---------------------------------------------------------------------------------------------
// 7. base band frame packing: the output buffers are what is left of the current frame, the receiver
//    walks the frames (packets then padding) and is given the rest of the frame each time
// ---------------------------------------------------------------------------------------------
#[test]
fn c02_frame_walking() {
    let mut st = Stats::default();
    let mut rng = Rng::new(7);
    let rounds = 150 * SCALE;
    let mut frames = 0usize;
    let mut paddings = 0usize;
    for round in 0..rounds {
        let storage_len = 20000;
        let mut tx = Sender::new();
        let mut rx = Receiver::new(256, storage_len, 2, SimpleMandatoryExtensionHeaderManager {});
        let frame_kind = rng.below(5);
        let label_pool: Vec<Label> = (0..rng.range(1, 3)).map(|_| labels(&mut rng)).collect();
        let npdus = rng.range(3, 25);
        let mut frame: Vec<u8> = vec![];
        let mut off = 0usize;
        let mut in_frame: Vec<(Pkt, Expect)> = vec![];
        let mut next_id = 0;
        let flush = |frame: &Vec<u8>, in_frame: &mut Vec<(Pkt, Expect)>, rx: &mut Receiver<SimpleMandatoryExtensionHeaderManager>, st: &mut Stats, paddings: &mut usize| {
            let mut pos = 0usize;
            for (p, e) in in_frame.iter() {
                check(rx.feed(&frame[pos..], p, e, st), &format!("frame walking round {}", round));
                pos += p.reported;
            }
            in_frame.clear();
            if frame.len() - pos >= 2 {
                match rx.dec.decap(&frame[pos..]) {
                    Ok((DecapStatus::Padding, n)) if n == frame.len() - pos => *paddings += 1,
                    o => panic!("padding expected at {} of {}: {:?}", pos, frame.len(), o.map(|(s, n)| (s.to_str(), n))),
                }
            } else {
                // nothing walkable is left: new frame anyway
                rx.dec.reset_last_label();
            }
        };
        for k in 0..npdus {
            let label = rng.pick(&label_pool);
            let len = match rng.below(5) {
                0 => rng.range(0, 40),
                1 => rng.range(4050, 4150),
                2 => rng.range(0, storage_len),
                _ => rng.range(0, 1500),
            };
            let mut s = Stream::new(next_id, rng.bytes(len), protos(&mut rng), k as u8, label, Exts::default());
            next_id += 1;
            let mut refused_on_empty_frame = 0;
            while !s.done {
                if off >= frame.len() {
                    // open a new frame
                    if !frame.is_empty() {
                        flush(&frame, &mut in_frame, &mut rx, &mut st, &mut paddings);
                    }
                    let size = match frame_kind {
                        0 => rng.range(13, 60),
                        1 => rng.range(60, 2000),
                        2 => rng.range(4000, 8200),
                        3 => rng.range(13, 70000),
                        _ => rng.pick(&[16usize, 100, 2001, 4097, 4098, 7274, 8100, 65535]),
                    };
                    frame = vec![CANARY; size];
                    off = 0;
                    frames += 1;
                    tx.new_frame();
                }
                let r = tx.offer(&mut s, &mut frame[off..], &mut st);
                match r {
                    Err(e) => panic!("C02 VIOLATION frame walking round {}: {}", round, e),
                    Ok(None) => {
                        if off == 0 {
                            refused_on_empty_frame += 1;
                            assert!(refused_on_empty_frame < 3);
                        }
                        // pad the rest of the frame
                        frame[off..].iter_mut().for_each(|b| *b = 0);
                        off = frame.len();
                    }
                    Ok(Some(p)) => {
                        off += p.reported;
                        let e = Expect { pdu: s.pdu.clone(), proto: s.proto, label: s.resolved, exts: vec![] };
                        in_frame.push((p, e));
                        // sometimes close the frame early
                        if rng.below(12) == 0 {
                            frame[off..].iter_mut().for_each(|b| *b = 0);
                            off = frame.len();
                        }
                    }
                }
            }
        }
        frame[off..].iter_mut().for_each(|b| *b = 0);
        flush(&frame, &mut in_frame, &mut rx, &mut st, &mut paddings);
        for (id, &c) in rx.completed.iter().enumerate() {
            assert_eq!(c, 1, "stream {} completed {} times", id, c);
        }
        assert_eq!(rx.completed.len(), npdus);
    }
    println!("c02_frame_walking: {} rounds, {} frames, {} paddings walked, {:?}", rounds, frames, paddings, st);
}

// ---------------------------------------------------------------------------------------------
// 8. error paths (storage handed back or reassembly left pending), followed by valid traffic on the
//    same frag id; the receiver lives over several cycles with two storages only: a leaked storage
//    would exhaust it
// ---------------------------------------------------------------------------------------------
#[test]
fn c02_errors_then_valid_traffic() {
    let mut st = Stats::default();
    let mut rng = Rng::new(8);
    let rounds = 120 * SCALE;
    let mut kinds = [0usize; 6];
    for round in 0..rounds {
        let storage_len = 5000;
        let slots = rng.range(1, 256);
        let mut tx = Sender::new();
        let mut rx = Receiver::new(slots, storage_len, 2, Mhem);
        let fid = rng.next() as u8;
        let mut next_id = 0usize;
        for _cycle in 0..5 {
            // a PDU that will be damaged
            let label = labels(&mut rng);
            let victim = { let n = rng.range(30, 4900); rng.bytes(n) };
            let mut s = Stream::new(next_id, victim, 0x0800, fid, label, Exts::default());
            next_id += 1;
            let kind = rng.below(6);
            kinds[kind] += 1;
            let mut npk = 0;
            while !s.done {
                let b = rng.range(20, 900);
                let mut buf = vec![CANARY; b];
                let before = s.sent;
                let p = tx.offer(&mut s, &mut buf, &mut st).unwrap().unwrap();
                npk += 1;
                let e = Expect { pdu: s.pdu.clone(), proto: s.proto, label: s.resolved, exts: vec![] };
                if p.last && npk > 1 && kind <= 1 {
                    // corrupt the CRC (0) or the payload (1) of the end packet
                    let mut bad = p.bytes.clone();
                    let at = if kind == 0 || bad.len() == 7 { bad.len() - 1 } else { 3 };
                    bad[at] ^= 0x40;
                    match rx.dec.decap(&bad) {
                        Err((DecapError::ErrorCrc, n)) if n == p.reported => {}
                        o => panic!("corrupted end: {:?}", o.map(|(s, n)| (s.to_str(), n))),
                    }
                } else if (kind == 2 || kind == 5) && npk == 2 {
                    // the PDU is abandoned after one packet received, the reassembly stays pending
                    break;
                } else if kind == 3 && npk == 2 {
                    // truncated packet: refused, the label is forgotten, the pending reassembly is kept
                    match rx.dec.decap(&p.bytes[..p.bytes.len() - 1]) {
                        Err((DecapError::ErrorSizeBuffer, _)) => {}
                        o => panic!("truncated: {:?}", o.map(|(s, n)| (s.to_str(), n))),
                    }
                    tx.new_frame(); // both sides forget
                    rx.dec.reset_last_label();
                    check(rx.feed(&p.bytes, &p, &e, &mut st), "after truncated copy");
                } else if kind == 4 && npk == 2 {
                    // a foreign intermediate packet of 4094 bytes on the same frag id
                    let mut big = vec![0x11u8; 4097];
                    big[0] = 0x3F;
                    big[1] = 0xFF;
                    big[2] = s.frag_id;
                    let fits = before + 4094 <= storage_len;
                    match rx.dec.decap(&big) {
                        Ok((DecapStatus::FragmentedPkt(_), 4097)) if fits => {}
                        Err((DecapError::ErrorSizePduBuffer, 4097)) if !fits => {}
                        o => panic!("big intermediate (fits {}): {:?}", fits, o.map(|(s, n)| (s.to_str(), n))),
                    }
                    break;
                } else {
                    check(rx.feed(&p.bytes, &p, &e, &mut st), "victim traffic");
                }
            }
            if kind == 5 {
                // unknown mandatory extension in a first fragment of the same frag id: refused, the label is
                // forgotten and the pending reassembly is dropped
                let bad_first = [0xA0u8, 0x07, fid, 0x00, 0x20, 0x00, 0x55, 1, 2];
                match rx.dec.decap(&bad_first) {
                    Err((DecapError::ErrorUnkownMandatoryHeader, 9)) => {}
                    o => panic!("unknown mandatory: {:?}", o.map(|(s, n)| (s.to_str(), n))),
                }
            }
            tx.new_frame();
            rx.dec.reset_last_label();
            // valid traffic on the same frag id: must round trip
            for _ in 0..3 {
                let label = labels(&mut rng);
                let pdu = { let n = rng.range(0, 4900); rng.bytes(n) };
                let mut s2 = Stream::new(next_id, pdu, protos(&mut rng), fid, label, Exts::default());
                next_id += 1;
                while !s2.done {
                    let need = if s2.started { None } else { Some(start_need(&s2, tx.reuse.wire(s2.label).len())) };
                    let b = buf_size(&mut rng, 0, need, s2.pdu.len() - s2.sent);
                    let mut buf = vec![CANARY; b];
                    match tx.offer(&mut s2, &mut buf, &mut st) {
                        Err(e) => panic!("C02 VIOLATION after error kind {} round {}: {}", kind, round, e),
                        Ok(None) => {}
                        Ok(Some(p)) => {
                            let e = Expect { pdu: s2.pdu.clone(), proto: s2.proto, label: s2.resolved, exts: vec![] };
                            check(rx.feed(&buf, &p, &e, &mut st), &format!("valid traffic after error kind {} round {}", kind, round));
                        }
                    }
                }
                assert_eq!(rx.completed[s2.id], 1);
            }
        }
    }
    println!("c02_errors_then_valid_traffic: {} rounds x 5 cycles, kinds {:?}, {:?}", rounds, kinds, st);
}

// ---------------------------------------------------------------------------------------------
// 8b. every frag id with every number of slots (1 storage): the slot arithmetic never matters
// ---------------------------------------------------------------------------------------------
#[test]
fn c02_all_frag_ids_all_slots() {
    let mut st = Stats::default();
    let mut rng = Rng::new(81);
    let mut cases = 0;
    let step = if cfg!(debug_assertions) { 5 } else { 1 };
    for slots in (1..=256usize).step_by(step).chain([255usize, 256]) {
        for fid in 0..=255u8 {
            let pdu_len = 20 + (fid as usize % 7);
            let cfg = CaseCfg {
                pdu: rng.bytes(pdu_len),
                label: Label::ThreeBytesLabel([fid, 0, 0]),
                proto: 0x0600,
                frag_id: fid,
                exts: Exts::default(),
                prelude: Prelude::None,
                slots,
                storage_len: pdu_len,
                nb_storage: 1,
                whole_buffer_to_decap: false,
            };
            let r = run_case(&cfg, &mut rng, |_, _, _| 16, &mut st);
            check(r, &format!("frag id {} slots {}", fid, slots));
            cases += 1;
        }
    }
    println!("c02_all_frag_ids_all_slots: {} cases, {:?}", cases, st);
}

// ---------------------------------------------------------------------------------------------
// 8c. outside the property (storage NOT sufficient): the reassembly is refused without panic and without
//     a completed PDU, the single storage comes back, and valid traffic on the same frag id round trips
// ---------------------------------------------------------------------------------------------
#[test]
fn c02_storage_too_small_then_valid() {
    let mut st = Stats::default();
    let mut rng = Rng::new(82);
    let rounds = 300 * SCALE;
    let mut refused_at = [0usize; 3]; // first / intermediate / end
    for round in 0..rounds {
        let storage_len = rng.range(0, 3000);
        let slots = rng.range(1, 256);
        let fid = rng.next() as u8;
        let mut tx = Sender::new();
        let mut rx = Receiver::new(slots, storage_len, 1, Mhem);
        let mut next_id = 0;
        for _cycle in 0..3 {
            let label = labels(&mut rng);
            let over = match rng.below(3) { 0 => 1, 1 => rng.range(1, 20), _ => rng.range(1, 6000) };
            let pdu = rng.bytes(storage_len + over);
            let mut s = Stream::new(next_id, pdu, 0x0800, fid, label, Exts::default());
            next_id += 1;
            let profile = rng.below(6);
            let mut refused = false;
            while !s.done {
                let need = if s.started { None } else { Some(start_need(&s, tx.reuse.wire(s.label).len())) };
                let b = buf_size(&mut rng, profile, need, s.pdu.len() - s.sent);
                let mut buf = vec![CANARY; b];
                let before = s.sent;
                let p = match tx.offer(&mut s, &mut buf, &mut st).unwrap() { None => continue, Some(p) => p };
                let is_first = before == 0 && s.pkts == 1;
                let r = rx.dec.decap(&buf);
                let got = if p.last && s.pkts == 1 { s.pdu.len() } else { s.sent }; // complete packet: everything
                let fits = got <= storage_len;
                match r {
                    Ok((DecapStatus::CompletedPkt(..), _)) => panic!("round {}: PDU of {} bytes completed in a storage of {}", round, s.pdu.len(), storage_len),
                    Ok((DecapStatus::FragmentedPkt(_), n)) if !refused && fits && n == p.reported => {}
                    Err((DecapError::ErrorSizePduBuffer, n)) if !refused && !fits && n == p.reported => {
                        refused = true;
                        refused_at[if is_first { 0 } else if p.last { 2 } else { 1 }] += 1;
                    }
                    Err((DecapError::ErrorMemory(DecapMemoryError::UndefinedId), n)) if refused && !is_first && n == p.reported => {}
                    o => panic!("round {}: storage {} pdu {} sent {} refused {}: {:?}", round, storage_len, s.pdu.len(), s.sent, refused, o.map(|(s, n)| (s.to_str(), n))),
                }
            }
            assert!(refused);
            tx.new_frame();
            rx.dec.reset_last_label();
            for _ in 0..2 {
                let label = labels(&mut rng);
                let pdu = { let n = rng.range(0, storage_len); rng.bytes(n) };
                let mut s2 = Stream::new(next_id, pdu, protos(&mut rng), fid, label, Exts::default());
                next_id += 1;
                while !s2.done {
                    let need = if s2.started { None } else { Some(start_need(&s2, tx.reuse.wire(s2.label).len())) };
                    let b = buf_size(&mut rng, 0, need, s2.pdu.len() - s2.sent);
                    let mut buf = vec![CANARY; b];
                    if let Some(p) = tx.offer(&mut s2, &mut buf, &mut st).unwrap() {
                        let e = Expect { pdu: s2.pdu.clone(), proto: s2.proto, label: s2.resolved, exts: vec![] };
                        check(rx.feed(&buf, &p, &e, &mut st), &format!("valid traffic after a too small storage, round {}", round));
                    }
                }
            }
        }
    }
    println!("c02_storage_too_small_then_valid: {} rounds x 3 cycles, refused at first-or-complete/intermediate/end {:?}, {:?}", rounds, refused_at, st);
}

// ---------------------------------------------------------------------------------------------
// 9. (beyond the statement, which names encap only) the same round trip through encap_ext:
//    every H-LEN class, final / non final mandatory extensions with 0..8 data bytes
// ---------------------------------------------------------------------------------------------
fn random_exts(rng: &mut Rng) -> (Exts, Option<u16>) {
    let n = rng.range(1, 4);
    let mut list = vec![];
    for _ in 0..n {
        match rng.below(7) {
            0 => {
                let k = rng.below(9);
                list.push((0x10 + k as u16, rng.bytes(k)));
            }
            h => {
                let h = h.min(5);
                let id = ((h as u16) << 8) | (rng.next() as u8 as u16);
                list.push((id, rng.bytes([0, 0, 2, 4, 6, 8][h])));
            }
        }
    }
    if rng.below(3) == 0 {
        let k = rng.below(9);
        let id = 0x90 + k as u16;
        list.push((id, rng.bytes(k)));
        (Exts { list, final_mandatory: true }, Some(id))
    } else {
        (Exts { list, final_mandatory: false }, None)
    }
}

#[test]
fn c02_ext_round_trip() {
    let mut st = Stats::default();
    let mut rng = Rng::new(9);
    let n = 3000 * SCALE;
    let mut finals = 0;
    for i in 0..n {
        let label = labels(&mut rng);
        let (exts, final_id) = random_exts(&mut rng);
        if final_id.is_some() {
            finals += 1;
        }
        let pdu_len = match rng.below(6) {
            0 => rng.range(0, 30),
            1 => rng.range(4040, 4100),
            2 => 65533 - label.len() - rng.below(3),
            _ => rng.range(0, 9000),
        };
        let prelude = if label == Label::Broadcast || rng.below(3) > 0 { Prelude::None } else { Prelude::SameLabelComplete };
        let profile = rng.below(6);
        let cfg = CaseCfg {
            pdu: rng.bytes(pdu_len),
            label,
            proto: final_id.unwrap_or_else(|| protos(&mut rng)),
            frag_id: rng.next() as u8,
            exts,
            prelude,
            slots: rng.range(1, 256),
            storage_len: pdu_len.max(40) + rng.below(2),
            nb_storage: 1,
            whole_buffer_to_decap: rng.below(2) == 0,
        };
        let r = run_case(
            &cfg,
            &mut rng,
            |rng, need, rem| {
                let b = buf_size(rng, profile, need, rem);
                // the first header with extensions can need up to 13 + 4*10 bytes: do not starve
                if need.is_some() && rng.below(3) == 0 { b.max(70) } else { b }
            },
            &mut st,
        );
        check(r, &format!("ext case {} pdu_len={} label={:?} exts={:?}", i, pdu_len, label, cfg.exts));
    }
    println!("c02_ext_round_trip: {} cases ({} with a final mandatory extension), {:?}", n, finals, st);
}
