// Model-based / differential harness for property C04
// "Label re-use never attributes a PDU to a label the sender did not intend".
//
// Public API only.  Copy to tests/harness_C04.rs and run
//   CARGO_NET_OFFLINE=true cargo test --offline --test harness_C04 -- --nocapture
//   CARGO_NET_OFFLINE=true cargo test --offline --release --test harness_C04 -- --nocapture
//
// Three independent oracles are used:
//  * RefRx      : a reference of the *receiver-only* statement, working on the wire bytes alone
//                 (the label a re-use packet may be resolved to is the one carried by the nearest
//                 preceding start/complete packet of the same frame, or the packet is rejected)
//  * tx check   : on the packets the sender produced, a packet of a PDU given with an explicit
//                 label must resolve (by RefRx) to exactly that label
//  * rx check   : every PDU delivered by the real Decapsulator is compared (label, protocol type,
//                 extensions, content) with the PDU the harness knows the packet belongs to; in
//                 strict mode (sufficient storage, no foreign traffic) every PDU sent with an
//                 explicit or broadcast label must be delivered.

use std::collections::BTreeMap;

use dvb_gse_rust::crc::{CrcCalculator, DefaultCrc};
use dvb_gse_rust::gse_decap::{DecapError, DecapStatus, Decapsulator, GseDecapMemory, SimpleGseMemory};
use dvb_gse_rust::gse_encap::{ContextFrag, EncapError, EncapMetadata, EncapStatus, Encapsulator};
use dvb_gse_rust::header_extension::{Extension, MandatoryHeaderExt, MandatoryHeaderExtensionManager};
use dvb_gse_rust::label::Label;

// ---------------------------------------------------------------------------------------------
// small deterministic PRNG
// ---------------------------------------------------------------------------------------------
struct Rng(u64);
impl Rng {
    fn next(&mut self) -> u64 {
        self.0 = self.0.wrapping_add(0x9E37_79B9_7F4A_7C15);
        let mut z = self.0;
        z = (z ^ (z >> 30)).wrapping_mul(0xBF58_476D_1CE4_E5B9);
        z = (z ^ (z >> 27)).wrapping_mul(0x94D0_49BB_1331_11EB);
        z ^ (z >> 31)
    }
    fn below(&mut self, n: usize) -> usize {
        if n == 0 {
            0
        } else {
            (self.next() % n as u64) as usize
        }
    }
    fn range(&mut self, lo: usize, hi: usize) -> usize {
        lo + self.below(hi - lo + 1)
    }
    fn chance(&mut self, pct: usize) -> bool {
        self.below(100) < pct
    }
    fn pick<T: Copy>(&mut self, s: &[T]) -> T {
        s[self.below(s.len())]
    }
}

// ---------------------------------------------------------------------------------------------
// statistics
// ---------------------------------------------------------------------------------------------
#[derive(Default)]
struct Stats(BTreeMap<String, u64>);
impl Stats {
    fn hit(&mut self, k: &str) {
        *self.0.entry(k.to_string()).or_insert(0) += 1;
    }
    fn add(&mut self, k: &str, n: u64) {
        *self.0.entry(k.to_string()).or_insert(0) += n;
    }
    fn print(&self, title: &str) {
        println!("==== {title} ====");
        for (k, v) in &self.0 {
            println!("  {k:<58} {v}");
        }
    }
}

// ---------------------------------------------------------------------------------------------
// mandatory extension manager of the receiver (function of the id only)
// ---------------------------------------------------------------------------------------------
#[derive(Clone, Copy)]
struct Mgr;
impl MandatoryHeaderExtensionManager for Mgr {
    fn is_mandatory_header_id_known(&self, id: u16) -> MandatoryHeaderExt {
        match id {
            0x10..=0x18 => MandatoryHeaderExt::NonFinal((id - 0x10) as u8),
            0x20..=0x28 => MandatoryHeaderExt::Final((id - 0x20) as u8),
            0x00 | 0x81 | 0x82 => MandatoryHeaderExt::Final(0),
            0xFF => MandatoryHeaderExt::NonFinal(0),
            _ => MandatoryHeaderExt::Unknown,
        }
    }
}

type Dec = Decapsulator<SimpleGseMemory, DefaultCrc, Mgr>;

// ---------------------------------------------------------------------------------------------
// reference wire parser (independent of the crate)
// ---------------------------------------------------------------------------------------------
#[derive(Clone, Copy, PartialEq, Eq, Debug)]
enum Kind {
    Complete,
    First,
    Inter,
    End,
    Padding,
}
#[derive(Clone, Copy, PartialEq, Eq, Debug)]
enum WireLabel {
    Six([u8; 6]),
    Three([u8; 3]),
    Bcast,
    Reuse,
    Unreadable,
}
#[derive(Clone, Copy, Debug)]
struct Wire {
    kind: Kind,
    gse_len: usize,
    frag_id: Option<u8>,
    label: WireLabel,
}

fn parse_wire(b: &[u8]) -> Option<Wire> {
    if b.len() < 2 {
        return None;
    }
    let h = u16::from_be_bytes([b[0], b[1]]);
    let s = h & 0x8000 != 0;
    let e = h & 0x4000 != 0;
    let lt = (h >> 12) & 3;
    let gse_len = (h & 0x0FFF) as usize;
    let kind = match (s, e) {
        (true, true) => Kind::Complete,
        (true, false) => Kind::First,
        (false, true) => Kind::End,
        (false, false) => {
            if lt == 0 {
                Kind::Padding
            } else {
                Kind::Inter
            }
        }
    };
    let avail = b.len().min(gse_len + 2);
    let pkt = &b[..avail];
    let frag_id = match kind {
        Kind::First | Kind::Inter | Kind::End => pkt.get(2).copied(),
        _ => None,
    };
    let off = match kind {
        Kind::Complete => 4,
        Kind::First => 7,
        _ => 0,
    };
    let label = match kind {
        Kind::Complete | Kind::First => match lt {
            0 => match pkt.get(off..off + 6) {
                Some(x) => WireLabel::Six(x.try_into().unwrap()),
                None => WireLabel::Unreadable,
            },
            1 => match pkt.get(off..off + 3) {
                Some(x) => WireLabel::Three(x.try_into().unwrap()),
                None => WireLabel::Unreadable,
            },
            2 => WireLabel::Bcast,
            _ => WireLabel::Reuse,
        },
        _ => WireLabel::Reuse,
    };
    Some(Wire {
        kind,
        gse_len,
        frag_id,
        label,
    })
}

// ---------------------------------------------------------------------------------------------
// reference of the receiver-only statement
// ---------------------------------------------------------------------------------------------
#[derive(Clone, Copy, PartialEq, Eq, Debug)]
enum Exp {
    Label(Label),
    MustReject,
}

struct RefRx {
    /// label carried by the nearest preceding start/complete packet of the frame (None: broadcast,
    /// unreadable, invalid, or no such packet: a re-use label can not be resolved)
    carried: Option<Label>,
    /// label resolved for the most recent accepted first fragment of each frag id
    first_label: [Option<Label>; 256],
}

impl RefRx {
    fn new() -> Self {
        RefRx {
            carried: None,
            first_label: [None; 256],
        }
    }
    fn reset(&mut self) {
        self.carried = None;
    }
    fn expect(&self, w: &Wire) -> Exp {
        match w.label {
            WireLabel::Six(l) => {
                if l == [0; 6] {
                    Exp::MustReject
                } else {
                    Exp::Label(Label::SixBytesLabel(l))
                }
            }
            WireLabel::Three(l) => Exp::Label(Label::ThreeBytesLabel(l)),
            WireLabel::Bcast => Exp::Label(Label::Broadcast),
            WireLabel::Reuse => match self.carried {
                Some(l) => Exp::Label(l),
                None => Exp::MustReject,
            },
            WireLabel::Unreadable => Exp::MustReject,
        }
    }
    fn update(&mut self, w: &Wire) {
        match w.label {
            WireLabel::Six(l) => {
                self.carried = if l == [0; 6] {
                    None
                } else {
                    Some(Label::SixBytesLabel(l))
                }
            }
            WireLabel::Three(l) => self.carried = Some(Label::ThreeBytesLabel(l)),
            WireLabel::Bcast | WireLabel::Unreadable => self.carried = None,
            WireLabel::Reuse => {}
        }
    }

    /// Checks one decap call against the receiver-only statement and updates the reference.
    /// Returns what a start/complete packet was allowed to resolve to (before the update).
    fn observe(
        &mut self,
        buf: &[u8],
        res: &Result<(DecapStatus, usize), (DecapError, usize)>,
        stats: &mut Stats,
    ) -> Option<Exp> {
        let Some(w) = parse_wire(buf) else {
            assert!(res.is_err(), "a buffer shorter than a header was accepted");
            return None;
        };
        // consumed length: the packet or the whole buffer
        let consumed = match res {
            Ok((_, n)) => *n,
            Err((_, n)) => *n,
        };
        assert!(
            consumed == w.gse_len + 2 || consumed == buf.len(),
            "consumed {consumed}, gse_len {} buffer {}",
            w.gse_len,
            buf.len()
        );
        if res.is_ok() && w.kind != Kind::Padding {
            assert_eq!(consumed, w.gse_len + 2);
        }
        match w.kind {
            Kind::Padding => {
                assert!(matches!(res, Ok((DecapStatus::Padding, _))));
                None
            }
            Kind::Complete | Kind::First => {
                let exp = self.expect(&w);
                match res {
                    Ok((DecapStatus::CompletedPkt(_, md), _)) => {
                        assert_eq!(w.kind, Kind::Complete);
                        assert_eq!(exp, Exp::Label(md.label()), "complete packet: wrong label");
                        if w.label == WireLabel::Reuse {
                            stats.hit("rx-only: re-use complete packet resolved and checked");
                        }
                    }
                    Ok((DecapStatus::FragmentedPkt(md), _)) => {
                        assert_eq!(w.kind, Kind::First);
                        assert_eq!(exp, Exp::Label(md.label()), "first fragment: wrong label");
                        self.first_label[w.frag_id.unwrap() as usize] = Some(md.label());
                        if w.label == WireLabel::Reuse {
                            stats.hit("rx-only: re-use first fragment resolved and checked");
                        }
                    }
                    Ok((DecapStatus::Padding, _)) => panic!("start packet reported as padding"),
                    Err(_) => {
                        if w.label == WireLabel::Reuse && self.carried.is_none() {
                            stats.hit("rx-only: unresolvable re-use packet rejected");
                        }
                    }
                }
                self.update(&w);
                Some(exp)
            }
            Kind::Inter | Kind::End => {
                match res {
                    Ok((DecapStatus::CompletedPkt(_, md), _)) => {
                        assert_eq!(w.kind, Kind::End);
                        let f = w.frag_id.unwrap() as usize;
                        assert_eq!(
                            Some(md.label()),
                            self.first_label[f],
                            "end packet: label differs from the one resolved at the first fragment"
                        );
                        self.first_label[f] = None;
                        stats.hit("rx-only: reassembled PDU label checked");
                    }
                    Ok((DecapStatus::FragmentedPkt(md), _)) => {
                        assert_eq!(w.kind, Kind::Inter);
                        let f = w.frag_id.unwrap() as usize;
                        assert_eq!(Some(md.label()), self.first_label[f]);
                    }
                    Ok((DecapStatus::Padding, _)) => panic!("fragment reported as padding"),
                    Err(_) => {}
                }
                None
            }
        }
    }
}

// ---------------------------------------------------------------------------------------------
// sender side: produces events
// ---------------------------------------------------------------------------------------------
#[derive(Clone, Debug)]
struct Pdu {
    content: Vec<u8>,
    user_label: Label,
    ptype: u16,
    /// extensions the receiver must report
    exts: Vec<Extension>,
    frag_id: u8,
}

#[derive(Clone, Copy, PartialEq, Eq, Debug)]
enum Role {
    Complete,
    First,
    Inter,
    End,
}

#[derive(Clone, Debug)]
enum Event {
    Packet { bytes: Vec<u8>, role: Role, pdu: usize },
    Reset,
    Inject(Vec<u8>),
}

struct Sender {
    enc: Encapsulator<DefaultCrc>,
    pdus: Vec<Pdu>,
    events: Vec<Event>,
    flights: Vec<(usize, ContextFrag)>,
    tx_ref: RefRx,
}

fn is_explicit(l: &Label) -> bool {
    !matches!(l, Label::ReUse)
}

fn make_content(idx: usize, len: usize) -> Vec<u8> {
    let mut v = Vec::with_capacity(len);
    let tag = (idx as u64).wrapping_mul(0x9E37_79B9_7F4A_7C15).to_be_bytes();
    for i in 0..len {
        if i < 8 {
            v.push(tag[i]);
        } else {
            v.push((i as u8).wrapping_mul(31).wrapping_add(idx as u8));
        }
    }
    v
}

impl Sender {
    fn new() -> Self {
        Sender {
            enc: Encapsulator::new(DefaultCrc {}),
            pdus: vec![],
            events: vec![],
            flights: vec![],
            tx_ref: RefRx::new(),
        }
    }

    fn reset(&mut self) {
        self.enc.reset_last_label();
        self.tx_ref.reset();
        self.events.push(Event::Reset);
    }

    /// check of a produced start/complete packet on the wire alone
    fn tx_check(&mut self, bytes: &[u8], role: Role, label: Label, stats: &mut Stats) {
        let w = parse_wire(bytes).expect("produced packet without header");
        assert_eq!(w.gse_len + 2, bytes.len(), "reported length differs from the GSE length");
        match role {
            Role::Complete => assert_eq!(w.kind, Kind::Complete),
            Role::First => assert_eq!(w.kind, Kind::First),
            Role::Inter => assert_eq!(w.kind, Kind::Inter),
            Role::End => assert_eq!(w.kind, Kind::End),
        }
        if matches!(role, Role::Complete | Role::First) {
            assert_ne!(w.label, WireLabel::Unreadable);
            if is_explicit(&label) {
                assert_eq!(
                    self.tx_ref.expect(&w),
                    Exp::Label(label),
                    "the sender emitted a packet that does not resolve to the label it was given"
                );
                if w.label == WireLabel::Reuse {
                    stats.hit("tx: automatic re-use packet emitted");
                } else {
                    stats.hit("tx: full label packet emitted");
                }
            } else {
                assert_eq!(w.label, WireLabel::Reuse);
                stats.hit("tx: explicit re-use packet emitted");
            }
            self.tx_ref.update(&w);
        }
    }

    /// encap (exts None) or encap_ext (exts Some); `rx_exts` is what the receiver must report
    #[allow(clippy::too_many_arguments)]
    fn encap(
        &mut self,
        len: usize,
        label: Label,
        ptype: u16,
        exts: Option<Vec<Extension>>,
        rx_exts: Vec<Extension>,
        frag_id: u8,
        buf_len: usize,
        stats: &mut Stats,
    ) -> Result<Role, EncapError> {
        let idx = self.pdus.len();
        let content = make_content(idx, len);
        let mut buffer = vec![0xA5u8; buf_len];
        let md = EncapMetadata::new(ptype, label);
        let res = match exts {
            None => self.enc.encap(&content, frag_id, md, &mut buffer),
            Some(e) => self.enc.encap_ext(&content, frag_id, md, &mut buffer, e),
        };
        match res {
            Err(e) => {
                stats.hit(&format!("tx: encap failed {e:?}"));
                Err(e)
            }
            Ok(EncapStatus::CompletedPkt(n)) => {
                let n = n as usize;
                assert!(n <= buf_len);
                let bytes = buffer[..n].to_vec();
                self.tx_check(&bytes, Role::Complete, label, stats);
                self.pdus.push(Pdu {
                    content,
                    user_label: label,
                    ptype,
                    exts: rx_exts,
                    frag_id,
                });
                self.events.push(Event::Packet {
                    bytes,
                    role: Role::Complete,
                    pdu: idx,
                });
                Ok(Role::Complete)
            }
            Ok(EncapStatus::FragmentedPkt(n, ctx)) => {
                let n = n as usize;
                assert!(n <= buf_len);
                let bytes = buffer[..n].to_vec();
                self.tx_check(&bytes, Role::First, label, stats);
                self.pdus.push(Pdu {
                    content,
                    user_label: label,
                    ptype,
                    exts: rx_exts,
                    frag_id,
                });
                self.events.push(Event::Packet {
                    bytes,
                    role: Role::First,
                    pdu: idx,
                });
                self.flights.push((idx, ctx));
                Ok(Role::First)
            }
        }
    }

    /// continue flight number `i`; returns true when the PDU is finished
    fn cont(&mut self, i: usize, buf_len: usize, stats: &mut Stats) -> Result<bool, EncapError> {
        let (idx, ctx) = self.flights[i];
        let mut buffer = vec![0xA5u8; buf_len];
        match self.enc.encap_frag(&self.pdus[idx].content, &ctx, &mut buffer) {
            Err(e) => {
                stats.hit(&format!("tx: encap_frag failed {e:?}"));
                Err(e)
            }
            Ok(EncapStatus::CompletedPkt(n)) => {
                let bytes = buffer[..n as usize].to_vec();
                let l = self.pdus[idx].user_label;
                self.tx_check(&bytes, Role::End, l, stats);
                self.events.push(Event::Packet {
                    bytes,
                    role: Role::End,
                    pdu: idx,
                });
                self.flights.remove(i);
                Ok(true)
            }
            Ok(EncapStatus::FragmentedPkt(n, ctx2)) => {
                let bytes = buffer[..n as usize].to_vec();
                let l = self.pdus[idx].user_label;
                self.tx_check(&bytes, Role::Inter, l, stats);
                self.events.push(Event::Packet {
                    bytes,
                    role: Role::Inter,
                    pdu: idx,
                });
                self.flights[i].1 = ctx2;
                Ok(false)
            }
        }
    }
}

// ---------------------------------------------------------------------------------------------
// receiver side runner
// ---------------------------------------------------------------------------------------------
#[derive(Clone, Copy, PartialEq, Eq, Debug)]
enum Level {
    /// sufficient storage, only the sender's packets: everything must be delivered
    Strict,
    /// storage may be missing / packets may be rejected: no misattribution, delivered PDUs match
    Lossy,
    /// foreign traffic injected: receiver-only statement only
    ObserveOnly,
}

#[derive(Clone, Copy, Debug)]
enum Fill {
    Exactly(usize),
    Full,
    RandomLow,
}

#[derive(Clone, Copy, Debug)]
struct RxCfg {
    slots: usize,
    storage: usize,
    fill: Fill,
    frame_mode: bool,
    level: Level,
}

struct Rx<'a> {
    dec: Dec,
    cfg: RxCfg,
    pool: Vec<Box<[u8]>>,
    rx_ref: RefRx,
    pdus: &'a [Pdu],
    /// label the PDU must be delivered with (resolved at its start/complete packet)
    resolved: Vec<Option<Label>>,
    owner: [Option<usize>; 256],
    delivered: Vec<bool>,
}

impl<'a> Rx<'a> {
    fn new(cfg: RxCfg, pdus: &'a [Pdu]) -> Self {
        let mem = SimpleGseMemory::new(cfg.slots, cfg.storage, 0, 0);
        Rx {
            dec: Decapsulator::new(mem, DefaultCrc {}, Mgr),
            cfg,
            pool: vec![],
            rx_ref: RefRx::new(),
            pdus,
            resolved: vec![None; pdus.len()],
            owner: [None; 256],
            delivered: vec![false; pdus.len()],
        }
    }

    fn prepare_storage(&mut self, rng: &mut Rng) {
        // drain the free list, then provision exactly what the configuration asks for
        while let Ok(b) = self.dec.new_pdu() {
            self.pool.push(b);
        }
        let k = match self.cfg.fill {
            Fill::Exactly(k) => k,
            Fill::Full => usize::MAX,
            Fill::RandomLow => rng.below(2),
        };
        let mut n = 0;
        while n < k {
            let b = self
                .pool
                .pop()
                .unwrap_or_else(|| vec![0u8; self.cfg.storage].into_boxed_slice());
            match self.dec.provision_storage(b) {
                Ok(()) => n += 1,
                Err(_) => {
                    assert!(matches!(self.cfg.fill, Fill::Full));
                    assert_eq!(n, self.cfg.slots + 2, "free list capacity");
                    break;
                }
            }
        }
    }

    fn check_delivery(&self, q: usize, buf: &[u8], md: &dvb_gse_rust::gse_decap::DecapMetadata) {
        let p = &self.pdus[q];
        assert_eq!(Some(md.label()), self.resolved[q], "PDU {q} delivered with a wrong label");
        if is_explicit(&p.user_label) {
            assert_eq!(md.label(), p.user_label, "PDU {q}: label differs from the sender's");
        }
        assert_eq!(md.protocol_type(), p.ptype, "PDU {q}: protocol type");
        assert_eq!(md.pdu_len(), p.content.len(), "PDU {q}: length");
        assert_eq!(&buf[..md.pdu_len()], &p.content[..], "PDU {q}: content");
        assert_eq!(md.extensions(), &p.exts, "PDU {q}: extensions");
    }

    /// feeds one buffer that starts with the packet of `who` (None: foreign bytes)
    fn feed(
        &mut self,
        buf: &[u8],
        who: Option<(Role, usize)>,
        rng: &mut Rng,
        stats: &mut Stats,
    ) -> usize {
        self.prepare_storage(rng);
        let res = self.dec.decap(buf);
        let exp = self.rx_ref.observe(buf, &res, stats);
        let consumed = match &res {
            Ok((_, n)) => *n,
            Err((_, n)) => *n,
        };
        stats.hit(match &res {
            Ok(_) => "rx: decap calls accepted",
            Err(_) => "rx: decap calls rejected",
        });
        let Some((role, p)) = who else {
            if let Ok((DecapStatus::CompletedPkt(b, _), _)) = res {
                self.pool.push(b);
            }
            return consumed;
        };
        if self.cfg.level == Level::ObserveOnly {
            if let Ok((DecapStatus::CompletedPkt(b, _), _)) = res {
                self.pool.push(b);
            }
            return consumed;
        }
        let strict = self.cfg.level == Level::Strict;
        let fid = self.pdus[p].frag_id as usize;
        let ul = self.pdus[p].user_label;
        match role {
            Role::Complete | Role::First => {
                let exp = exp.expect("start packet");
                let intended: Option<Label> = if is_explicit(&ul) {
                    // whatever the receiver remembers, the wire must resolve to the sender's label
                    // (or be rejected in lossy mode)
                    if strict {
                        assert_eq!(exp, Exp::Label(ul));
                    }
                    Some(ul)
                } else {
                    match exp {
                        Exp::Label(l) => Some(l),
                        Exp::MustReject => None,
                    }
                };
                match res {
                    Ok((DecapStatus::CompletedPkt(b, md), _)) => {
                        assert_eq!(role, Role::Complete);
                        assert!(intended.is_some());
                        self.resolved[p] = intended;
                        self.check_delivery(p, &b, &md);
                        self.delivered[p] = true;
                        stats.hit("rx: complete PDU delivered and matched");
                        self.pool.push(b);
                    }
                    Ok((DecapStatus::FragmentedPkt(md), _)) => {
                        assert_eq!(role, Role::First);
                        assert_eq!(Some(md.label()), intended, "first fragment label");
                        self.resolved[p] = intended;
                        self.owner[fid] = Some(p);
                    }
                    Ok((DecapStatus::Padding, _)) => unreachable!(),
                    Err((e, _)) => {
                        if strict {
                            assert!(
                                intended.is_none(),
                                "strict: PDU {p} ({ul:?}) rejected with {e:?}"
                            );
                            assert_eq!(consumed, parse_wire(buf).unwrap().gse_len + 2);
                        }
                        self.resolved[p] = None;
                        if role == Role::First {
                            self.owner[fid] = None;
                        }
                        stats.hit(&format!("rx: start/complete packet rejected {}", e.to_str()));
                    }
                }
            }
            Role::Inter => match res {
                Ok((DecapStatus::FragmentedPkt(md), _)) => {
                    let q = self.owner[fid].expect("intermediate accepted without owner");
                    assert_eq!(Some(md.label()), self.resolved[q]);
                    if strict {
                        assert_eq!(q, p);
                    }
                }
                Ok(_) => panic!("intermediate packet: unexpected status"),
                Err((e, _)) => {
                    if strict {
                        assert!(self.resolved[p].is_none(), "strict: fragment rejected {e:?}");
                    }
                    self.owner[fid] = None;
                }
            },
            Role::End => match res {
                Ok((DecapStatus::CompletedPkt(b, md), _)) => {
                    let q = self.owner[fid].expect("end accepted without owner");
                    if strict {
                        assert_eq!(q, p);
                    }
                    self.check_delivery(q, &b, &md);
                    self.delivered[q] = true;
                    self.owner[fid] = None;
                    stats.hit("rx: reassembled PDU delivered and matched");
                    self.pool.push(b);
                }
                Ok(_) => panic!("end packet: unexpected status"),
                Err((e, _)) => {
                    if strict {
                        assert!(self.resolved[p].is_none(), "strict: end rejected {e:?}");
                    }
                    self.owner[fid] = None;
                }
            },
        }
        consumed
    }

    fn run(&mut self, events: &[Event], rng: &mut Rng, stats: &mut Stats) {
        if !self.cfg.frame_mode {
            for ev in events {
                match ev {
                    Event::Reset => {
                        self.dec.reset_last_label();
                        self.rx_ref.reset();
                    }
                    Event::Packet { bytes, role, pdu } => {
                        let n = self.feed(bytes, Some((*role, *pdu)), rng, stats);
                        assert_eq!(n, bytes.len());
                    }
                    Event::Inject(bytes) => {
                        self.feed(bytes, None, rng, stats);
                    }
                }
            }
        } else {
            // frames: everything between two resets is one frame, walked with the returned lengths
            let mut i = 0;
            while i < events.len() {
                let mut frame: Vec<u8> = vec![];
                let mut starts: Vec<(usize, Option<(Role, usize)>)> = vec![];
                while i < events.len() {
                    match &events[i] {
                        Event::Reset => break,
                        Event::Packet { bytes, role, pdu } => {
                            starts.push((frame.len(), Some((*role, *pdu))));
                            frame.extend_from_slice(bytes);
                        }
                        Event::Inject(bytes) => {
                            starts.push((frame.len(), None));
                            frame.extend_from_slice(bytes);
                        }
                    }
                    i += 1;
                }
                let data_len = frame.len();
                let pad = rng.pick(&[0usize, 0, 1, 2, 3, 7, 40]);
                frame.extend(std::iter::repeat(0u8).take(pad));
                stats.hit("rx: frames walked");
                if pad > 0 {
                    stats.hit("rx: frames with padding");
                }
                let mut off = 0;
                let mut k = 0;
                while off < frame.len() {
                    if off >= data_len {
                        // padding
                        self.prepare_storage(rng);
                        let res = self.dec.decap(&frame[off..]);
                        if frame.len() - off < 2 {
                            assert!(res.is_err());
                        } else {
                            assert!(matches!(res, Ok((DecapStatus::Padding, _))));
                        }
                        break;
                    }
                    // find the event starting here (the walk may have skipped the rest of a frame
                    // only in non-strict modes)
                    while k < starts.len() && starts[k].0 < off {
                        k += 1;
                    }
                    let who = if k < starts.len() && starts[k].0 == off {
                        starts[k].1
                    } else {
                        assert_ne!(self.cfg.level, Level::Strict, "walk lost the packet boundary");
                        None
                    };
                    if self.cfg.level == Level::Strict {
                        assert!(k < starts.len() && starts[k].0 == off);
                    }
                    let n = self.feed(&frame[off..], who, rng, stats);
                    assert!(n > 0);
                    off += n;
                }
                // the reset event (frame boundary)
                if i < events.len() {
                    self.dec.reset_last_label();
                    self.rx_ref.reset();
                    i += 1;
                }
            }
        }
    }
}

// ---------------------------------------------------------------------------------------------
// random scenario generation
// ---------------------------------------------------------------------------------------------
const LABELS6: [[u8; 6]; 4] = [
    [1, 2, 3, 4, 5, 6],
    [1, 2, 3, 4, 5, 7],
    [0, 0, 0, 0, 0, 1],
    [0, 0, 0, 1, 2, 3],
];
const LABELS3: [[u8; 3]; 4] = [[0, 0, 0], [1, 2, 3], [0, 0, 1], [4, 5, 6]];
const PTYPES_OK: [u16; 8] = [0x0600, 0x0601, 0x0800, 0x86DD, 0xFFFF, 0x0806, 0x1234, 0x0700];
const PTYPES_BAD: [u16; 6] = [0x0100, 0x0101, 0x05FF, 0x0200, 0x0300, 0x04AB];

fn gen_label(rng: &mut Rng, prev: &mut Label) -> Label {
    // repeat the previous explicit label often: this is what triggers the automatic re-use
    if rng.chance(35) {
        return *prev;
    }
    let l = gen_label_fresh(rng);
    if is_explicit(&l) {
        *prev = l;
    }
    l
}

fn gen_label_fresh(rng: &mut Rng) -> Label {
    match rng.below(100) {
        0..=39 => Label::SixBytesLabel(rng.pick(&LABELS6)),
        40..=64 => Label::ThreeBytesLabel(rng.pick(&LABELS3)),
        65..=79 => Label::Broadcast,
        _ => Label::ReUse,
    }
}

fn gen_len(rng: &mut Rng, cap: usize, stats: &mut Stats) -> usize {
    let l = match rng.below(100) {
        0..=24 => rng.below(17),
        25..=59 => rng.below(300),
        60..=74 => rng.range(4080, 4100),
        75..=84 => rng.below(9000),
        85..=88 => rng.range(65520, 65535),
        89..=90 => rng.pick(&[65536usize, 70000]),
        _ => cap,
    };
    if l >= 65520 {
        stats.hit("gen: PDU length >= 65520 requested");
    }
    l
}

/// extension chain; returns (sender chain, protocol type, chain the receiver must report)
fn gen_exts(rng: &mut Rng, allow_unknown: bool, stats: &mut Stats) -> (Vec<Extension>, u16) {
    let n = if rng.chance(3) {
        rng.range(300, 500)
    } else {
        rng.range(1, 4)
    };
    let mut v = vec![];
    let mut ptype = rng.pick(&PTYPES_OK);
    for i in 0..n {
        let last = i == n - 1;
        let r = rng.below(100);
        if r < 60 {
            let hlen = rng.range(1, 5);
            let id = ((hlen as u16) << 8) | rng.below(256) as u16;
            let dl = (hlen - 1) * 2;
            let data: Vec<u8> = (0..dl).map(|_| rng.below(256) as u8).collect();
            v.push(Extension::new(id, &data).unwrap());
            stats.hit(&format!("gen: optional extension H-LEN {hlen}"));
        } else if r < 80 || !last {
            let k = rng.below(9);
            let data: Vec<u8> = (0..k).map(|_| rng.below(256) as u8).collect();
            if allow_unknown && rng.chance(10) {
                v.push(Extension::new(0x40 + k as u16, &data).unwrap());
                stats.hit("gen: unknown mandatory extension");
            } else if k == 0 && rng.chance(50) {
                v.push(Extension::new(0xFF, &data).unwrap());
                stats.hit("gen: non-final mandatory extension 0 data bytes");
            } else {
                v.push(Extension::new(0x10 + k as u16, &data).unwrap());
                stats.hit(&format!("gen: non-final mandatory extension {k} data bytes"));
            }
        } else {
            // final mandatory extension: replaces the protocol type
            let k = rng.below(9);
            let data: Vec<u8> = (0..k).map(|_| rng.below(256) as u8).collect();
            let id = if k == 0 {
                rng.pick(&[0x20u16, 0x00, 0x81, 0x82])
            } else {
                0x20 + k as u16
            };
            v.push(Extension::new(id, &data).unwrap());
            ptype = id;
            stats.hit(&format!("gen: final mandatory extension {k} data bytes"));
        }
    }
    (v, ptype)
}

#[derive(Clone, Copy)]
struct GenCfg {
    ops: usize,
    /// maximum PDU length the receiver storage accepts (strict: never exceeded)
    cap: usize,
    slots: usize,
    strict: bool,
    /// in-flight frag ids may collide, unknown mandatory extensions may be sent
    misuse: bool,
}

fn gen_scenario(rng: &mut Rng, cfg: GenCfg, stats: &mut Stats) -> Sender {
    let mut s = Sender::new();
    let max_flights = cfg.slots.min(5);
    let mut prev_label = Label::Broadcast;
    for _ in 0..cfg.ops {
        let r = rng.below(100);
        if r < 40 || (r < 60 && s.flights.is_empty()) {
            // ---- encap / encap_ext of a new PDU
            let label = if rng.chance(3) {
                Label::SixBytesLabel([0; 6])
            } else {
                gen_label(rng, &mut prev_label)
            };
            let mut len = gen_len(rng, cfg.cap, stats);
            if cfg.strict && len > cfg.cap && len <= 65535 {
                len = cfg.cap;
            }
            let use_ext = rng.chance(30);
            let (exts, rx_exts, ptype) = if use_ext {
                if rng.chance(4) {
                    (Some(vec![]), vec![], rng.pick(&PTYPES_OK))
                } else {
                    let (v, mut pt) = gen_exts(rng, cfg.misuse, stats);
                    if rng.chance(4) {
                        pt = rng.pick(&[0x0001u16, 0x0021, 0x00FE, 0x0100, 0x05FF]);
                        // (mismatch with the last extension or invalid range: must fail, unless
                        // it happens to equal the final id)
                    }
                    (Some(v.clone()), v, pt)
                }
            } else {
                let pt = match rng.below(100) {
                    0..=84 => rng.pick(&PTYPES_OK),
                    85..=90 => rng.pick(&PTYPES_BAD),
                    91..=96 => rng.pick(&[0x0000u16, 0x0081, 0x0082, 0x0020]),
                    _ => {
                        if cfg.misuse {
                            0x0005
                        } else {
                            rng.range(0x600, 0xFFFF) as u16
                        }
                    }
                };
                let rx = if pt < 0x100 {
                    vec![Extension::new(pt, &[]).unwrap()]
                } else {
                    vec![]
                };
                (None, rx, pt)
            };
            let ext_len: usize = exts
                .as_ref()
                .map(|v| v.iter().map(|e| e.len()).sum::<usize>())
                .unwrap_or(0);
            // frag id: its slot must be free of live flights (unless misuse)
            let mut frag_id = rng.below(256) as u8;
            let room = s.flights.len() < max_flights;
            if !cfg.misuse && room {
                let mut tries = 0;
                while s
                    .flights
                    .iter()
                    .any(|(i, _)| s.pdus[*i].frag_id as usize % cfg.slots == frag_id as usize % cfg.slots)
                {
                    frag_id = rng.below(256) as u8;
                    tries += 1;
                    if tries > 2000 {
                        break;
                    }
                }
                if tries > 2000 {
                    continue;
                }
            }
            // buffer length
            let full = 4 + label.len() + ext_len + len;
            let buf_len = match rng.below(100) {
                0..=9 => rng.below(13),
                10..=39 => {
                    // around the exact fit for the full / re-used label
                    let base = if rng.chance(50) {
                        full
                    } else {
                        full - label.len()
                    };
                    (base + rng.below(7)).saturating_sub(3)
                }
                40..=54 => rng.range(4090, 4101),
                55..=59 => rng.pick(&[5000usize, 70000, 66000]),
                60..=79 => rng.below(full + 10),
                _ => full + rng.below(40),
            };
            // in strict mode a new fragmented PDU needs a free flight; a complete packet is forced
            let buf_len = if !room { buf_len.max(full).max(4200.min(full)) } else { buf_len };
            if !room && full > 4097 {
                continue;
            }
            let res = s.encap(len, label, ptype, exts, rx_exts, frag_id, buf_len, stats);
            if let Ok(role) = res {
                stats.hit(&format!(
                    "gen: emitted {role:?} for label kind {}",
                    match label {
                        Label::SixBytesLabel(_) => "6B",
                        Label::ThreeBytesLabel([0, 0, 0]) => "3B all-zero",
                        Label::ThreeBytesLabel(_) => "3B",
                        Label::Broadcast => "broadcast",
                        Label::ReUse => "explicit re-use",
                    }
                ));
                if (4093..=4097).contains(&len) {
                    stats.hit("gen: emitted PDU with length 4093..=4097");
                }
                if len >= 65520 {
                    stats.hit("gen: emitted PDU with length >= 65520");
                }
                if len == 0 {
                    stats.hit("gen: emitted PDU with length 0");
                }
                if buf_len > 4097 {
                    stats.hit("gen: emitted into a buffer above 4097");
                }
                if use_ext {
                    stats.hit("gen: emitted with extensions");
                }
            }
        } else if r < 75 {
            // ---- continue a flight
            if s.flights.is_empty() {
                continue;
            }
            let i = rng.below(s.flights.len());
            let (idx, ctx) = s.flights[i];
            let rem = s.pdus[idx].content.len() - ctx.len_pdu_frag() as usize;
            let buf_len = match rng.below(100) {
                0..=9 => rng.below(9),
                10..=34 => (rem + 7 + rng.below(5)).saturating_sub(2),
                35..=49 => rng.range(4090, 4101),
                50..=54 => rng.pick(&[5000usize, 70000]),
                55..=74 => {
                    if rem > 20000 {
                        rng.range(3000, 4200)
                    } else {
                        rng.below(rem + 10)
                    }
                }
                _ => rem + 7 + rng.below(50),
            };
            let _ = s.cont(i, buf_len, stats);
        } else if r < 80 {
            // ---- abandon a flight (the sender never finishes it)
            if !s.flights.is_empty() && rng.chance(40) {
                let i = rng.below(s.flights.len());
                s.flights.remove(i);
                stats.hit("gen: abandoned fragmented PDU");
            }
        } else if r < 90 {
            match rng.below(4) {
                0 => {
                    s.enc.disable_re_use_label();
                    stats.hit("gen: re-use disabled");
                }
                1 => {
                    s.enc.enable_re_use_label();
                    stats.hit("gen: re-use enabled");
                }
                _ => {
                    let m = rng.pick(&[0u8, 1, 1, 2, 2, 3, 5, 254, 255]);
                    s.enc.enable_re_use_label_with_max_consecutive(m);
                    stats.hit("gen: re-use enabled with max consecutive");
                }
            }
        } else {
            s.reset();
            stats.hit("gen: reset (frame boundary)");
        }
    }
    // finish what is in flight so that completeness is exercised
    while !s.flights.is_empty() {
        let (idx, ctx) = s.flights[0];
        let rem = s.pdus[idx].content.len() - ctx.len_pdu_frag() as usize;
        let buf_len = if rng.chance(50) { 4200 } else { (rem + 7).min(3000) };
        let _ = s.cont(0, buf_len, stats);
    }
    s
}

fn scenario_count(debug: usize, release: usize) -> usize {
    let base = if cfg!(debug_assertions) { debug } else { release };
    match std::env::var("C04_SCALE") {
        Ok(v) => base * v.parse::<usize>().unwrap_or(1),
        Err(_) => base,
    }
}

fn seed() -> u64 {
    std::env::var("C04_SEED")
        .ok()
        .and_then(|v| v.parse().ok())
        .unwrap_or(0xC04)
}

// ---------------------------------------------------------------------------------------------
// tests
// ---------------------------------------------------------------------------------------------

/// Strict differential: sufficient storage, only sender packets, everything must be delivered with
/// the intended label.  Each scenario is fed twice: packet by packet and by frame walking.
#[test]
fn c04_strict_random() {
    let mut stats = Stats::default();
    let n = scenario_count(400, 4000);
    let mut rng = Rng(seed());
    let mut pdus_total = 0u64;
    for sc in 0..n {
        let slots = rng.pick(&[1usize, 1, 2, 3, 4, 7, 16, 255, 256]);
        let cap = rng.pick(&[0usize, 1, 5, 300, 4093, 4095, 4096, 4097, 9000, 65533, 65535]);
        let storage_extra = rng.pick(&[0usize, 0, 1, 1000, 70000]);
        let big = cap > 10000;
        let ops = if big { rng.range(5, 40) } else { rng.range(5, 150) };
        let gc = GenCfg {
            ops,
            cap,
            slots,
            strict: true,
            misuse: false,
        };
        let s = gen_scenario(&mut rng, gc, &mut stats);
        pdus_total += s.pdus.len() as u64;
        for frame_mode in [false, true] {
            let fill = match rng.below(3) {
                0 => Fill::Exactly(1),
                1 => Fill::Exactly(2),
                _ => Fill::Full,
            };
            let cfg = RxCfg {
                slots,
                storage: cap + storage_extra,
                fill,
                frame_mode,
                level: Level::Strict,
            };
            let mut rx = Rx::new(cfg, &s.pdus);
            rx.run(&s.events, &mut rng, &mut stats);
            // completeness: every PDU with an explicit or broadcast label whose last packet was
            // produced has been delivered
            let mut finished = vec![false; s.pdus.len()];
            for ev in &s.events {
                if let Event::Packet { role, pdu, .. } = ev {
                    if matches!(role, Role::Complete | Role::End) {
                        finished[*pdu] = true;
                    }
                }
            }
            for (i, p) in s.pdus.iter().enumerate() {
                if finished[i] && is_explicit(&p.user_label) {
                    assert!(rx.delivered[i], "scenario {sc}: PDU {i} not delivered");
                    stats.hit("strict: explicit/broadcast PDU delivered (completeness)");
                }
            }
            stats.hit(&format!("strict: receiver run slots={slots}"));
            stats.hit(&format!("strict: receiver run fill={fill:?}"));
            stats.hit(&format!(
                "strict: storage {} the largest PDU",
                if storage_extra == 0 { "equal to" } else { "larger than" }
            ));
            if cap + storage_extra > 65535 {
                stats.hit("strict: storage larger than 65535");
            }
        }
    }
    stats.add("strict: scenarios", n as u64);
    stats.add("strict: PDUs emitted", pdus_total);
    stats.print("c04_strict_random");
}

/// Lossy: storage smaller than some PDUs, free list sometimes empty, unknown mandatory
/// extensions, colliding frag ids.  Nothing may be delivered with a label the sender did not
/// intend; what is delivered matches the PDU that owns the reassembly.
#[test]
fn c04_lossy_random() {
    let mut stats = Stats::default();
    let n = scenario_count(300, 3000);
    let mut rng = Rng(seed() ^ 0x1055);
    for _ in 0..n {
        let slots = rng.pick(&[1usize, 2, 3, 4, 16, 256]);
        let cap = rng.pick(&[300usize, 4095, 4097, 9000, 65535]);
        let storage = rng.pick(&[0usize, 1, 10, 100, 299, 300, 4000, 65535]);
        let ops = if cap > 10000 { rng.range(5, 40) } else { rng.range(5, 150) };
        let gc = GenCfg {
            ops,
            cap,
            slots,
            strict: false,
            misuse: rng.chance(50),
        };
        let s = gen_scenario(&mut rng, gc, &mut stats);
        for frame_mode in [false, true] {
            let fill = rng.pick(&[Fill::RandomLow, Fill::Exactly(1), Fill::Exactly(0), Fill::Full]);
            let cfg = RxCfg {
                slots,
                storage,
                fill,
                frame_mode,
                level: Level::Lossy,
            };
            let mut rx = Rx::new(cfg, &s.pdus);
            rx.run(&s.events, &mut rng, &mut stats);
            stats.hit("lossy: receiver runs");
        }
    }
    stats.add("lossy: scenarios", n as u64);
    stats.print("c04_lossy_random");
}

// ---- foreign traffic ---------------------------------------------------------------------------

fn mutate(rng: &mut Rng, src: &[u8], stats: &mut Stats) -> Vec<u8> {
    let mut b = src.to_vec();
    match rng.below(14) {
        0 => {
            // change the label type
            if b.len() >= 2 {
                b[0] = (b[0] & 0xCF) | ((rng.below(4) as u8) << 4);
            }
            stats.hit("inject: label type changed");
        }
        1 => {
            if b.len() >= 2 {
                b[0] = (b[0] & 0x3F) | ((rng.below(4) as u8) << 6);
            }
            stats.hit("inject: start/end bits changed");
        }
        2 => {
            if b.len() >= 2 {
                let l = rng.pick(&[0usize, 1, 2, 3, 4, 5, 6, 7, 8, 9, 10, 11, 12, 4095]);
                b[0] = (b[0] & 0xF0) | ((l >> 8) as u8);
                b[1] = l as u8;
            }
            stats.hit("inject: GSE length overwritten (short / 4095)");
        }
        3 => {
            let k = rng.below(b.len() + 1);
            b.truncate(k);
            stats.hit("inject: truncated packet");
        }
        4 => {
            if !b.is_empty() {
                let k = rng.below(b.len());
                b[k] ^= 1 << rng.below(8);
            }
            stats.hit("inject: single bit flipped");
        }
        5 => {
            // zero the label area
            for x in b.iter_mut().skip(4).take(9) {
                *x = 0;
            }
            stats.hit("inject: label area zeroed");
        }
        6 => {
            // corrupt the tail (CRC of an end packet)
            if let Some(x) = b.last_mut() {
                *x ^= 0xFF;
            }
            stats.hit("inject: last byte corrupted");
        }
        7 => {
            // protocol type field -> unknown mandatory / optional extension
            if b.len() >= 4 {
                let off = if b[0] & 0xC0 == 0x80 { 5 } else { 2 };
                if b.len() >= off + 2 {
                    let id = rng.pick(&[0x0005u16, 0x0100, 0x0234, 0x05FF, 0x0021, 0x0018]);
                    b[off..off + 2].copy_from_slice(&id.to_be_bytes());
                }
            }
            stats.hit("inject: protocol type replaced by an extension id");
        }
        8 => {
            b = (0..rng.below(40)).map(|_| rng.below(256) as u8).collect();
            stats.hit("inject: random bytes");
        }
        9 => {
            // total length of a first fragment
            if b.len() >= 5 && b[0] & 0xC0 == 0x80 {
                let t = rng.pick(&[0u16, 1, 2, 3, 65535]);
                b[3..5].copy_from_slice(&t.to_be_bytes());
            }
            stats.hit("inject: total length overwritten");
        }
        10 => {
            // change the frag id
            if b.len() >= 3 {
                b[2] = rng.below(256) as u8;
            }
            stats.hit("inject: third byte (frag id) overwritten");
        }
        11 => {
            // keep the header consistent with a shorter body: shrink gse length by k
            if b.len() >= 2 {
                let gl = (((b[0] & 0x0F) as usize) << 8) | b[1] as usize;
                let k = rng.below(gl.min(12) + 1);
                let nl = gl - k;
                b[0] = (b[0] & 0xF0) | ((nl >> 8) as u8);
                b[1] = nl as u8;
                b.truncate(nl + 2);
            }
            stats.hit("inject: packet shortened consistently");
        }
        12 => {
            stats.hit("inject: exact duplicate");
        }
        _ => {
            b.extend((0..rng.below(9)).map(|_| rng.below(256) as u8));
            if b.len() >= 2 {
                let gl = b.len() - 2;
                if gl <= 4095 {
                    b[0] = (b[0] & 0xF0) | ((gl >> 8) as u8);
                    b[1] = gl as u8;
                }
            }
            stats.hit("inject: packet lengthened consistently");
        }
    }
    b
}

/// Receiver-only statement with foreign traffic: mutated / malformed / duplicated / reordered
/// packets between the genuine ones.
#[test]
fn c04_receiver_only_fuzz() {
    let mut stats = Stats::default();
    let n = scenario_count(400, 4000);
    let mut rng = Rng(seed() ^ 0xF022);
    for _ in 0..n {
        let slots = rng.pick(&[1usize, 2, 3, 4, 16, 256]);
        let cap = rng.pick(&[40usize, 300, 4097, 9000]);
        let gc = GenCfg {
            ops: rng.range(5, 120),
            cap,
            slots,
            strict: false,
            misuse: rng.chance(50),
        };
        let s = gen_scenario(&mut rng, gc, &mut stats);
        // build the foreign stream
        let pkts: Vec<&Vec<u8>> = s
            .events
            .iter()
            .filter_map(|e| match e {
                Event::Packet { bytes, .. } => Some(bytes),
                _ => None,
            })
            .collect();
        let mut evs: Vec<Event> = vec![];
        for e in &s.events {
            let r = rng.below(100);
            if r < 8 {
                // drop
                if matches!(e, Event::Packet { .. }) {
                    stats.hit("inject: genuine packet dropped");
                    continue;
                }
            }
            if r >= 70 && !pkts.is_empty() {
                let src = pkts[rng.below(pkts.len())];
                let m = mutate(&mut rng, src, &mut stats);
                if !m.is_empty() && (m.len() >= 2 && (m[0] & 0xF0) != 0 || rng.chance(10)) {
                    evs.push(Event::Inject(m));
                }
            }
            match e {
                Event::Packet { bytes, .. } => evs.push(Event::Inject(bytes.clone())),
                Event::Reset => evs.push(Event::Reset),
                Event::Inject(_) => {}
            }
        }
        for frame_mode in [false, true] {
            let storage = rng.pick(&[0usize, 10, 300, 9000, 70000]);
            let fill = rng.pick(&[Fill::RandomLow, Fill::Exactly(1), Fill::Full, Fill::Full]);
            let cfg = RxCfg {
                slots,
                storage,
                fill,
                frame_mode,
                level: Level::ObserveOnly,
            };
            let mut rx = Rx::new(cfg, &s.pdus);
            rx.run(&evs, &mut rng, &mut stats);
            stats.hit("fuzz: receiver runs");
        }
    }
    stats.add("fuzz: scenarios", n as u64);
    stats.print("c04_receiver_only_fuzz");
}

// ---- hand-built receiver streams ---------------------------------------------------------------

fn hdr(s: bool, e: bool, lt: u8, gse_len: usize) -> [u8; 2] {
    let h: u16 = ((s as u16) << 15) | ((e as u16) << 14) | ((lt as u16) << 12) | (gse_len as u16 & 0xFFF);
    h.to_be_bytes()
}

fn build_complete(lt: u8, label: &[u8], ptype_and_ext: &[u8], pdu: &[u8]) -> Vec<u8> {
    let gl = ptype_and_ext.len() + label.len() + pdu.len();
    let mut v = hdr(true, true, lt, gl).to_vec();
    v.extend_from_slice(&ptype_and_ext[..2]);
    v.extend_from_slice(label);
    v.extend_from_slice(&ptype_and_ext[2..]);
    v.extend_from_slice(pdu);
    v
}

fn build_first(lt: u8, label: &[u8], fid: u8, total: u16, ptype: u16, part: &[u8]) -> Vec<u8> {
    let gl = 3 + 2 + label.len() + part.len();
    let mut v = hdr(true, false, lt, gl).to_vec();
    v.push(fid);
    v.extend_from_slice(&total.to_be_bytes());
    v.extend_from_slice(&ptype.to_be_bytes());
    v.extend_from_slice(label);
    v.extend_from_slice(part);
    v
}

fn build_end(fid: u8, part: &[u8], crc: u32) -> Vec<u8> {
    let gl = 1 + part.len() + 4;
    let mut v = hdr(false, true, 3, gl).to_vec();
    v.push(fid);
    v.extend_from_slice(part);
    v.extend_from_slice(&crc.to_be_bytes());
    v
}

/// Exhaustive receiver-only model check over hand-built packets (not produced by the sender):
/// all sequences up to a bound over an alphabet of start/complete/end/malformed packets + reset.
#[test]
fn c04_receiver_only_exhaustive() {
    let mut stats = Stats::default();
    let a6 = [1u8, 2, 3, 4, 5, 6];
    let b3 = [0u8, 0, 0];
    let pdu = b"0123456789";
    let pt = 0x0800u16;
    let crc_reuse = DefaultCrc {}.calculate_crc32(pdu, pt, (pdu.len() + 2) as u16, &[]);
    let crc_a6 = DefaultCrc {}.calculate_crc32(pdu, pt, (pdu.len() + 2 + 6) as u16, &a6);
    let alphabet: Vec<(&str, Option<Vec<u8>>)> = vec![
        ("complete 6B A", Some(build_complete(0, &a6, &pt.to_be_bytes(), pdu))),
        ("complete 3B zero", Some(build_complete(1, &b3, &pt.to_be_bytes(), pdu))),
        ("complete broadcast", Some(build_complete(2, &[], &pt.to_be_bytes(), pdu))),
        ("complete re-use", Some(build_complete(3, &[], &pt.to_be_bytes(), pdu))),
        ("complete 6B zero (invalid)", Some(build_complete(0, &[0; 6], &pt.to_be_bytes(), pdu))),
        ("complete 3B, unknown mandatory ext", Some(build_complete(1, &[9, 9, 9], &[0x00, 0x05], pdu))),
        ("complete 6B truncated GSE length", {
            let mut v = build_complete(0, &[7, 7, 7, 7, 7, 7], &pt.to_be_bytes(), pdu);
            v[1] = 5; // shorter than protocol type + label
            Some(v)
        }),
        ("first re-use fid 1", Some(build_first(3, &[], 1, (pdu.len() + 2) as u16, pt, &pdu[..4]))),
        ("first 6B A fid 1", Some(build_first(0, &a6, 1, (pdu.len() + 8) as u16, pt, &pdu[..4]))),
        ("first 6B zero (invalid) fid 1", Some(build_first(0, &[0; 6], 1, (pdu.len() + 8) as u16, pt, &pdu[..4]))),
        ("first 3B bad total length fid 1", Some(build_first(1, &[5, 5, 5], 1, 2, pt, &pdu[..4]))),
        ("end fid 1 (crc of re-use)", Some(build_end(1, &pdu[4..], crc_reuse))),
        ("end fid 1 (crc of 6B A)", Some(build_end(1, &pdu[4..], crc_a6))),
        ("padding", Some(vec![0, 0, 0, 0])),
        ("one byte", Some(vec![0xC0])),
        ("reset", None),
    ];
    let depth = if cfg!(debug_assertions) { 4 } else { 5 };
    let k = alphabet.len();
    let mut total = 1usize;
    for _ in 0..depth {
        total *= k;
    }
    let mut rng = Rng(1);
    let empty: Vec<Pdu> = vec![];
    for storage_mode in 0..2 {
        for code in 0..total {
            let mut c = code;
            let mut evs = Vec::with_capacity(depth);
            for _ in 0..depth {
                match &alphabet[c % k].1 {
                    Some(b) => evs.push(Event::Inject(b.clone())),
                    None => evs.push(Event::Reset),
                }
                c /= k;
            }
            let cfg = RxCfg {
                slots: 2,
                storage: if storage_mode == 0 { 10 } else { 3 },
                fill: Fill::Exactly(1),
                frame_mode: false,
                level: Level::ObserveOnly,
            };
            let mut rx = Rx::new(cfg, &empty);
            rx.run(&evs, &mut rng, &mut stats);
        }
    }
    stats.add("rx exhaustive: sequences", (2 * total) as u64);
    stats.add("rx exhaustive: depth", depth as u64);
    stats.print("c04_receiver_only_exhaustive");
}

// ---- exhaustive sender + receiver over a small alphabet ----------------------------------------

/// All op sequences up to a bound over a small alphabet, strict mode, packet by packet.
#[test]
fn c04_strict_exhaustive() {
    let mut stats = Stats::default();
    let depth = if cfg!(debug_assertions) { 4 } else { 5 };
    const K: usize = 19;
    let mut total = 1usize;
    for _ in 0..depth {
        total *= K;
    }
    let a = Label::SixBytesLabel([1, 2, 3, 4, 5, 6]);
    let b = Label::SixBytesLabel([1, 2, 3, 4, 5, 7]);
    let t = Label::ThreeBytesLabel([0, 0, 0]);
    let mut rng = Rng(2);
    for code in 0..total {
        let mut c = code;
        let mut s = Sender::new();
        let mut next_fid = 0u8;
        for _ in 0..depth {
            let op = c % K;
            c /= K;
            let ext = vec![Extension::new(0x0233, &[1, 2]).unwrap()];
            match op {
                0 => drop(s.encap(10, a, 0x0800, None, vec![], 0, 100, &mut stats)),
                1 => drop(s.encap(10, b, 0x0800, None, vec![], 0, 100, &mut stats)),
                2 => drop(s.encap(10, t, 0x0800, None, vec![], 0, 100, &mut stats)),
                3 => drop(s.encap(10, Label::Broadcast, 0x0800, None, vec![], 0, 100, &mut stats)),
                4 => drop(s.encap(10, Label::ReUse, 0x0800, None, vec![], 0, 100, &mut stats)),
                5 | 6 | 7 => {
                    // fragmented, finished at once
                    let l = match op {
                        5 => a,
                        6 => Label::ReUse,
                        _ => t,
                    };
                    next_fid = next_fid.wrapping_add(1);
                    if let Ok(Role::First) = s.encap(30, l, 0x0800, None, vec![], next_fid, 20, &mut stats) {
                        let i = s.flights.len() - 1;
                        while !s.cont(i, 25, &mut stats).unwrap() {}
                    }
                }
                8 => drop(s.encap(10, a, 0x0800, None, vec![], 0, 6, &mut stats)), // too small
                9 => drop(s.encap(10, b, 0x0100, None, vec![], 0, 100, &mut stats)), // bad type
                10 => drop(s.encap(10, Label::SixBytesLabel([0; 6]), 0x0800, None, vec![], 0, 100, &mut stats)),
                11 => s.reset(),
                12 => s.enc.disable_re_use_label(),
                13 => s.enc.enable_re_use_label(),
                14 => s.enc.enable_re_use_label_with_max_consecutive(1),
                15 => s.enc.enable_re_use_label_with_max_consecutive(2),
                16 => drop(s.encap(10, a, 0x0800, Some(ext.clone()), ext, 0, 100, &mut stats)),
                17 => {
                    // start a fragmented PDU of B and leave it pending
                    if s.flights.len() < 2 {
                        next_fid = next_fid.wrapping_add(1);
                        drop(s.encap(30, b, 0x0800, None, vec![], next_fid, 20, &mut stats));
                    }
                }
                _ => {
                    // continue the oldest pending PDU
                    if !s.flights.is_empty() {
                        drop(s.cont(0, 16, &mut stats));
                    }
                }
            }
        }
        while !s.flights.is_empty() {
            drop(s.cont(0, 100, &mut stats));
        }
        let cfg = RxCfg {
            slots: 256,
            storage: 30,
            fill: Fill::Exactly(1),
            frame_mode: code % 2 == 1,
            level: Level::Strict,
        };
        let mut rx = Rx::new(cfg, &s.pdus);
        rx.run(&s.events, &mut rng, &mut stats);
        for (i, p) in s.pdus.iter().enumerate() {
            if is_explicit(&p.user_label) {
                assert!(rx.delivered[i], "sequence {code}: PDU {i} not delivered");
            }
        }
    }
    stats.add("strict exhaustive: sequences", total as u64);
    stats.add("strict exhaustive: depth", depth as u64);
    stats.print("c04_strict_exhaustive");
}

// ---- directed corners ---------------------------------------------------------------------------

/// Directed sweep: for every label kind pair (previous, current), every re-use setting, PDU sizes
/// and buffer sizes at the corners; strict delivery.
#[test]
fn c04_directed_corners() {
    let mut stats = Stats::default();
    let labels = [
        Label::SixBytesLabel([1, 2, 3, 4, 5, 6]),
        Label::SixBytesLabel([0, 0, 0, 0, 0, 1]),
        Label::ThreeBytesLabel([0, 0, 0]),
        Label::ThreeBytesLabel([1, 2, 3]),
        Label::Broadcast,
        Label::ReUse,
    ];
    let sizes = [0usize, 1, 2, 4080, 4085, 4086, 4087, 4088, 4089, 4090, 4091, 4092, 4093, 4094, 4095, 4096, 4097, 65524, 65527, 65530, 65533, 65534, 65535];
    let bufs = [0usize, 3, 4, 7, 10, 13, 16, 4093, 4094, 4095, 4096, 4097, 4098, 4100, 70000];
    let settings = [0usize, 1, 2, 3, 4];
    let ptypes = [0x0600u16, 0x00FF, 0x0100, 0x05FF, 0xFFFF, 0x0082];
    let mut rng = Rng(3);
    let mut cases = 0u64;
    for (si, &setting) in settings.iter().enumerate() {
        for &prev in &labels {
            for &cur in &labels {
                for &len in &sizes {
                    for &bl in &bufs {
                        let pt = ptypes[(cases as usize + si) % ptypes.len()];
                        cases += 1;
                        let mut s = Sender::new();
                        match setting {
                            0 => {}
                            1 => s.enc.disable_re_use_label(),
                            2 => s.enc.enable_re_use_label_with_max_consecutive(1),
                            3 => s.enc.enable_re_use_label_with_max_consecutive(255),
                            _ => {
                                s.enc.disable_re_use_label();
                                s.enc.enable_re_use_label();
                            }
                        }
                        // previous packet, then a failing call, then the packet under test (twice)
                        drop(s.encap(5, prev, 0x0800, None, vec![], 9, 100, &mut stats));
                        drop(s.encap(5, cur, 0x0123, None, vec![], 9, 100, &mut stats));
                        drop(s.encap(5, cur, 0x0800, None, vec![], 9, 2, &mut stats));
                        for rep in 0..2 {
                            // the receiver's manager does not know 0xFF as final: only use known
                            let pt = if pt == 0x00FF { 0x0081 } else { pt };
                            let rx = if pt < 0x100 { vec![Extension::new(pt, &[]).unwrap()] } else { vec![] };
                            if let Ok(Role::First) = s.encap(len, cur, pt, None, rx, 10 + rep, bl, &mut stats) {
                                let i = s.flights.len() - 1;
                                // finish with buffers at the corners
                                let mut guard = 0;
                                loop {
                                    let b = [4097usize, 4096, 70000, 4095, 6][guard % 5];
                                    match s.cont(i, b, &mut stats) {
                                        Ok(true) => break,
                                        Ok(false) => {}
                                        Err(_) => {}
                                    }
                                    guard += 1;
                                    assert!(guard < 200);
                                }
                            }
                        }
                        let cfg = RxCfg {
                            slots: 256,
                            storage: 65535,
                            fill: Fill::Exactly(1),
                            frame_mode: cases % 2 == 0,
                            level: Level::Strict,
                        };
                        let mut rx = Rx::new(cfg, &s.pdus);
                        rx.run(&s.events, &mut rng, &mut stats);
                        for (i, p) in s.pdus.iter().enumerate() {
                            if is_explicit(&p.user_label) {
                                assert!(rx.delivered[i], "case {cases}: PDU {i} not delivered");
                            }
                        }
                    }
                }
            }
        }
    }
    stats.add("directed: cases", cases);
    stats.print("c04_directed_corners");
}

// ---- named scenarios (each one asserts that the corner is really reached) ----------------------

fn run_strict(s: &Sender, slots: usize, storage: usize, frame_mode: bool, stats: &mut Stats) {
    let mut rng = Rng(4);
    let cfg = RxCfg {
        slots,
        storage,
        fill: Fill::Exactly(1),
        frame_mode,
        level: Level::Strict,
    };
    let mut rx = Rx::new(cfg, &s.pdus);
    rx.run(&s.events, &mut rng, stats);
    let mut finished = vec![false; s.pdus.len()];
    for ev in &s.events {
        if let Event::Packet { role, pdu, .. } = ev {
            if matches!(role, Role::Complete | Role::End) {
                finished[*pdu] = true;
            }
        }
    }
    for (i, p) in s.pdus.iter().enumerate() {
        if finished[i] && is_explicit(&p.user_label) {
            assert!(rx.delivered[i], "PDU {i} not delivered");
        }
    }
}

fn wire_label_of(ev: &Event) -> WireLabel {
    match ev {
        Event::Packet { bytes, .. } => parse_wire(bytes).unwrap().label,
        _ => panic!(),
    }
}

#[test]
fn c04_named_scenarios() {
    let mut stats = Stats::default();
    let a = Label::SixBytesLabel([1, 2, 3, 4, 5, 6]);
    let b = Label::SixBytesLabel([6, 5, 4, 3, 2, 1]);
    let z3 = Label::ThreeBytesLabel([0, 0, 0]);
    for frame_mode in [false, true] {
        // 1. the largest PDU that only fits because the label is re-used (total length 65535)
        let mut s = Sender::new();
        s.encap(3, a, 0x0800, None, vec![], 0, 100, &mut stats).unwrap();
        assert_eq!(s.encap(65533, a, 0x0800, None, vec![], 1, 70000, &mut stats), Ok(Role::First));
        assert_eq!(wire_label_of(s.events.last().unwrap()), WireLabel::Reuse);
        assert_eq!(s.events.last().map(|e| match e { Event::Packet { bytes, .. } => bytes.len(), _ => 0 }), Some(4097));
        // a failing call and another label in between must not disturb the pending PDU
        assert_eq!(s.encap(65533, b, 0x0800, None, vec![], 2, 70000, &mut stats), Err(EncapError::ErrorPduLength));
        s.encap(1, b, 0x0800, None, vec![], 2, 100, &mut stats).unwrap();
        while !s.cont(0, 70000, &mut stats).unwrap() {}
        // after B, A needs its full label again
        s.encap(1, a, 0x0800, None, vec![], 2, 100, &mut stats).unwrap();
        assert_eq!(wire_label_of(s.events.last().unwrap()), WireLabel::Six([1, 2, 3, 4, 5, 6]));
        run_strict(&s, 1, 65533, frame_mode, &mut stats);

        // 2. max consecutive 1: A, re-use, A, re-use; failing calls do not count
        let mut s = Sender::new();
        s.enc.enable_re_use_label_with_max_consecutive(1);
        let mut seen = vec![];
        for i in 0..6 {
            assert!(s.encap(5, a, 0x0100, None, vec![], 0, 100, &mut stats).is_err());
            assert!(s.encap(5, a, 0x0800, None, vec![], 0, 3, &mut stats).is_err());
            s.encap(i, a, 0x0800, None, vec![], 0, 100, &mut stats).unwrap();
            seen.push(wire_label_of(s.events.last().unwrap()) == WireLabel::Reuse);
        }
        assert_eq!(seen, vec![false, true, false, true, false, true]);
        run_strict(&s, 1, 10, frame_mode, &mut stats);

        // 3. labels sent while re-use is disabled are not remembered when it is enabled again
        let mut s = Sender::new();
        s.encap(5, a, 0x0800, None, vec![], 0, 100, &mut stats).unwrap();
        s.enc.disable_re_use_label();
        s.encap(5, b, 0x0800, None, vec![], 0, 100, &mut stats).unwrap();
        s.encap(5, Label::ReUse, 0x0800, None, vec![], 0, 100, &mut stats).unwrap(); // resolves to B
        s.enc.enable_re_use_label_with_max_consecutive(3);
        s.encap(5, a, 0x0800, None, vec![], 0, 100, &mut stats).unwrap();
        assert_eq!(wire_label_of(s.events.last().unwrap()), WireLabel::Six([1, 2, 3, 4, 5, 6]));
        s.encap(5, a, 0x0800, None, vec![], 0, 100, &mut stats).unwrap();
        assert_eq!(wire_label_of(s.events.last().unwrap()), WireLabel::Reuse);
        run_strict(&s, 1, 5, frame_mode, &mut stats);

        // 4. broadcast and reset forget, the all-zero 3-byte label is a label like any other,
        //    a 3-byte and a 6-byte label never re-use each other
        let mut s = Sender::new();
        s.encap(5, z3, 0x0800, None, vec![], 0, 100, &mut stats).unwrap();
        s.encap(5, z3, 0x0800, None, vec![], 0, 100, &mut stats).unwrap();
        assert_eq!(wire_label_of(s.events.last().unwrap()), WireLabel::Reuse);
        s.encap(5, Label::SixBytesLabel([0, 0, 0, 0, 0, 1]), 0x0800, None, vec![], 0, 100, &mut stats).unwrap();
        s.encap(5, Label::ThreeBytesLabel([0, 0, 1]), 0x0800, None, vec![], 0, 100, &mut stats).unwrap();
        assert_eq!(wire_label_of(s.events.last().unwrap()), WireLabel::Three([0, 0, 1]));
        s.encap(5, Label::Broadcast, 0x0800, None, vec![], 0, 100, &mut stats).unwrap();
        s.encap(5, Label::ThreeBytesLabel([0, 0, 1]), 0x0800, None, vec![], 0, 100, &mut stats).unwrap();
        assert_eq!(wire_label_of(s.events.last().unwrap()), WireLabel::Three([0, 0, 1]));
        s.encap(5, Label::Broadcast, 0x0800, None, vec![], 0, 100, &mut stats).unwrap();
        s.encap(5, Label::ReUse, 0x0800, None, vec![], 0, 100, &mut stats).unwrap(); // must be rejected
        s.reset();
        s.encap(5, Label::ThreeBytesLabel([0, 0, 1]), 0x0800, None, vec![], 0, 100, &mut stats).unwrap();
        assert_eq!(wire_label_of(s.events.last().unwrap()), WireLabel::Three([0, 0, 1]));
        run_strict(&s, 1, 5, frame_mode, &mut stats);

        // 5. re-use first fragment with extensions, zero PDU bytes in the first fragment,
        //    interleaved with another fragmented PDU and label changes; finished after a reset
        let mut s = Sender::new();
        let exts = vec![
            Extension::new(0x0301, &[1, 2, 3, 4]).unwrap(),
            Extension::new(0x0018, &[8; 8]).unwrap(),
            Extension::new(0x0022, &[7, 7]).unwrap(),
        ];
        s.encap(5, a, 0x0800, None, vec![], 0, 100, &mut stats).unwrap();
        // header: 2 + 3 + 2 + 0 (re-use) + (6 + 10 + 4 - 2) = 25
        assert_eq!(s.encap(40, a, 0x0022, Some(exts.clone()), exts.clone(), 7, 25, &mut stats), Ok(Role::First));
        assert_eq!(wire_label_of(s.events.last().unwrap()), WireLabel::Reuse);
        assert_eq!(s.encap(40, b, 0x0800, None, vec![], 8, 30, &mut stats), Ok(Role::First));
        s.encap(5, a, 0x0800, None, vec![], 0, 100, &mut stats).unwrap();
        assert_eq!(wire_label_of(s.events.last().unwrap()), WireLabel::Six([1, 2, 3, 4, 5, 6]));
        assert_eq!(s.cont(0, 20, &mut stats), Ok(false));
        s.reset();
        assert_eq!(s.cont(1, 100, &mut stats), Ok(true));
        assert_eq!(s.cont(0, 100, &mut stats), Ok(true));
        run_strict(&s, 2, 40, frame_mode, &mut stats);
    }
    stats.print("c04_named_scenarios");
}
