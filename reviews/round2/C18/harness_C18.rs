// Second-round adversarial harness for property C18
// "Previews predict exactly what encapsulation will produce".
//
// Public API only.  Copy to tests/harness_C18.rs and run with
//   CARGO_NET_OFFLINE=true cargo test --offline --test harness_C18 -- --nocapture
//   CARGO_NET_OFFLINE=true cargo test --offline --release --test harness_C18 -- --nocapture
//
// Three-way comparison everywhere it is possible:
//   preview  ==  what encap / encap_frag returned (status)  ==  what is on the wire (S/E bits, GSE length,
//   label type, payload bytes)  ==  an independent arithmetic model written from the GSE layout.

use dvb_gse_rust::crc::{CrcCalculator, DefaultCrc};
use dvb_gse_rust::gse_decap::{
    read_gse_header, DecapStatus, Decapsulator, GseDecapMemory, SimpleGseMemory,
};
use dvb_gse_rust::gse_encap::{
    encap_frag_preview, encap_preview, ContextFrag, EncapError, EncapMetadata, EncapPreview,
    EncapStatus, Encapsulator,
};
use dvb_gse_rust::header_extension::{Extension, MandatoryHeaderExt, MandatoryHeaderExtensionManager};
use dvb_gse_rust::label::Label;

const MAXN: usize = 70000;

// ---------------------------------------------------------------------------------------------
// helpers
// ---------------------------------------------------------------------------------------------

/// cheap CRC so that the big grids are not dominated by the CRC of 64 KiB PDUs
#[derive(Debug, Clone, PartialEq, Eq)]
struct NullCrc;
impl CrcCalculator for NullCrc {
    fn calculate_crc32(&self, _pdu: &[u8], p: u16, t: u16, l: &[u8]) -> u32 {
        0xA5A5_0000 ^ ((p as u32) << 3) ^ (t as u32) ^ ((l.len() as u32) << 28)
    }
}

/// receiver side: every mandatory id is a known final extension without data
#[derive(Clone, Copy)]
struct AllFinal0;
impl MandatoryHeaderExtensionManager for AllFinal0 {
    fn is_mandatory_header_id_known(&self, _id: u16) -> MandatoryHeaderExt {
        MandatoryHeaderExt::Final(0)
    }
}

struct Rng(u64);
impl Rng {
    fn next(&mut self) -> u64 {
        let mut x = self.0;
        x ^= x >> 12;
        x ^= x << 25;
        x ^= x >> 27;
        self.0 = x;
        x.wrapping_mul(0x2545_F491_4F6C_DD1D)
    }
    fn below(&mut self, n: usize) -> usize {
        (self.next() % (n as u64)) as usize
    }
    fn pick<T: Copy>(&mut self, v: &[T]) -> T {
        v[self.below(v.len())]
    }
}

#[derive(Clone, Copy, PartialEq, Eq, Debug)]
enum K {
    Complete,
    First,
    Inter,
    End,
}

/// kind / packet length / payload length
#[derive(Clone, Copy, PartialEq, Eq, Debug)]
struct Out {
    kind: K,
    pkt_len: u16,
    payload: usize,
}

/// S/E bits of the standard: 11 complete, 10 first, 00 intermediate, 01 end
fn wire_kind(hdr: u16) -> K {
    match hdr >> 14 {
        3 => K::Complete,
        2 => K::First,
        0 => K::Inter,
        _ => K::End,
    }
}

fn wire_label_len(hdr: u16) -> usize {
    match (hdr >> 12) & 3 {
        0 => 6,
        1 => 3,
        _ => 0,
    }
}

fn wire_label_is_reuse(hdr: u16) -> bool {
    (hdr >> 12) & 3 == 3
}

/// kind announced by a preview (PktType cannot be named from outside: compare with read_gse_header)
fn kind_of(p: &EncapPreview) -> K {
    let t = p.pkt_type();
    if t == read_gse_header(0xF000).unwrap().1 {
        K::Complete
    } else if t == read_gse_header(0xB000).unwrap().1 {
        K::First
    } else if t == read_gse_header(0x3000).unwrap().1 {
        K::Inter
    } else if t == read_gse_header(0x7000).unwrap().1 {
        K::End
    } else {
        unreachable!()
    }
}

fn big_pdu(n: usize) -> Vec<u8> {
    (0..n).map(|i| ((i * 31 + 7) % 251) as u8 | 1).collect()
}

fn all_labels() -> Vec<Label> {
    vec![
        Label::SixBytesLabel([1, 2, 3, 4, 5, 6]),
        Label::SixBytesLabel([0, 0, 0, 0, 0, 0]),
        Label::SixBytesLabel([0, 0, 0, 0, 0, 1]),
        Label::ThreeBytesLabel([7, 8, 9]),
        Label::ThreeBytesLabel([0, 0, 0]),
        Label::Broadcast,
        Label::ReUse,
    ]
}

// ---------------------------------------------------------------------------------------------
// independent model (written from the packet layouts, not from the code)
// ---------------------------------------------------------------------------------------------

fn model_encap(pdu_len: usize, label: Label, ptype: u16, buf: usize) -> Result<Out, EncapError> {
    if label == Label::SixBytesLabel([0; 6]) {
        return Err(EncapError::ErrorInvalidLabel);
    }
    if (0x0100..0x0600).contains(&ptype) {
        return Err(EncapError::ErrorProtocolType);
    }
    let ll = label.len();
    // complete: fixed header(2) + ptype(2) + label + pdu, at most 2 + 4095
    let complete = 2 + 2 + ll + pdu_len;
    if complete <= buf && complete <= 4097 {
        return Ok(Out { kind: K::Complete, pkt_len: complete as u16, payload: pdu_len });
    }
    // first: fixed header(2) + frag id(1) + total length(2) + ptype(2) + label
    let hdr = 2 + 1 + 2 + 2 + ll;
    if buf < hdr {
        return Err(EncapError::ErrorSizeBuffer);
    }
    if pdu_len + 2 + ll > 65535 {
        return Err(EncapError::ErrorPduLength);
    }
    let room = buf.min(4097);
    Ok(Out { kind: K::First, pkt_len: room as u16, payload: room - hdr })
}

fn model_frag(pdu_len: usize, sent: usize, buf: usize) -> Result<Out, EncapError> {
    if sent > pdu_len {
        return Err(EncapError::ErrorPduLength);
    }
    let rem = pdu_len - sent;
    // end: fixed header(2) + frag id(1) + rem + crc(4)
    let end = 2 + 1 + rem + 4;
    if end <= buf && end <= 4097 {
        return Ok(Out { kind: K::End, pkt_len: end as u16, payload: rem });
    }
    if buf > 3 && rem > 0 {
        let payload = (buf.min(4097) - 3).min(rem);
        return Ok(Out { kind: K::Inter, pkt_len: (3 + payload) as u16, payload });
    }
    Err(EncapError::ErrorSizeBuffer)
}

// ---------------------------------------------------------------------------------------------
// running the real thing and reading the wire
// ---------------------------------------------------------------------------------------------

struct Actual {
    out: Out,
    ctx: Option<ContextFrag>,
    hdr: u16,
}

fn do_encap<C: CrcCalculator>(
    enc: &mut Encapsulator<C>,
    pdu: &[u8],
    fid: u8,
    md: EncapMetadata,
    buf: &mut [u8],
) -> Result<Actual, EncapError> {
    let st = enc.encap(pdu, fid, md, buf)?;
    let hdr = u16::from_be_bytes([buf[0], buf[1]]);
    let gse_len = (hdr & 0x0FFF) as usize;
    let (kind, len, ctx) = match st {
        EncapStatus::CompletedPkt(l) => (K::Complete, l, None),
        EncapStatus::FragmentedPkt(l, c) => (K::First, l, Some(c)),
    };
    assert_eq!(wire_kind(hdr), kind, "status kind vs S/E bits");
    assert_eq!(gse_len + 2, len as usize, "status length vs GSE length field");
    assert!(len as usize <= buf.len());
    let ll = wire_label_len(hdr);
    let payload = match kind {
        K::Complete => gse_len - 2 - ll,
        _ => gse_len - 5 - ll,
    };
    if let Some(c) = ctx {
        assert_eq!(c.len_pdu_frag() as usize, payload);
        assert_eq!(c.frag_id(), fid);
        assert_eq!(buf[2], fid);
        let total = u16::from_be_bytes([buf[3], buf[4]]) as usize;
        assert_eq!(total, pdu.len() + 2 + ll);
    } else {
        assert_eq!(payload, pdu.len());
    }
    let l = len as usize;
    assert!(buf[l - payload..l] == pdu[..payload], "payload bytes");
    Ok(Actual { out: Out { kind, pkt_len: len, payload }, ctx, hdr })
}

fn do_frag<C: CrcCalculator>(
    enc: &Encapsulator<C>,
    pdu: &[u8],
    ctx: &ContextFrag,
    buf: &mut [u8],
) -> Result<Actual, EncapError> {
    let st = enc.encap_frag(pdu, ctx, buf)?;
    let hdr = u16::from_be_bytes([buf[0], buf[1]]);
    let gse_len = (hdr & 0x0FFF) as usize;
    let (kind, len, nctx) = match st {
        EncapStatus::CompletedPkt(l) => (K::End, l, None),
        EncapStatus::FragmentedPkt(l, c) => (K::Inter, l, Some(c)),
    };
    assert_eq!(wire_kind(hdr), kind, "status kind vs S/E bits");
    assert_eq!(gse_len + 2, len as usize, "status length vs GSE length field");
    assert!(len as usize <= buf.len());
    assert!(wire_label_is_reuse(hdr));
    assert_eq!(buf[2], ctx.frag_id());
    let payload = match kind {
        K::Inter => gse_len - 1,
        _ => gse_len - 5,
    };
    let old = ctx.len_pdu_frag() as usize;
    assert!(buf[3..3 + payload] == pdu[old..old + payload], "payload bytes");
    if let Some(c) = nctx {
        assert_eq!(c.len_pdu_frag(), (old + payload) as u16); // (wraps only for PDUs > 65535, dismissed)
        assert_eq!(c.crc(), ctx.crc());
        assert_eq!(c.frag_id(), ctx.frag_id());
    } else {
        assert_eq!(&buf[3 + payload..3 + payload + 4], &ctx.crc().to_be_bytes());
        assert_eq!(old + payload, pdu.len());
    }
    Ok(Actual { out: Out { kind, pkt_len: len, payload }, ctx: nctx, hdr })
}

#[derive(Default, Debug)]
struct Stats {
    cases: u64,
    complete: u64,
    first: u64,
    inter: u64,
    end: u64,
    e_size: u64,
    e_pdu: u64,
    e_ptype: u64,
    e_label: u64,
    substituted: u64,
    not_substituted: u64,
    preview_pdu_len_is_whole_pdu_but_payload_smaller: u64,
}
impl Stats {
    fn note(&mut self, r: &Result<Out, EncapError>) {
        match r {
            Ok(o) => {
                self.cases += 1;
                match o.kind {
                    K::Complete => self.complete += 1,
                    K::First => self.first += 1,
                    K::Inter => self.inter += 1,
                    K::End => self.end += 1,
                }
            }
            Err(e) => self.note_err(e),
        }
    }
    fn note_err(&mut self, e: &EncapError) {
        self.cases += 1;
        match e {
            EncapError::ErrorSizeBuffer => self.e_size += 1,
            EncapError::ErrorPduLength => self.e_pdu += 1,
            EncapError::ErrorProtocolType => self.e_ptype += 1,
            EncapError::ErrorInvalidLabel => self.e_label += 1,
            e => panic!("unexpected error {:?}", e),
        }
    }
}

/// the property itself, for encap (no substitution): kind + packet length, or same error
fn cmp_encap(
    what: &dyn Fn() -> String,
    pv: &Result<EncapPreview, EncapError>,
    act: &Result<Actual, EncapError>,
    st: &mut Stats,
) {
    match (pv, act) {
        (Ok(p), Ok(a)) => {
            assert_eq!(kind_of(p), a.out.kind, "KIND {}", what());
            assert!(p.pkt_type() == read_gse_header(a.hdr).unwrap().1, "KIND(wire) {}", what());
            assert_eq!(p.pkt_len(), a.out.pkt_len, "PKT_LEN {}", what());
            if p.pdu_len() != a.out.payload {
                st.preview_pdu_len_is_whole_pdu_but_payload_smaller += 1;
            }
        }
        (Err(e1), Err(e2)) => assert_eq!(e1, e2, "ERR {}", what()),
        (Ok(p), Err(e)) => panic!("preview Ok({:?}) but encap Err({:?}) {}", p, e, what()),
        (Err(e), Ok(a)) => panic!("preview Err({:?}) but encap Ok({:?}) {}", e, a.out, what()),
    }
}

/// the property itself, for encap_frag: kind + payload length + packet length, or same error
fn cmp_frag(
    what: &dyn Fn() -> String,
    pv: &Result<EncapPreview, EncapError>,
    act: &Result<Actual, EncapError>,
) {
    match (pv, act) {
        (Ok(p), Ok(a)) => {
            assert_eq!(kind_of(p), a.out.kind, "KIND {}", what());
            assert!(p.pkt_type() == read_gse_header(a.hdr).unwrap().1, "KIND(wire) {}", what());
            assert_eq!(p.pkt_len(), a.out.pkt_len, "PKT_LEN {}", what());
            assert_eq!(p.pdu_len(), a.out.payload, "PAYLOAD {}", what());
        }
        (Err(e1), Err(e2)) => assert_eq!(e1, e2, "ERR {}", what()),
        (Ok(p), Err(e)) => panic!("preview Ok({:?}) but encap_frag Err({:?}) {}", p, e, what()),
        (Err(e), Ok(a)) => panic!("preview Err({:?}) but encap_frag Ok({:?}) {}", e, a.out, what()),
    }
}

fn cmp_model(
    what: &dyn Fn() -> String,
    pv: &Result<EncapPreview, EncapError>,
    m: &Result<Out, EncapError>,
    with_payload: bool,
) {
    match (pv, m) {
        (Ok(p), Ok(o)) => {
            assert_eq!(kind_of(p), o.kind, "MODEL KIND {}", what());
            assert_eq!(p.pkt_len(), o.pkt_len, "MODEL PKT_LEN {}", what());
            if with_payload {
                assert_eq!(p.pdu_len(), o.payload, "MODEL PAYLOAD {}", what());
            }
        }
        (Err(e1), Err(e2)) => assert_eq!(e1, e2, "MODEL ERR {}", what()),
        _ => panic!("MODEL mismatch preview {:?} model {:?} {}", pv, m, what()),
    }
}

fn one_encap_case<C: CrcCalculator>(
    enc: &mut Encapsulator<C>,
    pdu: &[u8],
    md: EncapMetadata,
    buf: &mut [u8],
    real: bool,
    st: &mut Stats,
) {
    let (pl, bl) = (pdu.len(), buf.len());
    let what = move || format!("[pdu={} buf={} md={:?}]", pl, bl, md);
    let pv = encap_preview(pdu, md, buf);
    let m = model_encap(pl, md.label, md.protocol_type, bl);
    cmp_model(&what, &pv, &m, false);
    if real {
        let act = do_encap(enc, pdu, (pl % 256) as u8, md, buf);
        if let Ok(a) = &act {
            assert_eq!(Ok(a.out), m, "actual vs model {}", what());
            // re-use is disabled in the grids: the label on the wire is the one asked for
            assert_eq!(wire_label_len(a.hdr), md.label.len());
        }
        cmp_encap(&what, &pv, &act, st);
    }
    st.note(&m);
}

fn one_frag_case<C: CrcCalculator>(
    enc: &Encapsulator<C>,
    pdu: &[u8],
    ctx: &ContextFrag,
    buf: &mut [u8],
    real: bool,
    st: &mut Stats,
) {
    let (pl, bl, c) = (pdu.len(), buf.len(), *ctx);
    let what = move || format!("[pdu={} buf={} ctx={:?}]", pl, bl, c);
    let pv = encap_frag_preview(pdu, ctx, buf);
    let m = model_frag(pl, ctx.len_pdu_frag() as usize, bl);
    cmp_model(&what, &pv, &m, true);
    if real {
        let act = do_frag(enc, pdu, ctx, buf);
        if let Ok(a) = &act {
            assert_eq!(Ok(a.out), m, "actual vs model {}", what());
        }
        cmp_frag(&what, &pv, &act);
    }
    st.note(&m);
}

/// Is a re-use substitution pending for this label?  Observed through the public API only: a clone of
/// the encapsulator emits an empty PDU with that label into a roomy buffer and the label type is read
/// on the wire.  (Needed because a substitution also changes which *error* encap returns, and an error
/// leaves nothing on the wire to look at.)
fn substitution_pending<C: CrcCalculator + Clone>(enc: &Encapsulator<C>, label: Label) -> bool {
    if label == Label::ReUse {
        return false;
    }
    let mut probe = enc.clone();
    let mut b = [0u8; 32];
    match probe.encap(&[], 0, EncapMetadata::new(0x0800, label), &mut b) {
        Ok(_) => wire_label_is_reuse(u16::from_be_bytes([b[0], b[1]])),
        Err(_) => false, // all-zero six-byte label
    }
}

/// preview + encap on a stateful encapsulator.
/// No substitution pending: the property as stated (preview of the very same metadata).
/// Substitution pending (outside the property): the derived statement "preview of the same PDU with
/// Label::ReUse" is asserted instead and the case is counted in `substituted`.
fn checked_encap<C: CrcCalculator + Clone + PartialEq>(
    enc: &mut Encapsulator<C>,
    pdu: &[u8],
    fid: u8,
    md: EncapMetadata,
    buf: &mut [u8],
    what: &dyn Fn() -> String,
    st: &mut Stats,
) -> Result<Actual, EncapError> {
    let pending = substitution_pending(enc, md.label);
    let md_eff = if pending { EncapMetadata::new(md.protocol_type, Label::ReUse) } else { md };
    let pv = encap_preview(pdu, md_eff, buf);
    let snap = enc.clone();
    let act = do_encap(enc, pdu, fid, md, buf);
    match &act {
        Ok(a) => assert_eq!(pending, wire_label_is_reuse(a.hdr) && md.label != Label::ReUse, "probe vs wire {}", what()),
        Err(_) => assert!(*enc == snap, "failed encap changed the re-use state {}", what()),
    }
    if pending {
        st.substituted += 1;
    } else {
        st.not_substituted += 1;
    }
    cmp_encap(what, &pv, &act, st);
    act
}

const PTYPES_OK: [u16; 8] = [0x0000, 0x0001, 0x0081, 0x00FF, 0x0600, 0x0601, 0x0800, 0xFFFF];

// ---------------------------------------------------------------------------------------------
// T1: every PDU length 0..=70000, every label kind, buffers at every threshold
// ---------------------------------------------------------------------------------------------
#[test]
fn t01_encap_every_pdu_length() {
    let pdu = big_pdu(MAXN);
    let mut buf = vec![0u8; MAXN + 64];
    let mut enc = Encapsulator::new(NullCrc);
    enc.disable_re_use_label();
    let mut st = Stats::default();
    for label in all_labels() {
        let ll = label.len();
        for n in 0..=MAXN {
            let md = EncapMetadata::new(PTYPES_OK[n % PTYPES_OK.len()], label);
            let complete = 4 + ll + n;
            let hdr = 7 + ll;
            let mut bs: Vec<usize> = vec![0, 1, 2, 3, 4, hdr - 1, hdr, hdr + 1, 4096, 4097, 4098, 65535, 65536, MAXN];
            for d in 0..=6 {
                bs.push((complete + 3).saturating_sub(d)); // complete-3 ..= complete+3
            }
            bs.sort_unstable();
            bs.dedup();
            for b in bs {
                if b > MAXN + 64 {
                    continue;
                }
                one_encap_case(&mut enc, &pdu[..n], md, &mut buf[..b], true, &mut st);
            }
        }
    }
    println!("t01 {:?}", st);
}

// ---------------------------------------------------------------------------------------------
// T2: every buffer length 0..=70000 for the corner PDU lengths
// ---------------------------------------------------------------------------------------------
#[test]
fn t02_encap_every_buffer_length() {
    let pdu = big_pdu(MAXN);
    let mut buf = vec![0u8; MAXN];
    let mut enc = Encapsulator::new(NullCrc);
    enc.disable_re_use_label();
    let mut st = Stats::default();
    let mut pls: Vec<usize> = vec![0, 1, 2, 3, 10, 100, 1000, 69999, 70000];
    pls.extend(4080..=4100);
    pls.extend(65520..=65540);
    let mut real_cases = 0u64;
    for label in all_labels() {
        for (i, &n) in pls.iter().enumerate() {
            let md = EncapMetadata::new(PTYPES_OK[i % PTYPES_OK.len()], label);
            for b in 0..=MAXN {
                // preview vs model for every buffer; the real encapsulation for every buffer up to 4200
                // and around the other thresholds, every 7th beyond
                let real = !cfg!(debug_assertions)
                    || b <= 4200
                    || b % 7 == 0
                    || (b + 20 >= n && b <= n + 20)
                    || (65500..=65560).contains(&b)
                    || b + 10 >= MAXN;
                if real {
                    real_cases += 1;
                }
                one_encap_case(&mut enc, &pdu[..n], md, &mut buf[..b], real, &mut st);
            }
        }
    }
    println!("t02 real={} {:?}", real_cases, st);
}

// ---------------------------------------------------------------------------------------------
// T3: every protocol type 0..=0xFFFF x every label kind x size scenarios (error precedence included)
// ---------------------------------------------------------------------------------------------
#[test]
fn t03_encap_every_protocol_type() {
    let pdu = big_pdu(MAXN);
    let mut buf = vec![0u8; MAXN];
    let mut enc = Encapsulator::new(NullCrc);
    enc.disable_re_use_label();
    let mut st = Stats::default();
    // (pdu, buffer)
    let sc: [(usize, usize); 12] = [
        (0, 0),
        (0, 3),
        (0, 4),
        (0, 13),
        (10, 100),
        (10, 12),
        (10, 0),
        (4093, 4097),
        (4094, 8000),
        (65533, 70000),
        (65534, 70000),
        (70000, 70000),
    ];
    for label in all_labels() {
        for pt in 0..=0xFFFFu16 {
            let md = EncapMetadata::new(pt, label);
            for &(n, b) in &sc {
                one_encap_case(&mut enc, &pdu[..n], md, &mut buf[..b], true, &mut st);
            }
        }
    }
    println!("t03 {:?}", st);
}

// ---------------------------------------------------------------------------------------------
// T4: encap_frag, every remaining length 0..=70000, several (pdu, already sent) splits, threshold buffers
// ---------------------------------------------------------------------------------------------
#[test]
fn t04_frag_every_remaining_length() {
    let pdu = big_pdu(MAXN);
    let mut buf = vec![0u8; MAXN + 64];
    let enc = Encapsulator::new(NullCrc);
    let mut st = Stats::default();
    for rem in 0..=MAXN {
        // splits (pdu_len, sent) with pdu_len - sent == rem
        let mut splits: Vec<(usize, usize)> = vec![(rem, 0)];
        if rem + 1 <= MAXN {
            splits.push((rem + 1, 1));
        }
        let s = (MAXN - rem).min(65535);
        splits.push((rem + s, s));
        if rem + 4090 <= 65535 {
            splits.push((rem + 4090, 4090));
        }
        splits.dedup();
        let end = 7 + rem;
        let mut bs: Vec<usize> = vec![0, 1, 2, 3, 4, 5, 6, 7, 8, 4095, 4096, 4097, 4098, 65535, 65536, MAXN];
        for d in 0..=8 {
            bs.push((end + 3).saturating_sub(d)); // end-5 ..= end+3
        }
        bs.sort_unstable();
        bs.dedup();
        for &(n, sent) in &splits {
            let ctx = ContextFrag::new((rem % 256) as u8, 0xDEAD_0000 ^ rem as u32, sent as u16);
            for &b in &bs {
                if b > MAXN + 64 {
                    continue;
                }
                one_frag_case(&enc, &pdu[..n], &ctx, &mut buf[..b], true, &mut st);
            }
        }
    }
    println!("t04 {:?}", st);
}

// ---------------------------------------------------------------------------------------------
// T5: encap_frag, every buffer length 0..=70000 for the corner remaining lengths
// ---------------------------------------------------------------------------------------------
#[test]
fn t05_frag_every_buffer_length() {
    let pdu = big_pdu(MAXN);
    let mut buf = vec![0u8; MAXN];
    let enc = Encapsulator::new(NullCrc);
    let mut st = Stats::default();
    let mut rems: Vec<usize> = vec![0, 1, 2, 3, 4, 5, 10, 100, 1000, 69999, 70000];
    rems.extend(4085..=4100);
    rems.extend(65528..=65536);
    let mut real_cases = 0u64;
    for &rem in &rems {
        let mut splits: Vec<(usize, usize)> = vec![(rem, 0)];
        let s = (MAXN - rem).min(65535);
        splits.push((rem + s, s));
        splits.dedup();
        for &(n, sent) in &splits {
            let ctx = ContextFrag::new(255 - (rem % 256) as u8, rem as u32, sent as u16);
            for b in 0..=MAXN {
                let real = !cfg!(debug_assertions)
                    || b <= 4200
                    || b % 7 == 0
                    || (b + 20 >= rem && b <= rem + 20)
                    || (65500..=65560).contains(&b)
                    || b + 10 >= MAXN;
                if real {
                    real_cases += 1;
                }
                one_frag_case(&enc, &pdu[..n], &ctx, &mut buf[..b], real, &mut st);
            }
        }
    }
    println!("t05 real={} {:?}", real_cases, st);
}

// ---------------------------------------------------------------------------------------------
// T6: encap_frag, every context position 0..=65535 (valid and beyond the PDU), frag ids, crcs
// ---------------------------------------------------------------------------------------------
#[test]
fn t06_frag_every_context_position() {
    let pdu = big_pdu(MAXN);
    let mut buf = vec![0u8; MAXN];
    let enc = Encapsulator::new(NullCrc);
    let mut st = Stats::default();
    let pls = [0usize, 1, 5, 4090, 4097, 8000, 65534, 65535, 65536, 70000];
    let bs = [0usize, 2, 3, 4, 7, 8, 100, 4096, 4097, 4098, 70000];
    for &n in &pls {
        for sent in 0..=65535usize {
            let ctx = ContextFrag::new((sent % 256) as u8, (sent as u32).wrapping_mul(0x9E37_79B9), sent as u16);
            for &b in &bs {
                one_frag_case(&enc, &pdu[..n], &ctx, &mut buf[..b], true, &mut st);
            }
        }
    }
    println!("t06 {:?}", st);
}

// ---------------------------------------------------------------------------------------------
// T7: previews never modify anything, are deterministic, and do not disturb later traffic
// ---------------------------------------------------------------------------------------------
#[test]
fn t07_previews_modify_nothing() {
    let mut rng = Rng(0x1234_5678_9ABC_DEF1);
    let sizes: Vec<usize> = {
        let mut v = vec![0, 1, 2, 3, 4, 7, 8, 9, 10, 13, 100, 4000, 65535, 65536, 70000];
        v.extend(4090..=4100);
        v.extend(65527..=65534);
        v
    };
    let labels = all_labels();
    let mut n_cases = 0u64;
    for it in 0..6000 {
        let n = if it % 3 == 0 { rng.below(MAXN + 1) } else { rng.pick(&sizes) };
        let b = if it % 5 == 0 { rng.below(MAXN + 1) } else { rng.pick(&sizes) };
        let pdu: Vec<u8> = (0..n).map(|i| (i as u8).wrapping_mul(13) ^ it as u8).collect();
        let buf: Vec<u8> = (0..b).map(|i| (i as u8).wrapping_mul(7) ^ 0x5A).collect();
        let pdu0 = pdu.clone();
        let buf0 = buf.clone();
        let md = EncapMetadata::new(rng.next() as u16, rng.pick(&labels));
        let md0 = md;
        let ctx = ContextFrag::new(rng.next() as u8, rng.next() as u32, rng.next() as u16);
        let ctx0 = ctx;

        // two encapsulators in the same state: one will see previews in between, the other not
        let mut e1 = Encapsulator::new(DefaultCrc {});
        match it % 3 {
            0 => e1.disable_re_use_label(),
            1 => e1.enable_re_use_label_with_max_consecutive(2),
            _ => {}
        }
        let warm = EncapMetadata::new(0x0800, md.label);
        let mut w = [0u8; 64];
        let _ = e1.encap(b"warm", 1, warm, &mut w);
        let mut e2 = e1.clone();
        let snap = e1.clone();

        let p1 = encap_preview(&pdu, md, &buf);
        let f1 = encap_frag_preview(&pdu, &ctx, &buf);
        let p2 = encap_preview(&pdu, md, &buf);
        let f2 = encap_frag_preview(&pdu, &ctx, &buf);
        assert_eq!(p1, p2);
        assert_eq!(f1, f2);
        assert!(pdu == pdu0 && buf == buf0 && md == md0 && ctx == ctx0);
        assert!(e1 == snap, "encapsulator state changed by a preview");

        // same traffic with and without previews in between gives the same packets
        let mut b1 = buf.clone();
        let mut b2 = buf.clone();
        let r1 = e1.encap(&pdu, 3, md, &mut b1);
        let _ = encap_preview(&pdu, md, &b1);
        let r2 = e2.encap(&pdu, 3, md, &mut b2);
        assert_eq!(r1, r2);
        assert!(b1 == b2);
        assert!(e1 == e2);
        let r1 = e1.encap_frag(&pdu, &ctx, &mut b1);
        let r2 = e2.encap_frag(&pdu, &ctx, &mut b2);
        assert_eq!(r1, r2);
        assert!(b1 == b2);
        n_cases += 1;
    }
    println!("t07 cases={}", n_cases);
}

// ---------------------------------------------------------------------------------------------
// T8: whole fragmentations with arbitrary buffers at each step, all re-use modes, error paths in
//     between, restarts.  Substitution is detected on the wire (label type 11 although another label
//     was asked for); the property is asserted when it did not happen, and the derived statement
//     "preview of the same PDU with Label::ReUse" is asserted when it did.
// ---------------------------------------------------------------------------------------------
#[test]
fn t08_random_fragmentation_walks() {
    let mut rng = Rng(0xC18C_18C1_8C18_0001);
    let pdu_all = big_pdu(MAXN);
    let mut buf = vec![0u8; MAXN];
    let labels = all_labels();
    let good_labels: Vec<Label> = labels.iter().copied().filter(|l| *l != Label::SixBytesLabel([0; 6])).collect();
    let pls: Vec<usize> = {
        let mut v = vec![0, 1, 2, 3, 4, 5, 6, 7, 50, 500, 4000, 8190, 8200, 20000, 65000];
        v.extend(4084..=4100);
        v.extend(65524..=65536);
        v.push(70000);
        v
    };
    let bsmall: Vec<usize> = (0..=20).collect();
    let bmid: Vec<usize> = vec![21, 30, 64, 100, 188, 1000, 2000, 4000];
    let bbig: Vec<usize> = vec![4090, 4091, 4092, 4093, 4094, 4095, 4096, 4097, 4098, 4099, 4100, 5000, 8192, 65535, 65536, 70000];
    let mut st = Stats::default();
    let (mut steps, mut errs_injected, mut walks) = (0u64, 0u64, 0u64);

    for it in 0..12000u32 {
        let mut enc = Encapsulator::new(DefaultCrc {});
        match it % 5 {
            0 => enc.disable_re_use_label(),
            1 => enc.enable_re_use_label_with_max_consecutive(1),
            2 => enc.enable_re_use_label_with_max_consecutive(3),
            3 => enc.enable_re_use_label_with_max_consecutive(255),
            _ => enc.enable_re_use_label(),
        }
        // a handful of PDUs on the same encapsulator so that the re-use state matters
        let favourite = rng.pick(&good_labels);
        for _ in 0..4 {
            // error path first, sometimes
            if rng.below(3) == 0 {
                let n = rng.pick(&pls);
                let (md, b) = match rng.below(4) {
                    0 => (EncapMetadata::new(0x0800, Label::SixBytesLabel([0; 6])), rng.pick(&bbig)),
                    1 => (EncapMetadata::new(0x0100 + rng.below(0x500) as u16, favourite), rng.pick(&bbig)),
                    2 => (EncapMetadata::new(0x0800, favourite), rng.below(7 + favourite.len())),
                    _ => (EncapMetadata::new(0x0800, favourite), 70000),
                };
                let n = if b == 70000 && md.protocol_type == 0x0800 && md.label == favourite { 65534 + rng.below(4000) } else { n };
                let pdu = &pdu_all[..n];
                let what = move || format!("[inject pdu={} buf={} md={:?}]", n, b, md);
                let _ = checked_encap(&mut enc, pdu, 9, md, &mut buf[..b], &what, &mut st);
                errs_injected += 1;
            }
            if rng.below(7) == 0 {
                enc.reset_last_label();
            }
            if rng.below(23) == 0 {
                enc.disable_re_use_label();
                enc.enable_re_use_label();
            }

            let n = if rng.below(4) == 0 { rng.below(65534) } else { rng.pick(&pls) };
            let pdu = &pdu_all[..n];
            let label = if rng.below(2) == 0 { favourite } else { rng.pick(&good_labels) };
            let md = EncapMetadata::new(rng.pick(&PTYPES_OK), label);
            let fid = rng.next() as u8;
            let pick_buf = |rng: &mut Rng| match rng.below(10) {
                0 | 1 => rng.pick(&bsmall),
                2 | 3 | 4 => rng.pick(&bmid),
                5 | 6 | 7 => rng.pick(&bbig),
                _ => rng.below(MAXN + 1),
            };
            // first packet: retry with other buffers while the buffer is too small
            let mut ctx: Option<ContextFrag> = None;
            let mut done = false;
            for _try in 0..50 {
                let b = pick_buf(&mut rng);
                let what = move || format!("[walk it={} pdu={} buf={} md={:?}]", it, n, b, md);
                let act = checked_encap(&mut enc, pdu, fid, md, &mut buf[..b], &what, &mut st);
                steps += 1;
                match act {
                    Ok(a) => {
                        st.note(&Ok(a.out));
                        ctx = a.ctx;
                        done = a.ctx.is_none();
                        break;
                    }
                    Err(e) => {
                        st.note_err(&e);
                        if e == EncapError::ErrorPduLength {
                            done = true;
                            break;
                        }
                    }
                }
            }
            // the following fragments
            let mut guard = 0;
            while let (false, Some(c)) = (done, ctx) {
                guard += 1;
                assert!(guard < 100000);
                let b = pick_buf(&mut rng);
                let what = move || format!("[walk-frag it={} pdu={} buf={} ctx={:?}]", it, n, b, c);
                let pv = encap_frag_preview(pdu, &c, &buf[..b]);
                let m = model_frag(n, c.len_pdu_frag() as usize, b);
                cmp_model(&what, &pv, &m, true);
                let act = do_frag(&enc, pdu, &c, &mut buf[..b]);
                cmp_frag(&what, &pv, &act);
                steps += 1;
                match act {
                    Ok(a) => {
                        st.note(&Ok(a.out));
                        if a.out.kind == K::End {
                            done = true;
                        } else {
                            ctx = a.ctx;
                        }
                    }
                    Err(e) => st.note_err(&e),
                }
            }
            walks += 1;
        }
    }
    println!("t08 walks={} steps={} injected={} {:?}", walks, steps, errs_injected, st);
}

// ---------------------------------------------------------------------------------------------
// T9: frame walking.  The sender plans every packet of a base-band frame with the previews on the rest
//     of the frame, then encapsulates there, pads when nothing fits, interleaves several PDUs; the
//     receiver then walks the frame: the packet boundaries / kinds it sees are those the previews
//     announced, and the PDUs come out intact.
// ---------------------------------------------------------------------------------------------
struct Flight {
    pdu: Vec<u8>,
    md: EncapMetadata,
    ctx: ContextFrag,
}

#[test]
fn t09_frame_walking_with_padding_and_decap() {
    let mut rng = Rng(0xF00D_F00D_0BAD_C0DE);
    let good_labels: Vec<Label> = all_labels()
        .into_iter()
        .filter(|l| *l != Label::SixBytesLabel([0; 6]) && *l != Label::ReUse)
        .collect();
    let frame_sizes: Vec<usize> = vec![
        1, 2, 3, 4, 5, 6, 7, 8, 9, 10, 11, 12, 13, 14, 15, 16, 17, 20, 40, 100, 188, 1000, 2001, 4095, 4096, 4097,
        4098, 4099, 4100, 4104, 8000, 8194, 16200, 64800, 70000,
    ];
    let pls: Vec<usize> = {
        let mut v = vec![0, 1, 2, 3, 5, 7, 20, 100, 1400, 4000, 9000, 30000];
        v.extend(4084..=4098);
        v.extend(65525..=65534);
        v
    };
    let mut st = Stats::default();
    let (mut frames, mut pkts, mut pdus_out, mut paddings, mut too_long) = (0u64, 0u64, 0u64, 0u64, 0u64);

    for it in 0..1500u32 {
        let slots = rng.pick(&[1usize, 2, 3, 5, 256]);
        let max_flight = slots.min(3);
        let storage = rng.pick(&[65533usize, 65535, 65536, 70000]);
        let mut mem = SimpleGseMemory::new(slots, storage, 0, 0);
        for _ in 0..(max_flight + 2) {
            mem.provision_storage(vec![0u8; storage].into_boxed_slice()).unwrap();
        }
        let mut dec = Decapsulator::new(mem, DefaultCrc {}, AllFinal0);
        let mut enc = Encapsulator::new(DefaultCrc {});
        match it % 4 {
            0 => enc.disable_re_use_label(),
            1 => enc.enable_re_use_label_with_max_consecutive(2),
            _ => {}
        }
        let favourite = rng.pick(&good_labels);
        let mut flights: Vec<Flight> = vec![];
        // PDUs handed to the sender, in the order they were started, waiting to come out of the receiver
        let mut expected: Vec<(u8, Vec<u8>, EncapMetadata)> = vec![];
        let mut next_fid: usize = rng.below(256);
        let small_frames = it % 3 == 0;
        let n_frames = if small_frames { 60 } else { 12 };

        for _f in 0..n_frames {
            let fsz = if small_frames { rng.pick(&frame_sizes[..22]) } else { rng.pick(&frame_sizes) };
            let mut frame = vec![0u8; fsz];
            enc.reset_last_label();
            dec.reset_last_label();
            let mut pos = 0usize;
            let mut recs: Vec<(K, usize)> = vec![];
            loop {
                if pos >= fsz || recs.len() > 200 {
                    break;
                }
                let cont = !flights.is_empty() && (flights.len() >= max_flight || rng.below(2) == 0);
                if cont {
                    let i = rng.below(flights.len());
                    let fl = &flights[i];
                    let c = fl.ctx;
                    let (n, b) = (fl.pdu.len(), fsz - pos);
                    let what = move || format!("[frame it={} pdu={} rest={} ctx={:?}]", it, n, b, c);
                    let pv = encap_frag_preview(&fl.pdu, &c, &frame[pos..]);
                    let act = do_frag(&enc, &fl.pdu, &c, &mut frame[pos..]);
                    cmp_frag(&what, &pv, &act);
                    match act {
                        Ok(a) => {
                            st.note(&Ok(a.out));
                            recs.push((a.out.kind, a.out.pkt_len as usize));
                            pos += a.out.pkt_len as usize;
                            if a.out.kind == K::End {
                                flights.remove(i);
                            } else {
                                flights[i].ctx = a.ctx.unwrap();
                            }
                        }
                        Err(e) => {
                            st.note_err(&e);
                            assert_eq!(e, EncapError::ErrorSizeBuffer);
                            break; // pad the rest of the frame
                        }
                    }
                } else {
                    let n = if rng.below(3) == 0 { rng.below(12000) } else { rng.pick(&pls) };
                    let pdu: Vec<u8> = (0..n).map(|k| (k as u32).wrapping_mul(2654435761).wrapping_add(it) as u8).collect();
                    let label = if rng.below(3) != 0 { favourite } else { rng.pick(&good_labels) };
                    let md = EncapMetadata::new(rng.pick(&PTYPES_OK), label);
                    // frag id: distinct slot from the ones in flight
                    let fid = loop {
                        next_fid = (next_fid + 1) % 256;
                        if flights.iter().all(|f| f.ctx.frag_id() as usize % slots != next_fid % slots) {
                            break next_fid as u8;
                        }
                    };
                    let b = fsz - pos;
                    let what = move || format!("[frame it={} pdu={} rest={} md={:?}]", it, n, b, md);
                    let act = checked_encap(&mut enc, &pdu, fid, md, &mut frame[pos..], &what, &mut st);
                    match act {
                        Ok(a) => {
                            st.note(&Ok(a.out));
                            recs.push((a.out.kind, a.out.pkt_len as usize));
                            pos += a.out.pkt_len as usize;
                            expected.push((fid, pdu.clone(), md));
                            if let Some(c) = a.ctx {
                                flights.push(Flight { pdu, md, ctx: c });
                            }
                        }
                        Err(e) => {
                            st.note_err(&e);
                            if e == EncapError::ErrorPduLength {
                                // too long for its label: dropped, valid traffic goes on
                                too_long += 1;
                                assert!(n + 2 + label.len() > 65535);
                                continue;
                            }
                            assert_eq!(e, EncapError::ErrorSizeBuffer);
                            break; // pad
                        }
                    }
                }
            }
            // ---- receiver walks the frame
            let mut p = 0usize;
            for (kind, len) in &recs {
                let r = dec.decap(&frame[p..]);
                match r {
                    Ok((status, l)) => {
                        assert_eq!(l, *len, "receiver sees another packet length than previewed");
                        match status {
                            DecapStatus::FragmentedPkt(_) => assert!(*kind == K::First || *kind == K::Inter),
                            DecapStatus::CompletedPkt(pdu, md) => {
                                assert!(*kind == K::Complete || *kind == K::End);
                                // which PDU?  complete: the most recent started whose packet this is; match by content
                                let idx = expected
                                    .iter()
                                    .position(|(_, e, emd)| {
                                        e.len() == md.pdu_len()
                                            && emd.protocol_type == md.protocol_type()
                                            && emd.label == md.label()
                                            && e[..] == pdu[..md.pdu_len()]
                                    })
                                    .unwrap_or_else(|| panic!("it={} unexpected PDU out of the receiver", it));
                                expected.remove(idx);
                                pdus_out += 1;
                                dec.provision_storage(pdu).unwrap();
                            }
                            DecapStatus::Padding => panic!("padding where a packet was written"),
                        }
                    }
                    Err((e, _)) => panic!("it={} receiver refused a packet: {:?} kind {:?} len {}", it, e, kind, len),
                }
                p += *len;
                pkts += 1;
            }
            assert_eq!(p, pos);
            if fsz - p >= 2 {
                match dec.decap(&frame[p..]) {
                    Ok((DecapStatus::Padding, l)) => assert_eq!(l, fsz - p),
                    other => panic!("expected padding, got {:?}", other.map(|x| x.1)),
                }
                paddings += 1;
            }
            frames += 1;
        }
        // everything that was completely sent came out
        assert_eq!(expected.len(), flights.len(), "it={} PDUs lost", it);
        let _ = &flights.iter().map(|f| f.md).count();
    }
    println!(
        "t09 frames={} packets={} pdus_out={} paddings={} too_long={} {:?}",
        frames, pkts, pdus_out, paddings, too_long, st
    );
}

// ---------------------------------------------------------------------------------------------
// T10: contexts produced by encap_ext (every H-LEN class, final / non-final mandatory extensions with
//      0..=8 data bytes) are continued by encap_frag exactly as encap_frag_preview says
// ---------------------------------------------------------------------------------------------
#[test]
fn t10_frag_preview_after_encap_ext() {
    let mut rng = Rng(0xE47E_0000_1111_2222);
    let pdu_all = big_pdu(MAXN);
    let mut buf = vec![0u8; MAXN];
    let good_labels: Vec<Label> = all_labels().into_iter().filter(|l| *l != Label::SixBytesLabel([0; 6])).collect();
    let mut chains: Vec<(Vec<Extension>, u16)> = vec![];
    let data = [1u8, 2, 3, 4, 5, 6, 7, 8];
    for hlen in 1..=5u16 {
        let id = (hlen << 8) | 0x42;
        let dl = [0usize, 0, 2, 4, 6, 8][hlen as usize];
        chains.push((vec![Extension::new(id, &data[..dl]).unwrap()], 0x0800));
    }
    for dl in 0..=8usize {
        // final mandatory: the protocol type is its id
        chains.push((vec![Extension::new(0x0042, &data[..dl]).unwrap()], 0x0042));
        // non-final mandatory followed by an optional one, real protocol type behind
        chains.push((
            vec![Extension::new(0x0043, &data[..dl]).unwrap(), Extension::new(0x0301, &data[..4]).unwrap()],
            0x86DD,
        ));
        // optional then final mandatory
        chains.push((
            vec![Extension::new(0x0501, &data[..8]).unwrap(), Extension::new(0x0081, &data[..dl]).unwrap()],
            0x0081,
        ));
    }
    let pls = [0usize, 1, 30, 4070, 4080, 4090, 4093, 4097, 9000, 65520];
    let mut st = Stats::default();
    let mut firsts = 0u64;
    for (chain, pt) in &chains {
        for &label in &good_labels {
            for &n in &pls {
                for _rep in 0..6 {
                    let pdu = &pdu_all[..n];
                    let mut enc = Encapsulator::new(NullCrc);
                    enc.disable_re_use_label();
                    let md = EncapMetadata::new(*pt, label);
                    let b0 = match rng.below(4) {
                        0 => rng.below(64),
                        1 => 4090 + rng.below(12),
                        2 => rng.below(MAXN + 1),
                        _ => rng.below(n + 40),
                    };
                    let r = enc.encap_ext(pdu, 7, md, &mut buf[..b0], chain.clone());
                    let mut ctx = match r {
                        Ok(EncapStatus::FragmentedPkt(_, c)) => c,
                        _ => continue,
                    };
                    firsts += 1;
                    let mut guard = 0;
                    loop {
                        guard += 1;
                        assert!(guard < 100000);
                        let b = match rng.below(4) {
                            0 => rng.below(16),
                            1 => 4090 + rng.below(12),
                            2 => rng.below(MAXN + 1),
                            _ => rng.below(300),
                        };
                        let c = ctx;
                        let what = move || format!("[ext pdu={} buf={} ctx={:?}]", n, b, c);
                        let pv = encap_frag_preview(pdu, &c, &buf[..b]);
                        let act = do_frag(&enc, pdu, &c, &mut buf[..b]);
                        cmp_frag(&what, &pv, &act);
                        match act {
                            Ok(a) => {
                                st.note(&Ok(a.out));
                                if a.out.kind == K::End {
                                    break;
                                }
                                ctx = a.ctx.unwrap();
                            }
                            Err(e) => st.note_err(&e),
                        }
                    }
                }
            }
        }
    }
    println!("t10 chains={} first_fragments_by_encap_ext={} {:?}", chains.len(), firsts, st);
}

// ---------------------------------------------------------------------------------------------
// T11: the statement's re-use clause seen from the other side: with re-use enabled, whenever the label
//      on the wire is the one asked for (no substitution: other label, broadcast, first use, counter
//      exhausted, after reset, after re-enable), the preview is exact.  Exhaustive small state space.
// ---------------------------------------------------------------------------------------------
#[test]
fn t11_reuse_state_space() {
    let pdu_all = big_pdu(5000);
    let mut buf = vec![0u8; 5000];
    let labs = [
        Label::SixBytesLabel([1, 2, 3, 4, 5, 6]),
        Label::ThreeBytesLabel([0, 0, 0]),
        Label::ThreeBytesLabel([1, 2, 3]),
        Label::Broadcast,
        Label::ReUse,
    ];
    let sizes: [(usize, usize); 6] = [(0, 4), (3, 13), (3, 10), (4090, 4097), (4093, 4097), (5000, 5000)];
    let mut st = Stats::default();
    let mut seqs = 0u64;
    // all label sequences of length 4 x all modes x a size schedule
    for mode in 0..5 {
        for s in 0..(5usize.pow(4)) {
            for (zi, _) in sizes.iter().enumerate() {
                let mut enc = Encapsulator::new(NullCrc);
                match mode {
                    0 => enc.disable_re_use_label(),
                    1 => enc.enable_re_use_label(),
                    2 => enc.enable_re_use_label_with_max_consecutive(1),
                    3 => enc.enable_re_use_label_with_max_consecutive(2),
                    _ => {
                        enc.disable_re_use_label();
                        enc.enable_re_use_label_with_max_consecutive(1)
                    }
                }
                let mut x = s;
                for step in 0..4 {
                    let label = labs[x % 5];
                    x /= 5;
                    let (n, b) = sizes[(zi + step) % sizes.len()];
                    let md = EncapMetadata::new(0x0800, label);
                    let pdu = &pdu_all[..n];
                    let what = move || format!("[reuse mode={} seq={} step={} pdu={} buf={} md={:?}]", mode, s, step, n, b, md);
                    let before = st.substituted;
                    let act = checked_encap(&mut enc, pdu, 1, md, &mut buf[..b], &what, &mut st);
                    if st.substituted != before {
                        assert!(mode != 0 && label != Label::ReUse && label != Label::Broadcast);
                    }
                    st.note(&act.map(|a| a.out));
                }
                seqs += 1;
            }
        }
    }
    println!("t11 sequences={} {:?}", seqs, st);
}

// ---------------------------------------------------------------------------------------------
// T12: complete two-dimensional windows (every PDU length x every buffer length inside the windows
//      around every threshold), encap and encap_frag, every label kind
// ---------------------------------------------------------------------------------------------
#[test]
fn t12_full_windows() {
    let pdu = big_pdu(MAXN);
    let mut buf = vec![0u8; MAXN];
    let mut enc = Encapsulator::new(NullCrc);
    enc.disable_re_use_label();
    let mut st = Stats::default();
    let mut st2 = Stats::default();
    let mut ns: Vec<usize> = (0..=130).collect();
    ns.extend(4040..=4140);
    ns.extend(65500..=65560);
    ns.extend(69990..=70000);
    let mut bs: Vec<usize> = (0..=130).collect();
    bs.extend(4040..=4140);
    bs.extend(65500..=65600);
    bs.extend(69990..=70000);
    for label in all_labels() {
        for &n in &ns {
            let md = EncapMetadata::new(PTYPES_OK[n % PTYPES_OK.len()], label);
            for &b in &bs {
                one_encap_case(&mut enc, &pdu[..n], md, &mut buf[..b], true, &mut st);
            }
        }
    }
    // encap_frag: remaining length window x buffer window x two splits
    for &rem in &ns {
        for sent in [0usize, 1, 4090, 65535] {
            if rem + sent > MAXN {
                continue;
            }
            let ctx = ContextFrag::new(rem as u8, !(rem as u32), sent as u16);
            for &b in &bs {
                one_frag_case(&enc, &pdu[..rem + sent], &ctx, &mut buf[..b], true, &mut st2);
            }
        }
    }
    println!("t12 encap {:?}", st);
    println!("t12 frag  {:?}", st2);
}
