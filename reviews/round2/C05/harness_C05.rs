// HOW TO RUN (from the crate root, file placed in tests/harness_C05.rs):
//   CARGO_NET_OFFLINE=true cargo test --offline --release --test harness_C05 -- --nocapture --test-threads=1
//   CARGO_NET_OFFLINE=true cargo test --offline           --test harness_C05 -- --nocapture --test-threads=1
//   (debug thins the products unless C05_FULL=1; C05_SCALE=n multiplies the random seeds)
//
// Harness for property C05: "decap is total on arbitrary bytes: no panic, bounded and
// progressing consumption; the label / fragment-id peek function is likewise total".
//
// Public API only, no external crate, own PRNG, own packet builder.
// Every call to `decap` / `get_label_or_frag_id` goes through `Rx::feed`, which
//   * catches panics (-> VIOLATION),
//   * checks consumed <= buffer.len(),
//   * checks consumed >= min(2, buffer.len()) for a non-empty buffer (consumed == 0 for an empty one
//     is the only value the bound allows),
//   * additionally (stronger than the property, reported apart as MODEL) checks that consumed is
//     either the whole buffer or the announced packet length.
//
// Scale: env C05_SCALE (default 1) multiplies the random parts.

#![allow(clippy::all)]
#![allow(dead_code)]

use dvb_gse_rust::crc::{CrcCalculator, DefaultCrc};
use dvb_gse_rust::gse_decap::{
    DecapError, DecapMemoryError, DecapStatus, Decapsulator, GseDecapMemory, SimpleGseMemory,
};
use dvb_gse_rust::header_extension::{MandatoryHeaderExt, MandatoryHeaderExtensionManager};
use std::panic::{catch_unwind, AssertUnwindSafe};
use std::sync::atomic::{AtomicU64, Ordering};
use std::sync::Mutex;

// ---------------------------------------------------------------------------------------------
// PRNG (xorshift64*)
// ---------------------------------------------------------------------------------------------
#[derive(Clone)]
pub struct Rng(u64);
impl Rng {
    pub fn new(seed: u64) -> Self {
        Rng(seed.wrapping_mul(0x9E37_79B9_7F4A_7C15) | 1)
    }
    pub fn next(&mut self) -> u64 {
        let mut x = self.0;
        x ^= x >> 12;
        x ^= x << 25;
        x ^= x >> 27;
        self.0 = x;
        x.wrapping_mul(0x2545_F491_4F6C_DD1D)
    }
    pub fn below(&mut self, n: usize) -> usize {
        if n == 0 {
            0
        } else {
            (self.next() % n as u64) as usize
        }
    }
    pub fn pick<'a, T>(&mut self, v: &'a [T]) -> &'a T {
        &v[self.below(v.len())]
    }
    pub fn bytes(&mut self, n: usize) -> Vec<u8> {
        (0..n).map(|_| self.next() as u8).collect()
    }
    pub fn chance(&mut self, num: usize, den: usize) -> bool {
        self.below(den) < num
    }
}

fn scale() -> usize {
    std::env::var("C05_SCALE")
        .ok()
        .and_then(|s| s.parse().ok())
        .unwrap_or(1)
}

// ---------------------------------------------------------------------------------------------
// Mandatory extension managers
// ---------------------------------------------------------------------------------------------
#[derive(Clone, Copy, Debug, PartialEq, Eq)]
pub enum Mgr {
    /// knows nothing (like SimpleMandatoryExtensionHeaderManager)
    Nothing,
    /// 0x81 / 0x82 final without data (like SignalisationMandatoryExtensionHeaderManager)
    Signal,
    /// ids 0x00..=0x08 non final with id bytes of data, 0x10..=0x18 final with id-0x10 bytes,
    /// 0x81/0x82 final 0, 0xF0 non final 255, 0xF1 final 255, everything else unknown
    Table,
    /// every mandatory id known: even -> non final, odd -> final, data length = id & 7 (+ 8 if bit 3)
    All,
}
impl MandatoryHeaderExtensionManager for Mgr {
    fn is_mandatory_header_id_known(&self, id: u16) -> MandatoryHeaderExt {
        match self {
            Mgr::Nothing => MandatoryHeaderExt::Unknown,
            Mgr::Signal => match id {
                0x81 | 0x82 => MandatoryHeaderExt::Final(0),
                _ => MandatoryHeaderExt::Unknown,
            },
            Mgr::Table => match id {
                0x00..=0x08 => MandatoryHeaderExt::NonFinal(id as u8),
                0x10..=0x18 => MandatoryHeaderExt::Final((id - 0x10) as u8),
                0x81 | 0x82 => MandatoryHeaderExt::Final(0),
                0xF0 => MandatoryHeaderExt::NonFinal(255),
                0xF1 => MandatoryHeaderExt::Final(255),
                _ => MandatoryHeaderExt::Unknown,
            },
            Mgr::All => {
                let n = (id & 0x0F) as u8;
                if id & 0x10 == 0 {
                    MandatoryHeaderExt::NonFinal(n)
                } else {
                    MandatoryHeaderExt::Final(n)
                }
            }
        }
    }
}

pub type D = Decapsulator<SimpleGseMemory, DefaultCrc, Mgr>;

// ---------------------------------------------------------------------------------------------
// Statistics
// ---------------------------------------------------------------------------------------------
#[derive(Default, Clone, Debug)]
pub struct Stats {
    /// decap calls made to put a receiver in a state (property-checked too, not classified below)
    pub setup_calls: u64,
    /// decap calls on the inputs under test
    pub calls: u64,
    pub peeks: u64,
    pub ok_completed: u64,
    pub ok_fragment: u64,
    pub ok_padding: u64,
    pub err_size_buffer: u64,
    pub err_total_length: u64,
    pub err_gse_length: u64,
    pub err_size_pdu_buffer: u64,
    pub err_protocol_type: u64,
    pub err_mem_overflow: u64,
    pub err_mem_underflow: u64,
    pub err_mem_undefined: u64,
    pub err_mem_too_small: u64,
    pub err_mem_corrupted: u64,
    pub err_crc: u64,
    pub err_invalid_label: u64,
    pub err_no_label: u64,
    pub err_label_bcast_saved: u64,
    pub err_label_reuse_saved: u64,
    pub err_unknown_mandatory: u64,
    pub peek_label: u64,
    pub peek_fragid: u64,
    pub peek_err: u64,
    pub consumed_pkt: u64,
    pub consumed_all: u64,
    pub model_mismatch: u64,
    pub walks: u64,
    pub walk_steps: u64,
    pub roundtrip_ok: u64,
    pub roundtrip_bad: u64,
}
impl Stats {
    pub fn add(&mut self, o: &Stats) {
        macro_rules! a { ($($f:ident),*) => { $( self.$f += o.$f; )* } }
        a!(
            setup_calls, calls, peeks, ok_completed, ok_fragment, ok_padding, err_size_buffer, err_total_length,
            err_gse_length, err_size_pdu_buffer, err_protocol_type, err_mem_overflow,
            err_mem_underflow, err_mem_undefined, err_mem_too_small, err_mem_corrupted, err_crc,
            err_invalid_label, err_no_label, err_label_bcast_saved, err_label_reuse_saved,
            err_unknown_mandatory, peek_label, peek_fragid, peek_err, consumed_pkt, consumed_all,
            model_mismatch, walks, walk_steps, roundtrip_ok, roundtrip_bad
        );
    }
}

pub static VIOLATIONS: AtomicU64 = AtomicU64::new(0);
pub static FIRST_VIOLATION: Mutex<Option<String>> = Mutex::new(None);

fn hex(b: &[u8]) -> String {
    let mut s = String::new();
    for (i, x) in b.iter().enumerate() {
        if i >= 48 {
            s.push_str(&format!("..(+{})", b.len() - i));
            break;
        }
        s.push_str(&format!("{:02x}", x));
    }
    s
}

fn violation(msg: String) {
    VIOLATIONS.fetch_add(1, Ordering::SeqCst);
    let mut g = FIRST_VIOLATION.lock().unwrap_or_else(|e| e.into_inner());
    if g.is_none() {
        eprintln!("VIOLATION: {}", msg);
        *g = Some(msg);
    }
}

// ---------------------------------------------------------------------------------------------
// Receiver configuration / state builder
// ---------------------------------------------------------------------------------------------
#[derive(Clone, Copy, Debug, PartialEq, Eq)]
pub enum Free {
    /// no free storage at all
    Empty,
    /// exactly one free storage
    One,
    /// provisioned until the memory answers StorageOverflow
    Full,
}
#[derive(Clone, Copy, Debug, PartialEq, Eq)]
pub enum Open {
    None,
    /// a reassembly is open on the frag id used by the packet under test
    Same,
    /// a reassembly is open on another frag id that maps to the same slot (fid + slots)
    Alias,
    /// a reassembly is open on fid + 1
    Other,
    /// every slot holds a reassembly (ids fid .. fid + slots)
    All,
}
#[derive(Clone, Copy, Debug, PartialEq, Eq)]
pub enum Remember {
    None,
    L3,
    L3Zero,
    L6,
}
#[derive(Clone, Copy, Debug)]
pub struct Cfg {
    pub slots: usize,
    pub max_pdu: usize,
    pub storage_len: usize,
    pub free: Free,
    pub open: Open,
    /// label type bits of the first fragment that opens the contexts (0=6B 1=3B 2=bcast 3=reuse(after 3B))
    pub open_lt: u8,
    /// number of PDU bytes already stored in the open contexts (best effort, limited by storage)
    pub open_fill: usize,
    pub remember: Remember,
    pub mgr: Mgr,
}
impl Cfg {
    pub const fn base() -> Cfg {
        Cfg {
            slots: 4,
            max_pdu: 4096,
            storage_len: 4096,
            free: Free::Full,
            open: Open::None,
            open_lt: 1,
            open_fill: 10,
            remember: Remember::None,
            mgr: Mgr::Table,
        }
    }
}

pub struct Rx {
    pub d: D,
    pub cfg: Cfg,
    pub fid: u8,
    pub st: Stats,
    pub ctx: String,
    pub in_setup: bool,
}

pub const L3: [u8; 3] = [0xA1, 0xA2, 0xA3];
pub const L6: [u8; 6] = [0xB1, 0xB2, 0xB3, 0xB4, 0xB5, 0xB6];

impl Rx {
    pub fn build(cfg: Cfg, fid: u8) -> Rx {
        let mem = SimpleGseMemory::new(cfg.slots, cfg.max_pdu, 0, 0);
        let d = Decapsulator::new(mem, DefaultCrc {}, cfg.mgr);
        let mut rx = Rx {
            d,
            cfg,
            fid,
            st: Stats::default(),
            ctx: String::new(),
            in_setup: false,
        };
        rx.establish();
        rx
    }

    fn storage(&self) -> Box<[u8]> {
        vec![0x5A; self.cfg.storage_len].into_boxed_slice()
    }

    /// provision until the memory refuses
    pub fn refill(&mut self) -> usize {
        let mut n = 0;
        for _ in 0..1024 {
            let s = self.storage();
            match self.d.provision_storage(s) {
                Ok(()) => n += 1,
                Err(_) => break,
            }
        }
        n
    }
    pub fn drain(&mut self) -> usize {
        let mut n = 0;
        while let Ok(_b) = self.d.new_pdu() {
            n += 1;
            if n > 100_000 {
                break;
            }
        }
        n
    }

    /// ids of the contexts the configuration wants open
    fn wanted_ids(&self) -> Vec<u8> {
        let f = self.fid;
        match self.cfg.open {
            Open::None => vec![],
            Open::Same => vec![f],
            Open::Alias => vec![f.wrapping_add((self.cfg.slots % 256) as u8)],
            Open::Other => vec![f.wrapping_add(1)],
            Open::All => (0..self.cfg.slots.min(256))
                .map(|i| f.wrapping_add(i as u8))
                .collect(),
        }
    }

    /// (re)establish the configured state; the decapsulator is used through decap only
    pub fn establish(&mut self) {
        self.in_setup = true;
        self.establish_inner();
        self.in_setup = false;
    }
    fn establish_inner(&mut self) {
        // 1. contexts
        let ids = self.wanted_ids();
        for id in ids {
            // a storage must be available for a new context
            let s = self.storage();
            let _ = self.d.provision_storage(s);
            let lt = self.cfg.open_lt;
            if lt == 3 {
                // remember a label first
                let p = complete(1, &L3, &[0x08, 0x00], &[1, 2, 3]);
                self.feed_quiet(&p);
            }
            let label: &[u8] = match lt {
                0 => &L6,
                1 => &L3,
                _ => &[],
            };
            let first_chunk = self.cfg.open_fill.min(4000).min(self.cfg.storage_len);
            let total = 60000usize;
            let p = first(lt, id, total as u16, label, &[0x08, 0x00], &vec![0x11; first_chunk]);
            self.feed_quiet(&p);
            let mut have = first_chunk;
            while have + 4000 <= self.cfg.open_fill && have + 4000 <= self.cfg.storage_len {
                let p = inter(1, id, &vec![0x22; 4000]);
                self.feed_quiet(&p);
                have += 4000;
            }
            let rest = self.cfg.open_fill.min(self.cfg.storage_len).saturating_sub(have);
            if rest > 0 && rest <= 4094 {
                let p = inter(1, id, &vec![0x33; rest]);
                self.feed_quiet(&p);
            }
        }
        // 2. free list
        self.drain();
        match self.cfg.free {
            Free::Empty => {}
            Free::One => {
                let s = self.storage();
                let _ = self.d.provision_storage(s);
            }
            Free::Full => {
                self.refill();
            }
        }
        // 3. remembered label
        self.restore_label();
    }

    /// set the remembered label by a small valid complete packet (needs one storage, given back)
    pub fn restore_label(&mut self) {
        let was = self.in_setup;
        self.in_setup = true;
        self.restore_label_inner();
        self.in_setup = was;
    }
    fn restore_label_inner(&mut self) {
        let p = match self.cfg.remember {
            Remember::None => {
                self.d.reset_last_label();
                return;
            }
            Remember::L3 => complete(1, &L3, &[0x08, 0x00], &[]),
            Remember::L3Zero => complete(1, &[0, 0, 0], &[0x08, 0x00], &[]),
            Remember::L6 => complete(0, &L6, &[0x08, 0x00], &[]),
        };
        let lent = if self.cfg.free == Free::Empty {
            let s = self.storage();
            self.d.provision_storage(s).is_ok()
        } else {
            false
        };
        let r = self.feed_raw(&p);
        match r {
            Some(Ok((DecapStatus::CompletedPkt(b, _), _))) => {
                if !lent {
                    let _ = self.d.provision_storage(b);
                }
            }
            _ => {
                if lent {
                    let _ = self.d.new_pdu();
                }
            }
        }
    }

    fn feed_quiet(&mut self, buf: &[u8]) {
        if let Some(Ok((DecapStatus::CompletedPkt(b, _), _))) = self.feed_raw(buf) {
            let _ = self.d.provision_storage(b);
        }
    }

    /// decap + peek with all the property checks. None = panic (already recorded).
    pub fn feed_raw(
        &mut self,
        buf: &[u8],
    ) -> Option<Result<(DecapStatus, usize), (DecapError, usize)>> {
        // peek first (does not change the state: &self)
        if !self.in_setup {
            self.st.peeks += 1;
        }
        let d = &self.d;
        match guarded(|| d.get_label_or_frag_id(buf)) {
            Ok(Ok(dvb_gse_rust::gse_decap::LabelorFragId::Lbl(_))) => if !self.in_setup { self.st.peek_label += 1 },
            Ok(Ok(dvb_gse_rust::gse_decap::LabelorFragId::FragId(_))) => if !self.in_setup { self.st.peek_fragid += 1 },
            Ok(Err(_)) => if !self.in_setup { self.st.peek_err += 1 },
            Err(_) => violation(format!(
                "get_label_or_frag_id PANIC len={} buf={} cfg={:?} fid={} ctx={}",
                buf.len(),
                hex(buf),
                self.cfg,
                self.fid,
                self.ctx
            )),
        }
        if self.in_setup {
            self.st.setup_calls += 1;
        } else {
            self.st.calls += 1;
        }
        let d = &mut self.d;
        let r = match guarded(|| d.decap(buf)) {
            Ok(r) => r,
            Err(_) => {
                violation(format!(
                    "decap PANIC len={} buf={} cfg={:?} fid={} ctx={}",
                    buf.len(),
                    hex(buf),
                    self.cfg,
                    self.fid,
                    self.ctx
                ));
                return None;
            }
        };
        let consumed = match &r {
            Ok((_, n)) => *n,
            Err((_, n)) => *n,
        };
        let len = buf.len();
        if consumed > len || (len > 0 && consumed < len.min(2)) {
            violation(format!(
                "decap CONSUMED {} out of bounds for len={} buf={} result={} cfg={:?} fid={} ctx={}",
                consumed,
                len,
                hex(buf),
                match &r {
                    Ok((s, _)) => s.to_str(),
                    Err((e, _)) => e.to_str(),
                },
                self.cfg,
                self.fid,
                self.ctx
            ));
        }
        if self.in_setup {
            return Some(r);
        }
        // stronger model: whole buffer, or the announced packet
        if consumed == len {
            self.st.consumed_all += 1;
        } else if len >= 2 && consumed == 2 + (((buf[0] & 0x0F) as usize) << 8 | buf[1] as usize) {
            self.st.consumed_pkt += 1;
        } else {
            self.st.model_mismatch += 1;
        }
        let st = &mut self.st;
        match &r {
            Ok((DecapStatus::CompletedPkt(_, _), _)) => st.ok_completed += 1,
            Ok((DecapStatus::FragmentedPkt(_), _)) => st.ok_fragment += 1,
            Ok((DecapStatus::Padding, _)) => st.ok_padding += 1,
            Err((e, _)) => match e {
                DecapError::ErrorSizeBuffer => st.err_size_buffer += 1,
                DecapError::ErrorTotalLength => st.err_total_length += 1,
                DecapError::ErrorGseLength => st.err_gse_length += 1,
                DecapError::ErrorSizePduBuffer => st.err_size_pdu_buffer += 1,
                DecapError::ErrorProtocolType => st.err_protocol_type += 1,
                DecapError::ErrorMemory(m) => match m {
                    DecapMemoryError::StorageOverflow(_) => st.err_mem_overflow += 1,
                    DecapMemoryError::StorageUnderflow => st.err_mem_underflow += 1,
                    DecapMemoryError::UndefinedId => st.err_mem_undefined += 1,
                    DecapMemoryError::BufferTooSmall(_) => st.err_mem_too_small += 1,
                    DecapMemoryError::MemoryCorrupted => st.err_mem_corrupted += 1,
                },
                DecapError::ErrorCrc => st.err_crc += 1,
                DecapError::ErrorInvalidLabel => st.err_invalid_label += 1,
                DecapError::ErrorNoLabelSaved => st.err_no_label += 1,
                DecapError::ErrorLabelBroadcastSaved => st.err_label_bcast_saved += 1,
                DecapError::ErrorLabelReUseSaved => st.err_label_reuse_saved += 1,
                DecapError::ErrorUnkownMandatoryHeader => st.err_unknown_mandatory += 1,
            },
        }
        Some(r)
    }

    /// feed, giving a completed buffer back to the memory ("sticky" use: the state evolves)
    pub fn feed(&mut self, buf: &[u8]) -> usize {
        match self.feed_raw(buf) {
            None => buf.len().max(1),
            Some(Ok((DecapStatus::CompletedPkt(b, _), n))) => {
                let _ = self.d.provision_storage(b);
                n
            }
            Some(Ok((_, n))) => n,
            Some(Err((DecapError::ErrorMemory(DecapMemoryError::StorageOverflow(_)), n))) => n,
            Some(Err((_, n))) => n,
        }
    }

    /// true when the call can have touched more than the remembered label
    fn deep(buf: &[u8]) -> bool {
        if buf.len() < 2 {
            return false;
        }
        let gse_len = ((buf[0] & 0x0F) as usize) << 8 | buf[1] as usize;
        buf.len() >= gse_len + 2 && !(buf[0] & 0xF0 == 0)
    }

    /// feed in the configured state, and put the receiver back in that state afterwards
    pub fn feed_fresh(&mut self, buf: &[u8]) -> usize {
        let n = self.feed(buf);
        if Self::deep(buf) {
            let st = std::mem::take(&mut self.st);
            let ctx = std::mem::take(&mut self.ctx);
            let mut n_rx = Rx::build(self.cfg, self.fid);
            n_rx.st.add(&st);
            n_rx.ctx = ctx;
            *self = n_rx;
        } else if self.cfg.remember != Remember::None {
            self.restore_label();
        }
        n
    }

    /// walk a frame the way a receiver does; the walk must terminate within len/2 + 1 steps
    pub fn walk(&mut self, frame: &[u8]) {
        self.st.walks += 1;
        let mut off = 0usize;
        let mut steps = 0usize;
        while off < frame.len() {
            let n = self.feed(&frame[off..]);
            steps += 1;
            self.st.walk_steps += 1;
            if n == 0 || n > frame.len() - off {
                // already recorded as violation by feed_raw; stop to avoid looping for ever
                violation(format!(
                    "WALK stuck / overrun at offset {} of {} (consumed {}) frame={}",
                    off,
                    frame.len(),
                    n,
                    hex(frame)
                ));
                break;
            }
            off += n;
            if steps > frame.len() / 2 + 1 {
                violation(format!(
                    "WALK needs more than len/2+1 steps: {} steps for {} bytes",
                    steps,
                    frame.len()
                ));
                break;
            }
        }
    }
}

// ---------------------------------------------------------------------------------------------
// Packet builder (hand made, independent from the crate's encapsulator)
// ---------------------------------------------------------------------------------------------
pub fn hdr(start: bool, end: bool, lt: u8, gse_len: usize) -> [u8; 2] {
    let v: u16 = ((start as u16) << 15) | ((end as u16) << 14) | (((lt & 3) as u16) << 12)
        | (gse_len as u16 & 0x0FFF);
    v.to_be_bytes()
}

/// `chain`: bytes of the protocol type / extension chain. The first two go before the label, the
/// others (extension data, following ids, final protocol type) after the label.
pub fn complete(lt: u8, label: &[u8], chain: &[u8], pdu: &[u8]) -> Vec<u8> {
    let gse_len = chain.len() + label.len() + pdu.len();
    let mut v = Vec::with_capacity(gse_len + 2);
    v.extend_from_slice(&hdr(true, true, lt, gse_len));
    let k = chain.len().min(2);
    v.extend_from_slice(&chain[..k]);
    v.extend_from_slice(label);
    v.extend_from_slice(&chain[k..]);
    v.extend_from_slice(pdu);
    v
}
pub fn first(lt: u8, fid: u8, total_len: u16, label: &[u8], chain: &[u8], pdu: &[u8]) -> Vec<u8> {
    let gse_len = 3 + chain.len() + label.len() + pdu.len();
    let mut v = Vec::with_capacity(gse_len + 2);
    v.extend_from_slice(&hdr(true, false, lt, gse_len));
    v.push(fid);
    v.extend_from_slice(&total_len.to_be_bytes());
    let k = chain.len().min(2);
    v.extend_from_slice(&chain[..k]);
    v.extend_from_slice(label);
    v.extend_from_slice(&chain[k..]);
    v.extend_from_slice(pdu);
    v
}
pub fn inter(lt: u8, fid: u8, pdu: &[u8]) -> Vec<u8> {
    let gse_len = 1 + pdu.len();
    let mut v = Vec::with_capacity(gse_len + 2);
    v.extend_from_slice(&hdr(false, false, lt, gse_len));
    v.push(fid);
    v.extend_from_slice(pdu);
    v
}
pub fn end(lt: u8, fid: u8, pdu: &[u8], crc: u32) -> Vec<u8> {
    let gse_len = 1 + pdu.len() + 4;
    let mut v = Vec::with_capacity(gse_len + 2);
    v.extend_from_slice(&hdr(false, true, lt, gse_len));
    v.push(fid);
    v.extend_from_slice(pdu);
    v.extend_from_slice(&crc.to_be_bytes());
    v
}

/// a valid fragmented PDU: first + intermediates + end. `crc_label`: the label bytes covered by the
/// CRC / total length (empty for broadcast and re-use). `final_ptype`: protocol type after the chain.
pub fn fragments(
    lt: u8,
    fid: u8,
    label: &[u8],
    chain: &[u8],
    final_ptype: u16,
    pdu: &[u8],
    cuts: &[usize],
) -> Vec<Vec<u8>> {
    let crc_label: &[u8] = if lt == 3 || lt == 2 { &[] } else { label };
    let total = (pdu.len() + 2 + crc_label.len()) as u16;
    let crc = DefaultCrc {}.calculate_crc32(pdu, final_ptype, total, crc_label);
    let mut out = vec![];
    let mut pos = 0usize;
    let mut cuts: Vec<usize> = cuts.iter().map(|c| (*c).min(pdu.len())).collect();
    cuts.sort();
    let c0 = cuts.first().copied().unwrap_or(0);
    out.push(first(lt, fid, total, label, chain, &pdu[..c0]));
    pos = pos.max(c0);
    for c in cuts.iter().skip(1) {
        if *c > pos {
            out.push(inter(1, fid, &pdu[pos..*c]));
            pos = *c;
        }
    }
    out.push(end(1, fid, &pdu[pos..], crc));
    out
}

pub fn report(name: &str, st: &Stats) {
    println!("[C05 {}] {:?}", name, st);
}

pub fn finish(name: &str, st: &Stats) {
    report(name, st);
    let v = VIOLATIONS.load(Ordering::SeqCst);
    let first = FIRST_VIOLATION
        .lock()
        .unwrap_or_else(|e| e.into_inner())
        .clone();
    assert!(v == 0, "{}: {} violations, first: {:?}", name, v, first);
    assert!(
        st.model_mismatch == 0,
        "{}: MODEL (not the property): consumed neither buffer nor packet length {} times",
        name,
        st.model_mismatch
    );
}

/// run `f(chunk_index, &mut Stats)` on `n` chunks over the available cores
pub fn parallel<F: Fn(usize, &mut Stats) + Sync>(n: usize, f: F) -> Stats {
    let threads = std::thread::available_parallelism()
        .map(|x| x.get())
        .unwrap_or(4)
        .min(16);
    let next = std::sync::atomic::AtomicUsize::new(0);
    let total = Mutex::new(Stats::default());
    std::thread::scope(|s| {
        for _ in 0..threads {
            s.spawn(|| {
                let mut st = Stats::default();
                loop {
                    let i = next.fetch_add(1, Ordering::SeqCst);
                    if i >= n {
                        break;
                    }
                    f(i, &mut st);
                }
                total.lock().unwrap().add(&st);
            });
        }
    });
    let t = total.lock().unwrap().clone();
    t
}

thread_local! {
    static IN_CATCH: std::cell::Cell<bool> = std::cell::Cell::new(false);
}
static HOOK: std::sync::Once = std::sync::Once::new();
/// the harness turns panics of the code under test into recorded violations; keep their
/// backtraces out of the output, but keep the messages of the harness' own assertions
fn quiet_panics() {
    HOOK.call_once(|| {
        let default = std::panic::take_hook();
        std::panic::set_hook(Box::new(move |info| {
            if !IN_CATCH.with(|c| c.get()) {
                default(info);
            }
        }));
    });
}
fn guarded<R>(f: impl FnOnce() -> R) -> std::thread::Result<R> {
    IN_CATCH.with(|c| c.set(true));
    let r = catch_unwind(AssertUnwindSafe(f));
    IN_CATCH.with(|c| c.set(false));
    r
}

// ---------------------------------------------------------------------------------------------
// Receiver states
// ---------------------------------------------------------------------------------------------
/// (configuration, heavy). Heavy states are expensive to rebuild and are used on a header subset.
/// Debug builds are ~15x slower: unless C05_FULL=1 they thin the products (every header, every
/// state, every tail and every chain are still used, but not every combination of them).
pub fn lite() -> bool {
    cfg!(debug_assertions) && std::env::var("C05_FULL").map(|v| v != "1").unwrap_or(true)
}

pub fn states() -> Vec<(Cfg, bool)> {
    let b = Cfg::base();
    vec![
        // 0 no context, storage exactly full, nothing remembered
        (b, false),
        // 1 no context, no storage at all, manager knowing nothing
        (Cfg { free: Free::Empty, mgr: Mgr::Nothing, ..b }, false),
        // 2 reassembly open on the same frag id (3 byte label), label remembered
        (Cfg { open: Open::Same, remember: Remember::L3, ..b }, false),
        // 3 same id, 6 byte label, free list empty
        (Cfg { open: Open::Same, open_lt: 0, free: Free::Empty, ..b }, false),
        // 4 same id, opened with a re-use label, all-zero 3 byte label remembered
        (Cfg { open: Open::Same, open_lt: 3, remember: Remember::L3Zero, mgr: Mgr::All, ..b }, false),
        // 5 aliasing id, single slot
        (Cfg { slots: 1, open: Open::Alias, remember: Remember::L6, ..b }, false),
        // 6 aliasing id, 4 slots, one free storage
        (Cfg { open: Open::Alias, free: Free::One, mgr: Mgr::Signal, ..b }, false),
        // 7 other id
        (Cfg { open: Open::Other, open_lt: 2, ..b }, false),
        // 8 every slot busy, nothing free
        (Cfg { slots: 3, open: Open::All, free: Free::Empty, open_fill: 100, ..b }, false),
        // 9 zero length storages
        (Cfg { max_pdu: 0, storage_len: 0, open: Open::Same, open_fill: 0, ..b }, false),
        // 10 one byte storages
        (Cfg { max_pdu: 1, storage_len: 1, open: Open::Same, open_fill: 1, remember: Remember::L3, ..b }, false),
        // 11 three byte storages, minimum 0 (storage larger than the minimum)
        (Cfg { max_pdu: 0, storage_len: 3, open: Open::All, open_fill: 2, mgr: Mgr::All, ..b }, false),
        // 12 storages above 65535 with a nearly complete 16 bit counter
        (Cfg { slots: 2, max_pdu: 70000, storage_len: 70000, open: Open::Same, open_fill: 65530, ..b }, true),
        // 13 storages above 65535, counter at 61441 (one 4094 fragment still fits, the next does not)
        (Cfg { slots: 2, max_pdu: 65536, storage_len: 65600, open: Open::Same, open_fill: 61441, open_lt: 0, ..b }, true),
        // 14 256 slots all busy
        (Cfg { slots: 256, max_pdu: 16, storage_len: 16, open: Open::All, open_fill: 1, free: Free::One, ..b }, true),
        // 15 storage of exactly 4095 / open with 4000 bytes
        (Cfg { max_pdu: 4095, storage_len: 4095, open: Open::Same, open_fill: 4000, mgr: Mgr::All, ..b }, false),
    ]
}

// ---------------------------------------------------------------------------------------------
// T0: the builder produces packets the receiver accepts (otherwise "mutated valid" means nothing)
// ---------------------------------------------------------------------------------------------
#[test]
fn t0_builder_sanity() {
    quiet_panics();
    let mut total = Stats::default();
    for (lt, label) in [(0u8, &L6[..]), (1, &L3[..]), (2, &[][..]), (3, &[][..])] {
        for (chain, fin) in [
            (vec![0x08u8, 0x00], 0x0800u16),
            (vec![0x01, 0x23, 0x86, 0xDD], 0x86DD),
            (vec![0x02, 0x01, 9, 9, 0x05, 0x02, 1, 2, 3, 4, 5, 6, 7, 8, 0x06, 0x00], 0x0600),
            (vec![0x00, 0x03, 7, 7, 7, 0x12, 0x34], 0x1234),
            (vec![0x00, 0x12, 5, 5], 0x0012),
        ] {
            for pdu_len in [0usize, 1, 2, 100, 4000, 9000, 65000] {
                let mut rx = Rx::build(
                    Cfg { max_pdu: 70000, storage_len: 70000, remember: Remember::L3, ..Cfg::base() },
                    9,
                );
                let pdu: Vec<u8> = (0..pdu_len).map(|i| (i * 7 + 3) as u8).collect();
                // complete
                if pdu_len + chain.len() + label.len() <= 4095 {
                    let p = complete(lt, label, &chain, &pdu);
                    match rx.feed_raw(&p) {
                        Some(Ok((DecapStatus::CompletedPkt(b, m), n))) => {
                            assert_eq!(n, p.len());
                            assert_eq!(&b[..m.pdu_len()], &pdu[..]);
                            assert_eq!(m.protocol_type(), fin);
                            rx.st.roundtrip_ok += 1;
                        }
                        other => panic!("builder: complete rejected {:?} lt={} chain={:?}", other.map(|r| r.map(|x| x.1)), lt, chain),
                    }
                    rx.restore_label();
                }
                // fragmented
                if pdu_len >= 1 {
                    let mut cuts = vec![pdu_len.min(3)];
                    let mut c = cuts[0];
                    while c < pdu_len.saturating_sub(1) {
                        c = (c + 4000).min(pdu_len - 1);
                        cuts.push(c);
                    }
                    let frs = fragments(lt, 9, label, &chain, fin, &pdu, &cuts);
                    let k = frs.len();
                    for (i, f) in frs.iter().enumerate() {
                        let r = rx.feed_raw(f);
                        if i + 1 < k {
                            match r {
                                Some(Ok((DecapStatus::FragmentedPkt(_), n))) => assert_eq!(n, f.len()),
                                other => panic!("builder: fragment {} rejected {:?}", i, other.map(|r| r.map(|x| x.1))),
                            }
                        } else {
                            match r {
                                Some(Ok((DecapStatus::CompletedPkt(b, m), n))) => {
                                    assert_eq!(n, f.len());
                                    assert_eq!(&b[..m.pdu_len()], &pdu[..]);
                                    assert_eq!(m.protocol_type(), fin);
                                    rx.st.roundtrip_ok += 1;
                                }
                                other => panic!("builder: end rejected {:?} lt={} chain={:?} len={}", other.map(|r| r.map(|x| x.1)), lt, chain, pdu_len),
                            }
                        }
                    }
                }
                total.add(&rx.st);
            }
        }
    }
    // every configured state can be built
    for (cfg, _) in states() {
        for fid in [0u8, 7, 255] {
            let rx = Rx::build(cfg, fid);
            total.add(&rx.st);
        }
    }
    finish("t0_builder_sanity", &total);
}

// ---------------------------------------------------------------------------------------------
// T1: all byte strings of length 0..=3, in every state, fresh state for each
// ---------------------------------------------------------------------------------------------
#[test]
fn t1_tiny_exhaustive() {
    quiet_panics();
    let sts = states();
    let st = parallel(256, |b0, acc| {
        for (si, (cfg, heavy)) in sts.iter().enumerate() {
            // the frag id byte of a 3 byte buffer is its last byte: open contexts on 0 and on b0
            for fid in [0u8, b0 as u8] {
                if *heavy && fid != 0 {
                    continue;
                }
                let mut rx = Rx::build(*cfg, fid);
                rx.ctx = format!("t1 state {}", si);
                if b0 == 0 {
                    rx.feed_fresh(&[]);
                }
                rx.feed_fresh(&[b0 as u8]);
                for b1 in 0..=255u8 {
                    rx.feed_fresh(&[b0 as u8, b1]);
                    if *heavy && b1 > 8 && b1 < 250 {
                        continue;
                    }
                    if lite() && si > 0 && !(b1 < 16 || (b1 as usize + si) % 8 == 0) {
                        continue;
                    }
                    for b2 in 0..=255u8 {
                        rx.feed_fresh(&[b0 as u8, b1, b2]);
                    }
                }
                acc.add(&rx.st);
            }
        }
    });
    finish("t1_tiny_exhaustive", &st);
}

// ---------------------------------------------------------------------------------------------
// T2: all 65536 fixed headers x adversarial tails x truncations x states
// ---------------------------------------------------------------------------------------------
pub const TAIL_LEN: usize = 8300;
pub fn tails(fid: u8) -> Vec<Vec<u8>> {
    let mut pats: Vec<Vec<u8>> = vec![];
    let rep = |p: &[u8]| -> Vec<u8> { (0..TAIL_LEN).map(|i| p[i % p.len()]).collect() };
    pats.push(rep(&[0x00])); // zero labels, mandatory id 0, frag id 0, total length 0
    pats.push(rep(&[0xFF])); // protocol 0xFFFF, total length 0xFFFF
    pats.push(rep(&[0x01, 0x00])); // endless optional extensions without data / ids 0x0001
    pats.push(rep(&[0x00, 0x02])); // mandatory non final id 2 (Table: 2 data bytes) chains
    pats.push(rep(&[0x05, 0xFF])); // 8 byte optional extensions
    pats.push(rep(&[0x00, 0x81])); // final mandatory (Signal/Table)
    pats.push(rep(&[0x00, 0x1F])); // Mgr::All: final with 15 bytes
    pats.push(rep(&[0x06, 0x00])); // protocol type 0x0600 / 0x0006
    pats.push(rep(&[0x03, 0x00, 0x04, 0x00, 0x02, 0x00, 0x01, 0x00, 0x08, 0x00])); // mixed chain
    // a zero 6 byte label after a plain protocol type, then junk
    let mut z = vec![0x08, 0x00, 0, 0, 0, 0, 0, 0];
    z.extend(rep(&[0x77]));
    z.truncate(TAIL_LEN);
    pats.push(z);
    // huge total length, plain protocol type
    let mut h = vec![0xFF, 0xFF, 0x08, 0x00];
    h.extend(rep(&[0x99]));
    h.truncate(TAIL_LEN);
    pats.push(h);
    // pseudo random
    let mut r = Rng::new(0xC05);
    pats.push(r.bytes(TAIL_LEN));
    pats.push(r.bytes(TAIL_LEN));
    // each pattern as is, and behind a frag id byte (fields of fragments are shifted by one)
    let mut out = vec![];
    for p in pats {
        let mut q = vec![fid];
        q.extend_from_slice(&p[..TAIL_LEN - 1]);
        out.push(p);
        out.push(q);
    }
    out
}

fn truncations(pkt_len: usize) -> Vec<usize> {
    let mut v: Vec<usize> = vec![];
    if pkt_len <= 48 {
        v.extend(0..=pkt_len + 2);
    } else {
        v.extend(0..=13);
        v.push(pkt_len / 2);
        v.extend(pkt_len - 9..=pkt_len + 2);
    }
    v.extend([4096, 4097, 4098, 8192]);
    v.sort();
    v.dedup();
    v
}

#[test]
fn t2_all_headers_states_tails() {
    quiet_panics();
    let sts = states();
    let st = parallel(256, |hi, acc| {
        let fid = 0x42u8;
        let tl = tails(fid);
        let mut buf = vec![0u8; 2 + TAIL_LEN];
        for (si, (cfg, heavy)) in sts.iter().enumerate() {
            let mut rx = Rx::build(*cfg, fid);
            for (ti, t) in tl.iter().enumerate() {
                rx.ctx = format!("t2 state {} tail {}", si, ti);
                buf[2..].copy_from_slice(t);
                for lo in 0..=255usize {
                    let h = (hi << 8) | lo;
                    let gse_len = h & 0x0FFF;
                    if *heavy && !(h % 37 == 0 || gse_len < 16 || gse_len > 4090) {
                        continue;
                    }
                    if lite() && !((h + si * 7 + ti * 3) % 16 == 0 || gse_len < 16 || gse_len > 4090) {
                        continue;
                    }
                    buf[0] = hi as u8;
                    buf[1] = lo as u8;
                    for n in truncations(gse_len + 2) {
                        rx.feed_fresh(&buf[..n]);
                    }
                }
            }
            acc.add(&rx.st);
        }
    });
    finish("t2_all_headers_states_tails", &st);
}

// every truncation of every announced packet, the state evolving (sticky)
#[test]
fn t2b_all_headers_every_truncation() {
    quiet_panics();
    let st = parallel(256, |hi, acc| {
        let fid = 0x42u8;
        let tl = tails(fid);
        let mut buf = vec![0u8; 2 + TAIL_LEN];
        for (ci, cfg) in [
            Cfg { open: Open::Same, remember: Remember::L3, ..Cfg::base() },
            Cfg { open: Open::Alias, slots: 1, mgr: Mgr::All, free: Free::Empty, ..Cfg::base() },
        ]
        .iter()
        .enumerate()
        {
            let mut rx = Rx::build(*cfg, fid);
            for ti in [1usize, 17, 23] {
                if lite() && (ti != 17 || ci != 0) {
                    continue;
                }
                rx.ctx = format!("t2b cfg {} tail {}", ci, ti);
                buf[2..].copy_from_slice(&tl[ti]);
                for lo in 0..=255usize {
                    buf[0] = hi as u8;
                    buf[1] = lo as u8;
                    let pkt_len = (((hi << 8) | lo) & 0x0FFF) + 2;
                    for n in 0..=pkt_len + 1 {
                        rx.feed(&buf[..n]);
                    }
                }
            }
            acc.add(&rx.st);
        }
    });
    finish("t2b_all_headers_every_truncation", &st);
}

// ---------------------------------------------------------------------------------------------
// T3: structured packets: every field at its corners, announced length right and wrong
// ---------------------------------------------------------------------------------------------
pub fn chains() -> Vec<Vec<u8>> {
    let mut v: Vec<Vec<u8>> = vec![];
    let be = |p: u16| p.to_be_bytes().to_vec();
    // plain protocol types
    for p in [0x0600u16, 0x0601, 0x0800, 0x86DD, 0xFFFF] {
        v.push(be(p));
    }
    let ids = [
        0x0000u16, 0x0001, 0x0002, 0x0008, 0x0010, 0x0012, 0x0018, 0x001F, 0x0081, 0x0082, 0x00F0,
        0x00F1, 0x00FF, 0x0100, 0x0101, 0x01FF, 0x0200, 0x02FF, 0x0300, 0x03FF, 0x0400, 0x04FF,
        0x0500, 0x05FF,
    ];
    for id in ids {
        // the id alone (no data, no protocol type)
        v.push(be(id));
        // id + k data bytes + protocol type 0x0800, k = 0..=9 (right and wrong lengths)
        for k in 0..=9usize {
            let mut c = be(id);
            c.extend(std::iter::repeat(0xD0 + k as u8).take(k));
            c.extend(be(0x0800));
            v.push(c);
        }
    }
    // non final mandatory n data bytes, then final mandatory m data bytes (Table / All managers)
    for n in 0..=8u16 {
        for m in 0..=8u16 {
            let mut c = be(n);
            c.extend(std::iter::repeat(0xE0).take(n as usize));
            c.extend(be(0x10 + m));
            c.extend(std::iter::repeat(0xF0).take(m as usize));
            v.push(c);
        }
    }
    // mixed chain ending with a final mandatory extension / with a protocol type / with an id
    v.push(vec![0x01, 0x00, 0x02, 0x00, 1, 2, 0x00, 0x03, 1, 2, 3, 0x00, 0x12, 1, 2]);
    v.push(vec![0x01, 0x00, 0x02, 0x00, 1, 2, 0x00, 0x03, 1, 2, 3, 0x06, 0x00]);
    v.push(vec![0x01, 0x00, 0x01, 0x00]);
    v.push(vec![0x05, 0x00, 1, 2, 3, 4, 5, 6, 7, 8, 0x05, 0xFF, 1, 2, 3, 4, 5, 6, 7, 8, 0x05, 0xFF]);
    // 255 data bytes extensions
    let mut c = be(0x00F0);
    c.extend(vec![7u8; 255]);
    c.extend(be(0x00F1));
    c.extend(vec![8u8; 255]);
    v.push(c.clone());
    c.truncate(300);
    v.push(c);
    // very long chains
    let mut c: Vec<u8> = vec![];
    for _ in 0..2000 {
        c.extend(be(0x0100));
    }
    c.extend(be(0x0800));
    v.push(c);
    let mut c: Vec<u8> = vec![];
    for _ in 0..400 {
        c.extend(be(0x0500));
        c.extend([9u8; 8]);
    }
    c.extend(be(0x0800));
    v.push(c);
    v
}

fn set_gse_len(p: &mut [u8], gse_len: usize) {
    p[0] = (p[0] & 0xF0) | ((gse_len >> 8) & 0x0F) as u8;
    p[1] = gse_len as u8;
}

/// feed the packet with several announced lengths and several buffer lengths
fn feed_variants(rx: &mut Rx, p: &[u8], hdr_only: usize, filler: u8) {
    let truth = p.len() - 2;
    let mut lens = vec![
        truth,
        truth.wrapping_sub(1),
        truth + 1,
        truth.wrapping_sub(2),
        hdr_only,
        hdr_only.wrapping_sub(1),
        hdr_only + 1,
        0,
        1,
        2,
        3,
        4095,
        4094,
    ];
    lens.retain(|l| *l <= 4095);
    lens.sort();
    lens.dedup();
    let mut buf = p.to_vec();
    buf.resize(8192.max(p.len()), filler);
    for l in lens {
        set_gse_len(&mut buf, l);
        let mut bl = vec![l + 2, l + 3, 4097, 4098, 8192];
        bl.dedup();
        for n in bl {
            if n >= l + 2 && n <= buf.len() {
                rx.feed_fresh(&buf[..n]);
            }
        }
    }
}

#[test]
fn t3_structured_start_packets() {
    quiet_panics();
    let sts = states();
    let chs = chains();
    let nch = chs.len();
    let st = parallel(nch, |ci, acc| {
        let chain = &chs[ci];
        let fid = 0x42u8;
        let labels: [(u8, Vec<u8>); 6] = [
            (0, L6.to_vec()),
            (0, vec![0; 6]),
            (1, L3.to_vec()),
            (1, vec![0; 3]),
            (2, vec![]),
            (3, vec![]),
        ];
        for (si, (cfg, heavy)) in sts.iter().enumerate() {
            if *heavy && ci % 9 != 0 {
                continue;
            }
            if lite() && (ci + si) % 6 != 0 {
                continue;
            }
            let mut rx = Rx::build(*cfg, fid);
            for (lt, label) in labels.iter() {
                // ---- complete
                let over = chain.len() + label.len();
                let mut pdus: Vec<usize> = vec![0, 1, 2, 5];
                for g in [4093usize, 4094, 4095] {
                    if g >= over {
                        pdus.push(g - over);
                    }
                }
                for pl in pdus.iter() {
                    rx.ctx = format!("t3 complete state {} chain {} lt {} pdu {}", si, ci, lt, pl);
                    let p = complete(*lt, label, chain, &vec![0xAB; *pl]);
                    if p.len() - 2 <= 4095 {
                        feed_variants(&mut rx, &p, over, if ci % 2 == 0 { 0 } else { 0xFF });
                    }
                }
                // ---- first fragment
                let over = 3 + chain.len() + label.len();
                let mut pdus: Vec<usize> = vec![0, 1, 2, 5];
                for g in [4093usize, 4094, 4095] {
                    if g >= over {
                        pdus.push(g - over);
                    }
                }
                let slots = cfg.slots;
                for pl in pdus.iter() {
                    for f in [fid, fid.wrapping_add((slots % 256) as u8), fid.wrapping_add(1)] {
                        let crc_label = if *lt < 2 { label.len() } else { 0 };
                        let exact = (*pl + 2 + crc_label) as u16;
                        for tl in [0u16, 1, *pl as u16, *pl as u16 + 1, exact, exact + 1, 0xFFFF] {
                            rx.ctx = format!(
                                "t3 first state {} chain {} lt {} pdu {} fid {} total {}",
                                si, ci, lt, pl, f, tl
                            );
                            let p = first(*lt, f, tl, label, chain, &vec![0xCD; *pl]);
                            if p.len() - 2 <= 4095 {
                                if tl == exact || *pl <= 1 {
                                    feed_variants(&mut rx, &p, over, 0);
                                } else {
                                    rx.feed_fresh(&p);
                                }
                            }
                        }
                    }
                }
            }
            acc.add(&rx.st);
        }
    });
    finish("t3_structured_start_packets", &st);
}

#[test]
fn t3b_structured_continuations() {
    quiet_panics();
    let sts = states();
    let st = parallel(sts.len() * 4, |k, acc| {
        let (cfg, _heavy) = sts[k / 4];
        let lt = (k % 4) as u8;
        let fid = 0x42u8;
        let mut rx = Rx::build(cfg, fid);
        let room = cfg.storage_len.saturating_sub(cfg.open_fill);
        let to16 = 65535usize.saturating_sub(cfg.open_fill);
        let mut sizes = vec![0usize, 1, 2, 3, 4, 5, 100, 4089, 4090, 4091, 4092, 4093, 4094];
        for b in [room, to16] {
            for d in [-2i64, -1, 0, 1, 2] {
                let s = b as i64 + d;
                if s >= 0 && s <= 4094 {
                    sizes.push(s as usize);
                }
            }
        }
        sizes.sort();
        sizes.dedup();
        for f in [fid, fid.wrapping_add((cfg.slots % 256) as u8), fid.wrapping_add(1), 0, 255] {
            for s in sizes.iter() {
                rx.ctx = format!("t3b state {} lt {} fid {} size {}", k / 4, lt, f, s);
                // intermediate
                let p = inter(lt, f, &vec![0x44; *s]);
                feed_variants(&mut rx, &p, 1, 0);
                // end, wrong crcs (valid ones are produced in t4 / t5)
                if *s <= 4090 {
                    for crc in [0u32, 0xFFFF_FFFF, 0x1234_5678] {
                        let p = end(lt, f, &vec![0x55; *s], crc);
                        feed_variants(&mut rx, &p, 5, 0xFF);
                    }
                }
            }
        }
        acc.add(&rx.st);
    });
    finish("t3b_structured_continuations", &st);
}

// ---------------------------------------------------------------------------------------------
// T0b: the configured states really are what they claim (inspection through the public memory)
// ---------------------------------------------------------------------------------------------
#[test]
fn t0b_states_are_established() {
    quiet_panics();
    for (si, (cfg, _)) in states().iter().enumerate() {
        let fid = 0x42u8;
        let mut rx = Rx::build(*cfg, fid);
        let ids = rx.wanted_ids();
        // aliasing ids overwrite each other when there are more ids than slots: only the last survives
        for id in ids.iter() {
            let (c, b) = rx.d.memory.take_frag(*id).unwrap_or_else(|_| panic!("state {}: context {} missing", si, id));
            assert_eq!(c.frag_id, *id);
            assert_eq!(c.pdu_len as usize, cfg.open_fill.min(cfg.storage_len), "state {}", si);
            assert_eq!(b.len(), cfg.storage_len);
            rx.d.memory.save_frag((c, b)).unwrap();
        }
        if cfg.open != Open::Same && cfg.open != Open::All {
            assert!(rx.d.memory.take_frag(fid).is_err(), "state {}", si);
        }
        let free = rx.drain();
        match cfg.free {
            Free::Empty => assert_eq!(free, 0, "state {}", si),
            Free::One => assert_eq!(free, 1, "state {}", si),
            Free::Full => {
                assert!(free >= cfg.slots + 2, "state {}", si);
                // exactly full: one more is refused
                for _ in 0..free {
                    rx.d.provision_storage(rx.storage()).unwrap();
                }
                assert!(matches!(
                    rx.d.provision_storage(rx.storage()),
                    Err(DecapMemoryError::StorageOverflow(_))
                ));
            }
        }
    }
}

// ---------------------------------------------------------------------------------------------
// T4: random and mutated-valid traffic, frames up to 8 KiB with padding, interleavings, restarts
// ---------------------------------------------------------------------------------------------
fn valid_chains() -> Vec<(Vec<u8>, u16)> {
    vec![
        (vec![0x08, 0x00], 0x0800),
        (vec![0x06, 0x00], 0x0600),
        (vec![0xFF, 0xFF], 0xFFFF),
        (vec![0x01, 0x00, 0x86, 0xDD], 0x86DD),
        (vec![0x02, 0x10, 1, 2, 0x08, 0x00], 0x0800),
        (vec![0x03, 0x10, 1, 2, 3, 4, 0x04, 0x10, 1, 2, 3, 4, 5, 6, 0x08, 0x00], 0x0800),
        (vec![0x05, 0x10, 1, 2, 3, 4, 5, 6, 7, 8, 0x06, 0x00], 0x0600),
        (vec![0x00, 0x03, 1, 2, 3, 0x08, 0x00], 0x0800), // Table / All: non final, 3 bytes
        (vec![0x00, 0x12, 1, 2], 0x0012),                // Table / All: final, 2 bytes
        (vec![0x00, 0x81], 0x0081),                      // Signal / Table: final, 0 byte
        (vec![0x01, 0x00, 0x00, 0x02, 9, 9, 0x00, 0x18, 1, 2, 3, 4, 5, 6, 7, 8], 0x0018),
    ]
}

pub struct Flow {
    pub packets: std::collections::VecDeque<Vec<u8>>,
}

fn gen_flow(r: &mut Rng, fid: u8, big: bool) -> (Flow, Vec<u8>) {
    let lt = r.below(4) as u8;
    let label: Vec<u8> = match lt {
        0 => {
            if r.chance(1, 10) {
                vec![0; 6]
            } else {
                r.bytes(6)
            }
        }
        1 => {
            if r.chance(1, 5) {
                vec![0; 3]
            } else {
                r.bytes(3)
            }
        }
        _ => vec![],
    };
    let vc = valid_chains();
    let (chain, fin) = r.pick(&vc).clone();
    let lens_small = [0usize, 1, 2, 3, 10, 100, 1000, 4000, 4080, 4085, 4089, 4090, 4091, 4093, 4094, 4095, 4096, 4097];
    let lens_big = [5000usize, 8192, 9000, 20000, 65520, 65526, 65527, 65528, 65529, 65530, 65531, 65532, 65533, 65534, 65535, 65536, 66000];
    let pdu_len = if big && r.chance(1, 3) {
        *r.pick(&lens_big)
    } else if r.chance(1, 4) {
        r.below(4200)
    } else {
        *r.pick(&lens_small)
    };
    let pdu = r.bytes(pdu_len);
    let over = chain.len() + label.len();
    let mut q = std::collections::VecDeque::new();
    if over + pdu_len <= 4095 && r.chance(1, 2) {
        q.push_back(complete(lt, &label, &chain, &pdu));
    } else {
        // cuts: first chunk fits a first fragment, the others an intermediate, the last an end
        let max_first = 4095 - 3 - over;
        let mut cuts = vec![];
        let mut c = match r.below(4) {
            0 => 0,
            1 => max_first.min(pdu_len),
            _ => r.below(max_first.min(pdu_len) + 1),
        };
        cuts.push(c);
        while pdu_len - c > 4090 {
            let step = match r.below(4) {
                0 => 4094,
                1 => 1 + r.below(16),
                _ => 1 + r.below(4094),
            };
            c = (c + step).min(pdu_len);
            cuts.push(c);
        }
        if r.chance(1, 2) && pdu_len > c {
            // an extra cut inside the last part
            c += r.below(pdu_len - c + 1);
            cuts.push(c);
        }
        for p in fragments(lt, fid, &label, &chain, fin, &pdu, &cuts) {
            q.push_back(p);
        }
    }
    (Flow { packets: q }, pdu)
}

fn mutate(r: &mut Rng, p: &mut Vec<u8>) {
    match r.below(12) {
        0 => {
            if !p.is_empty() {
                let i = r.below(p.len());
                p[i] ^= 1 << r.below(8);
            }
        }
        1 => {
            if !p.is_empty() {
                let i = r.below(p.len().min(12));
                p[i] = *r.pick(&[0u8, 0xFF, 0x01, 0x05, 0x06, 0x80]);
            }
        }
        2 => {
            let n = r.below(p.len() + 1);
            p.truncate(n);
        }
        3 => {
            let n = r.below(20);
            let b = r.bytes(n);
            p.extend(b);
        }
        4 => {
            if p.len() >= 2 {
                let l = *r.pick(&[0usize, 1, 2, 3, 4, 5, 6, 7, 8, 9, 10, 4093, 4094, 4095]);
                set_gse_len(p, l);
            }
        }
        5 => {
            if p.len() >= 2 {
                let l = (p.len() - 2).wrapping_add(r.below(5)).wrapping_sub(2) & 0x0FFF;
                set_gse_len(p, l);
            }
        }
        6 => {
            if !p.is_empty() {
                p[0] ^= *r.pick(&[0x80u8, 0x40, 0xC0, 0x10, 0x20, 0x30]);
            }
        }
        7 => {
            if p.len() > 2 {
                p[2] = p[2].wrapping_add(*r.pick(&[1u8, 2, 4, 255]));
            }
        }
        8 => {
            // protocol type / extension id region
            if p.len() > 8 {
                let i = 2 + r.below(6);
                let v = *r.pick(&[0x0000u16, 0x0001, 0x0081, 0x00FF, 0x0100, 0x0101, 0x05FF, 0x0600]);
                p[i..i + 2].copy_from_slice(&v.to_be_bytes());
            }
        }
        9 => {
            // total length field of a first fragment
            if p.len() > 5 {
                let v = *r.pick(&[0u16, 1, 2, 0xFFFF, 0xFFFE, 0x1000]);
                p[3..5].copy_from_slice(&v.to_be_bytes());
            }
        }
        10 => {
            // several bit flips
            for _ in 0..1 + r.below(8) {
                if !p.is_empty() {
                    let i = r.below(p.len());
                    p[i] ^= 1 << r.below(8);
                }
            }
        }
        _ => {
            // crc region
            if p.len() > 4 {
                let n = p.len();
                p[n - 1 - r.below(4)] ^= 0xFF;
            }
        }
    }
}

fn random_cfg(r: &mut Rng) -> Cfg {
    let slots = *r.pick(&[1usize, 2, 3, 4, 7, 8, 16, 255, 256]);
    let (max_pdu, storage_len) = *r.pick(&[
        (0usize, 0usize),
        (1, 1),
        (0, 100),
        (100, 100),
        (4096, 4096),
        (4095, 4097),
        (9000, 9000),
        (65535, 65535),
        (65536, 65536),
        (0, 70000),
        (70000, 70000),
    ]);
    Cfg {
        slots,
        max_pdu,
        storage_len,
        free: *r.pick(&[Free::Empty, Free::One, Free::Full, Free::Full]),
        open: *r.pick(&[Open::None, Open::Same, Open::Alias, Open::Other, Open::All]),
        open_lt: r.below(4) as u8,
        open_fill: *r.pick(&[0usize, 1, 10, 4000]),
        remember: *r.pick(&[Remember::None, Remember::L3, Remember::L3Zero, Remember::L6]),
        mgr: *r.pick(&[Mgr::Nothing, Mgr::Signal, Mgr::Table, Mgr::All]),
    }
}

#[test]
fn t4_random_frames_walk() {
    quiet_panics();
    let seeds = 3072 * scale();
    let st = parallel(seeds, |seed, acc| {
        let mut r = Rng::new(0xC05_0000 + seed as u64);
        let mut cfg = random_cfg(&mut r);
        if cfg.slots >= 255 && cfg.storage_len > 10000 {
            cfg.storage_len = 9000;
            cfg.max_pdu = 9000;
        }
        let big = cfg.storage_len > 10000;
        let mut rx = Rx::build(cfg, r.next() as u8);
        let frames = if big { 150 } else { 400 };
        let mut flows: Vec<Flow> = vec![];
        let mut expected: Vec<Vec<u8>> = vec![];
        let mutation_rate = *r.pick(&[0usize, 1, 5, 20, 50]);
        for fi in 0..frames {
            rx.ctx = format!("t4 seed {} frame {}", seed, fi);
            // restart of the receiver (new memory, new decapsulator), or new base band frame
            if r.chance(1, 60) {
                let st = std::mem::take(&mut rx.st);
                rx = Rx::build(cfg, r.next() as u8);
                rx.st = st;
            } else if r.chance(1, 2) {
                rx.d.reset_last_label();
            }
            // storage management by the "application"
            match r.below(6) {
                0 => {
                    rx.drain();
                }
                1 => {
                    rx.refill();
                }
                2 => {
                    let s = rx.storage();
                    let _ = rx.d.provision_storage(s);
                }
                _ => {}
            }
            // compose a frame
            let limit = match r.below(6) {
                0 => r.below(64),
                1 => 4090 + r.below(10),
                2 => 8192,
                _ => r.below(8193),
            };
            let mut frame: Vec<u8> = vec![];
            loop {
                while flows.len() < 1 + r.below(3) {
                    let fid = match r.below(4) {
                        0 => rx.fid,
                        1 => rx.fid.wrapping_add((cfg.slots % 256) as u8),
                        2 => rx.fid.wrapping_add(1),
                        _ => r.next() as u8,
                    };
                    let (f, pdu) = gen_flow(&mut r, fid, big);
                    flows.push(f);
                    expected.push(pdu);
                    if expected.len() > 64 {
                        expected.remove(0);
                    }
                }
                let k = r.below(flows.len());
                let mut p = match flows[k].packets.pop_front() {
                    Some(p) => p,
                    None => {
                        flows.remove(k);
                        continue;
                    }
                };
                if r.below(100) < mutation_rate {
                    mutate(&mut r, &mut p);
                    if r.chance(1, 4) {
                        mutate(&mut r, &mut p);
                    }
                }
                if r.below(100) < mutation_rate / 4 {
                    // duplicate
                    flows[k].packets.push_front(p.clone());
                }
                if frame.len() + p.len() > limit {
                    if r.chance(1, 3) {
                        // cut the packet by the end of the frame
                        let room = limit.saturating_sub(frame.len());
                        frame.extend_from_slice(&p[..room.min(p.len())]);
                    } else {
                        flows[k].packets.push_front(p);
                    }
                    break;
                }
                frame.extend_from_slice(&p);
            }
            // padding / junk up to the limit
            if frame.len() < limit {
                let pad = match r.below(5) {
                    0 => 0,
                    1 => 1,
                    2 => 2 + r.below(3),
                    _ => limit - frame.len(),
                };
                let pad = pad.min(limit - frame.len());
                if r.chance(1, 8) {
                    let j = r.bytes(pad);
                    frame.extend(j);
                } else {
                    frame.extend(std::iter::repeat(0u8).take(pad));
                }
            }
            // walk it, looking at what comes out
            rx.st.walks += 1;
            let mut off = 0;
            let mut steps = 0;
            while off < frame.len() {
                let res = rx.feed_raw(&frame[off..]);
                steps += 1;
                rx.st.walk_steps += 1;
                let n = match res {
                    None => frame.len() - off,
                    Some(Ok((DecapStatus::CompletedPkt(b, m), n))) => {
                        if m.pdu_len() <= b.len() && expected.iter().any(|e| e[..] == b[..m.pdu_len()]) {
                            rx.st.roundtrip_ok += 1;
                        } else {
                            rx.st.roundtrip_bad += 1; // informative: mutated traffic
                        }
                        if r.chance(7, 8) {
                            let _ = rx.d.provision_storage(b);
                        }
                        n
                    }
                    Some(Ok((_, n))) => n,
                    Some(Err((_, n))) => n,
                };
                if n == 0 || n > frame.len() - off {
                    break; // recorded by feed_raw
                }
                off += n;
                if steps > frame.len() / 2 + 1 {
                    violation(format!("WALK too long: {} steps for {} bytes", steps, frame.len()));
                    break;
                }
            }
        }
        acc.add(&rx.st);
    });
    finish("t4_random_frames_walk", &st);
}

// pure random bytes (no structure), all lengths 0..=8192 in steps, sticky state, walking
#[test]
fn t4b_pure_random_buffers() {
    quiet_panics();
    let n = 1024 * scale();
    let st = parallel(n, |seed, acc| {
        let mut r = Rng::new(0xBEEF_0000 + seed as u64);
        let cfg = random_cfg(&mut r);
        let cfg = Cfg { storage_len: cfg.storage_len.min(9000), max_pdu: cfg.max_pdu.min(cfg.storage_len.min(9000)), ..cfg };
        let mut rx = Rx::build(cfg, r.next() as u8);
        for i in 0..600 {
            rx.ctx = format!("t4b seed {} buffer {}", seed, i);
            let len = match r.below(5) {
                0 => r.below(16),
                1 => 4090 + r.below(12),
                2 => 8192,
                _ => r.below(8193),
            };
            let mut b = r.bytes(len);
            // bias: small announced lengths make the walk go deep into the buffer
            if r.chance(1, 2) {
                for k in (0..b.len()).step_by(1 + r.below(40)) {
                    b[k] &= 0xF0;
                }
            }
            rx.walk(&b);
            if r.chance(1, 10) {
                rx.refill();
            }
        }
        acc.add(&rx.st);
    });
    finish("t4b_pure_random_buffers", &st);
}

// ---------------------------------------------------------------------------------------------
// T5: reassemblies around the 16 bit limits, storage smaller / equal / larger than the PDU
// ---------------------------------------------------------------------------------------------
#[test]
fn t5_big_reassemblies() {
    quiet_panics();
    let pdu_lens = [
        4093usize, 4094, 4095, 4096, 4097, 8190, 65524, 65525, 65526, 65527, 65528, 65529, 65530, 65531, 65532,
        65533, 65534, 65535, 65536, 65537, 69000,
    ];
    let st = parallel(pdu_lens.len() * 4, |k, acc| {
        let pdu_len = pdu_lens[k / 4];
        let lt = (k % 4) as u8;
        let label: &[u8] = match lt {
            0 => &L6,
            1 => &L3,
            _ => &[],
        };
        let mut r = Rng::new(k as u64 + 77);
        let pdu = r.bytes(pdu_len);
        for storage in [
            pdu_len - 1,
            pdu_len,
            pdu_len + 1,
            4096,
            65535,
            65536,
            70000,
        ] {
            for (ci, chunking) in [4094usize, 4090, 1500, 1].iter().enumerate() {
                if *chunking == 1 && !(storage == pdu_len + 1 && lt == 1) {
                    continue;
                }
                for (chain, fin) in [(vec![0x08u8, 0x00], 0x0800u16), (vec![0x00, 0x03, 1, 2, 3, 0x12, 0x34], 0x1234)] {
                    let cfg = Cfg {
                        slots: 2,
                        max_pdu: storage,
                        storage_len: storage,
                        remember: Remember::L3,
                        ..Cfg::base()
                    };
                    let mut rx = Rx::build(cfg, 5);
                    rx.ctx = format!("t5 pdu {} lt {} storage {} chunking {}", pdu_len, lt, storage, ci);
                    let over = 3 + chain.len() + label.len();
                    let mut cuts = vec![(4095 - over).min(*chunking)];
                    let mut c = cuts[0];
                    while pdu_len - c > 4090.min(*chunking) {
                        c += chunking;
                        cuts.push(c);
                    }
                    let frs = fragments(lt, 5, label, &chain, fin, &pdu, &cuts);
                    let mut got = false;
                    for f in frs.iter() {
                        if let Some(Ok((DecapStatus::CompletedPkt(b, m), _))) = rx.feed_raw(f) {
                            if b[..m.pdu_len()] == pdu[..] {
                                got = true;
                            }
                        }
                    }
                    let total_fits = pdu_len + 2 + if lt < 2 { label.len() } else { 0 } <= 65535;
                    if got {
                        rx.st.roundtrip_ok += 1;
                        assert!(total_fits && storage >= pdu_len, "{}: delivered although impossible", rx.ctx);
                    } else {
                        rx.st.roundtrip_bad += 1;
                        assert!(!(total_fits && storage >= pdu_len), "{}: valid reassembly not delivered", rx.ctx);
                    }
                    // error paths followed by valid traffic: a small complete PDU and a small fragmented one
                    rx.refill();
                    let p = complete(1, &L3, &[0x08, 0x00], &pdu[..storage.min(20)]);
                    match rx.feed_raw(&p) {
                        Some(Ok((DecapStatus::CompletedPkt(_, _), _))) => {}
                        other => panic!("{}: valid complete after the run refused: {:?}", rx.ctx, other.map(|x| x.map(|y| y.1))),
                    }
                    rx.refill();
                    let n = storage.min(50);
                    let frs = fragments(0, 5, &L6, &[0x08, 0x00], 0x0800, &pdu[..n], &[n / 3, n / 2]);
                    let mut ok = false;
                    for f in frs.iter() {
                        if let Some(Ok((DecapStatus::CompletedPkt(b, m), _))) = rx.feed_raw(f) {
                            ok = b[..m.pdu_len()] == pdu[..n];
                        }
                    }
                    assert!(ok, "{}: valid fragmented PDU after the run refused", rx.ctx);
                    acc.add(&rx.st);
                }
            }
        }
    });
    finish("t5_big_reassemblies", &st);
}

// ---------------------------------------------------------------------------------------------
// T6: every slot count 1..=256, free list empty / exactly full, all slots busy or not,
//     ids at the aliasing boundaries, sticky state, then valid traffic must still pass
// ---------------------------------------------------------------------------------------------
#[test]
fn t6_slot_sweep() {
    quiet_panics();
    let st = parallel(256, |k, acc| {
        let slots = k + 1;
        for free in [Free::Empty, Free::One, Free::Full] {
            for open in [Open::None, Open::All, Open::Alias] {
                for (max_pdu, storage_len) in [(0usize, 0usize), (8, 8), (64, 100)] {
                    let cfg = Cfg { slots, free, open, max_pdu, storage_len, open_fill: 3, mgr: Mgr::All, ..Cfg::base() };
                    let mut rx = Rx::build(cfg, 0);
                    rx.ctx = format!("t6 {:?}", cfg);
                    let ids = [0u8, 1, (slots - 1) as u8, (slots % 256) as u8, ((slots % 256) as u8).wrapping_add(1), 254, 255];
                    for round in 0..2 {
                        for id in ids {
                            for lt in 0..4u8 {
                                let label: &[u8] = match lt { 0 => &L6, 1 => &L3, _ => &[] };
                                for n in [0usize, 1, 5, 8, 9, 100, 101] {
                                    let pdu = vec![id ^ n as u8; n];
                                    rx.feed(&first(lt, id, 200, label, &[0x08, 0x00], &pdu));
                                    rx.feed(&inter(1, id, &pdu));
                                    rx.feed(&inter(1, id.wrapping_add(slots as u8), &pdu));
                                    if round == 1 {
                                        rx.feed(&end(1, id, &pdu, 0));
                                    }
                                    rx.feed(&complete(lt, label, &[0x00, 0x12, 1, 2], &pdu));
                                }
                            }
                        }
                    }
                    // valid traffic afterwards (needs one storage of sufficient size)
                    if storage_len >= 8 {
                        rx.refill();
                        let pdu = [1u8, 2, 3, 4, 5, 6, 7, 8];
                        let frs = fragments(1, 77, &L3, &[0x08, 0x00], 0x0800, &pdu, &[2, 5]);
                        let mut ok = false;
                        for f in frs.iter() {
                            if let Some(Ok((DecapStatus::CompletedPkt(b, m), _))) = rx.feed_raw(f) {
                                ok = b[..m.pdu_len()] == pdu[..];
                            }
                        }
                        assert!(ok, "{}: valid traffic refused after the sweep", rx.ctx);
                    }
                    acc.add(&rx.st);
                }
            }
        }
    });
    finish("t6_slot_sweep", &st);
}
