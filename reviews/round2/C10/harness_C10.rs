// Harness for property C10 (frame walking by consumed lengths).
//
// Public API only.  Copy to tests/harness_C10.rs and run
//   CARGO_NET_OFFLINE=true cargo test --offline --test harness_C10 -- --nocapture
//   CARGO_NET_OFFLINE=true cargo test --offline --release --test harness_C10 -- --nocapture
//
// What is checked for every packet of every frame:
//  * the bytes emitted by the encapsulator are exactly those of an independent serializer
//    (so the announced length is the on-wire length and the header never reads as padding);
//  * three receivers in lockstep: A walks the frame (`decap(&frame[off..])`), B gets the packet
//    alone, C gets the packet followed by random garbage.  The three results (status, metadata,
//    PDU storage, error, consumed length) must be equal, the consumed length must be the packet
//    length, and the three memories must stay equal;
//  * the result must be the one predicted by an independent semantic model of the receiver
//    (the model works on what the sender meant, it does not parse bytes);
//  * after the last packet, >= 2 zero bytes give Padding consuming the rest.
//  * in "clean" runs (no fault, enough storage) every PDU is delivered exactly once, intact.

use dvb_gse_rust::crc::DefaultCrc;
use dvb_gse_rust::gse_decap::{
    DecapError, DecapMemoryError, DecapStatus, Decapsulator, GseDecapMemory, SimpleGseMemory,
};
use dvb_gse_rust::gse_encap::{ContextFrag, EncapError, EncapMetadata, EncapStatus, Encapsulator};
use dvb_gse_rust::header_extension::{
    Extension, MandatoryHeaderExt, MandatoryHeaderExtensionManager,
};
use dvb_gse_rust::label::Label;
use std::collections::BTreeMap;

// ---------------------------------------------------------------------------------------------
// small deterministic PRNG
// ---------------------------------------------------------------------------------------------
struct Rng(u64);
impl Rng {
    fn new(seed: u64) -> Self {
        Rng(seed.wrapping_mul(0x9E37_79B9_7F4A_7C15) ^ 0xD1B5_4A32_D192_ED03 | 1)
    }
    fn next(&mut self) -> u64 {
        let mut x = self.0;
        x ^= x >> 12;
        x ^= x << 25;
        x ^= x >> 27;
        self.0 = x;
        x.wrapping_mul(0x2545_F491_4F6C_DD1D)
    }
    fn below(&mut self, n: usize) -> usize {
        if n == 0 {
            0
        } else {
            (self.next() >> 11) as usize % n
        }
    }
    fn range(&mut self, lo: usize, hi_incl: usize) -> usize {
        lo + self.below(hi_incl - lo + 1)
    }
    fn chance(&mut self, pct: usize) -> bool {
        self.below(100) < pct
    }
    fn pick<T: Clone>(&mut self, v: &[T]) -> T {
        v[self.below(v.len())].clone()
    }
}

// ---------------------------------------------------------------------------------------------
// receiver side mandatory extension manager (and the model's copy of the same table)
//   0x20+n : final, n data bytes (n in 0..=8)
//   0x40+n : non final, n data bytes (n in 0..=8)
// ---------------------------------------------------------------------------------------------
#[derive(Clone, Copy)]
struct Mgr;
impl MandatoryHeaderExtensionManager for Mgr {
    fn is_mandatory_header_id_known(&self, id: u16) -> MandatoryHeaderExt {
        match id {
            0x20..=0x28 => MandatoryHeaderExt::Final((id - 0x20) as u8),
            0x40..=0x48 => MandatoryHeaderExt::NonFinal((id - 0x40) as u8),
            _ => MandatoryHeaderExt::Unknown,
        }
    }
}
#[derive(PartialEq)]
enum M {
    Final,
    NonFinal,
    Unknown,
}
fn model_lookup(id: u16) -> M {
    if (0x20..=0x28).contains(&id) {
        M::Final
    } else if (0x40..=0x48).contains(&id) {
        M::NonFinal
    } else {
        M::Unknown
    }
}

// ---------------------------------------------------------------------------------------------
// independent CRC-32/MPEG-2
// ---------------------------------------------------------------------------------------------
fn crc32_mpeg(chunks: &[&[u8]]) -> u32 {
    let mut crc: u32 = 0xFFFF_FFFF;
    for c in chunks {
        for b in c.iter() {
            crc ^= (*b as u32) << 24;
            for _ in 0..8 {
                crc = if crc & 0x8000_0000 != 0 {
                    (crc << 1) ^ 0x04C1_1DB7
                } else {
                    crc << 1
                };
            }
        }
    }
    crc
}

// ---------------------------------------------------------------------------------------------
// what the sender wants to send
// ---------------------------------------------------------------------------------------------
#[derive(Clone, Debug, PartialEq)]
struct XE {
    id: u16,
    data: Vec<u8>,
}
impl XE {
    fn ext(&self) -> Extension {
        Extension::new(self.id, &self.data).unwrap()
    }
}
#[derive(Clone, Debug)]
struct Pdu {
    data: Vec<u8>,
    ptype: u16,
    label: Label,
    frag_id: u8,
    exts: Vec<XE>,
}

#[derive(Clone, Copy, Debug, PartialEq)]
enum Kind {
    Complete,
    First,
    Inter,
    End,
}

// semantic record of one packet on the wire
#[derive(Clone, Debug)]
struct Rec {
    kind: Kind,
    frag_id: u8,
    total_len: u16,
    ptype: u16,
    wire_label: Label,
    exts: Vec<XE>,
    payload: Vec<u8>,
    crc: u32,
    pdu_idx: usize,
}

fn lt_bits(l: &Label) -> u16 {
    match l {
        Label::SixBytesLabel(_) => 0,
        Label::ThreeBytesLabel(_) => 1,
        Label::Broadcast => 2,
        Label::ReUse => 3,
    }
}

// independent serializer
fn serialize(rec: &Rec) -> Vec<u8> {
    let mut body: Vec<u8> = vec![];
    let (se, lt) = match rec.kind {
        Kind::Complete => (0xC000u16, lt_bits(&rec.wire_label)),
        Kind::First => (0x8000, lt_bits(&rec.wire_label)),
        Kind::Inter => (0x0000, 3),
        Kind::End => (0x4000, 3),
    };
    match rec.kind {
        Kind::Complete | Kind::First => {
            if rec.kind == Kind::First {
                body.push(rec.frag_id);
                body.extend_from_slice(&rec.total_len.to_be_bytes());
            }
            if rec.exts.is_empty() {
                body.extend_from_slice(&rec.ptype.to_be_bytes());
                body.extend_from_slice(rec.wire_label.get_bytes());
            } else {
                body.extend_from_slice(&rec.exts[0].id.to_be_bytes());
                body.extend_from_slice(rec.wire_label.get_bytes());
                for (i, e) in rec.exts.iter().enumerate() {
                    body.extend_from_slice(&e.data);
                    if i + 1 < rec.exts.len() {
                        body.extend_from_slice(&rec.exts[i + 1].id.to_be_bytes());
                    }
                }
                if rec.ptype >= 0x600 {
                    body.extend_from_slice(&rec.ptype.to_be_bytes());
                }
            }
            body.extend_from_slice(&rec.payload);
        }
        Kind::Inter => {
            body.push(rec.frag_id);
            body.extend_from_slice(&rec.payload);
        }
        Kind::End => {
            body.push(rec.frag_id);
            body.extend_from_slice(&rec.payload);
            body.extend_from_slice(&rec.crc.to_be_bytes());
        }
    }
    assert!(body.len() <= 0xFFF, "model packet too long {}", body.len());
    let hdr: u16 = se | (lt << 12) | body.len() as u16;
    let mut out = hdr.to_be_bytes().to_vec();
    out.extend_from_slice(&body);
    out
}

// ---------------------------------------------------------------------------------------------
// normalized outcome
// ---------------------------------------------------------------------------------------------
#[derive(Debug, PartialEq, Clone)]
enum EK {
    SizeBuffer,
    TotalLength,
    GseLength,
    SizePdu,
    Protocol,
    MemUnderflow,
    MemUndefined,
    MemOverflow(usize),
    MemTooSmall(usize),
    MemCorrupted,
    Crc,
    InvalidLabel,
    NoLabelSaved,
    BroadcastSaved,
    ReuseSaved,
    UnknownMandatory,
}
#[derive(Debug, PartialEq, Clone)]
enum Out {
    Completed {
        data: Vec<u8>,
        ptype: u16,
        label: Label,
        exts: Vec<Extension>,
        storage: usize,
    },
    Frag {
        pdu_len: usize,
        ptype: u16,
        label: Label,
        exts: Vec<Extension>,
    },
    Padding,
    Err(EK),
}
type Raw = Result<(DecapStatus, usize), (DecapError, usize)>;

fn norm(r: &Raw) -> (Out, usize) {
    match r {
        Ok((DecapStatus::CompletedPkt(buf, md), n)) => (
            Out::Completed {
                data: buf[..md.pdu_len()].to_vec(),
                ptype: md.protocol_type(),
                label: md.label(),
                exts: md.extensions().clone(),
                storage: buf.len(),
            },
            *n,
        ),
        Ok((DecapStatus::FragmentedPkt(md), n)) => (
            Out::Frag {
                pdu_len: md.pdu_len(),
                ptype: md.protocol_type(),
                label: md.label(),
                exts: md.extensions().clone(),
            },
            *n,
        ),
        Ok((DecapStatus::Padding, n)) => (Out::Padding, *n),
        Err((e, n)) => {
            let k = match e {
                DecapError::ErrorSizeBuffer => EK::SizeBuffer,
                DecapError::ErrorTotalLength => EK::TotalLength,
                DecapError::ErrorGseLength => EK::GseLength,
                DecapError::ErrorSizePduBuffer => EK::SizePdu,
                DecapError::ErrorProtocolType => EK::Protocol,
                DecapError::ErrorMemory(m) => match m {
                    DecapMemoryError::StorageUnderflow => EK::MemUnderflow,
                    DecapMemoryError::UndefinedId => EK::MemUndefined,
                    DecapMemoryError::StorageOverflow(b) => EK::MemOverflow(b.len()),
                    DecapMemoryError::BufferTooSmall(b) => EK::MemTooSmall(b.len()),
                    DecapMemoryError::MemoryCorrupted => EK::MemCorrupted,
                },
                DecapError::ErrorCrc => EK::Crc,
                DecapError::ErrorInvalidLabel => EK::InvalidLabel,
                DecapError::ErrorNoLabelSaved => EK::NoLabelSaved,
                DecapError::ErrorLabelBroadcastSaved => EK::BroadcastSaved,
                DecapError::ErrorLabelReUseSaved => EK::ReuseSaved,
                DecapError::ErrorUnkownMandatoryHeader => EK::UnknownMandatory,
            };
            (Out::Err(k), *n)
        }
    }
}

// ---------------------------------------------------------------------------------------------
// semantic model of the receiver
// ---------------------------------------------------------------------------------------------
struct MCtx {
    frag_id: u8,
    label: Label,
    ptype: u16,
    total_len: u16,
    from_reuse: bool,
    exts: Vec<Extension>,
    data: Vec<u8>,
    storage: usize,
}
struct Model {
    last: Option<Label>,
    slots: Vec<Option<MCtx>>,
    free: Vec<usize>, // LIFO of storage sizes
    cap: usize,
    max_pdu_size: usize,
}
#[derive(Debug, PartialEq)]
enum PE {
    Overflow,
    TooSmall,
}
impl Model {
    fn new(slots: usize, max_pdu_size: usize) -> Self {
        Model {
            last: None,
            slots: (0..slots).map(|_| None).collect(),
            free: vec![],
            cap: slots + 2,
            max_pdu_size,
        }
    }
    fn provision(&mut self, size: usize) -> Result<(), PE> {
        if self.free.len() == self.cap {
            return Err(PE::Overflow);
        }
        if size < self.max_pdu_size {
            return Err(PE::TooSmall);
        }
        self.free.push(size);
        Ok(())
    }
    fn give_back(&mut self, st: usize, ek: EK) -> Out {
        match self.provision(st) {
            Ok(()) => Out::Err(ek),
            Err(PE::Overflow) => Out::Err(EK::MemOverflow(st)),
            Err(PE::TooSmall) => Out::Err(EK::MemTooSmall(st)),
        }
    }
    fn take_exact(&mut self, fid: u8) -> Option<MCtx> {
        let idx = fid as usize % self.slots.len();
        match &self.slots[idx] {
            Some(c) if c.frag_id == fid => self.slots[idx].take(),
            _ => None,
        }
    }
    // Some(err) when handing the storage back failed
    fn drop_pending(&mut self, fid: u8) -> Option<Out> {
        if let Some(c) = self.take_exact(fid) {
            match self.provision(c.storage) {
                Ok(()) => None,
                Err(PE::Overflow) => Some(Out::Err(EK::MemOverflow(c.storage))),
                Err(PE::TooSmall) => Some(Out::Err(EK::MemTooSmall(c.storage))),
            }
        } else {
            None
        }
    }
    // walk the extension chain as the receiver understands it
    fn walk(rec: &Rec) -> Result<(u16, Vec<Extension>), ()> {
        if rec.exts.is_empty() {
            if rec.ptype >= 0x600 {
                return Ok((rec.ptype, vec![]));
            }
            assert!(rec.ptype < 0x100);
            return match model_lookup(rec.ptype) {
                M::Unknown => Err(()),
                M::Final => {
                    // the harness only uses the 0-byte final id with plain encap
                    assert_eq!(rec.ptype, 0x20);
                    Ok((rec.ptype, vec![Extension::new(rec.ptype, &[]).unwrap()]))
                }
                M::NonFinal => unreachable!("harness never sends that"),
            };
        }
        let mut v = vec![];
        for (i, e) in rec.exts.iter().enumerate() {
            if e.id < 0x100 {
                match model_lookup(e.id) {
                    M::Unknown => return Err(()),
                    M::Final => assert!(i + 1 == rec.exts.len() && rec.ptype == e.id),
                    M::NonFinal => {}
                }
            }
            v.push(e.ext());
        }
        Ok((rec.ptype, v))
    }

    fn decap(&mut self, rec: &Rec) -> Out {
        match rec.kind {
            Kind::Complete => {
                let (ptype, exts) = match Self::walk(rec) {
                    Ok(x) => x,
                    Err(()) => {
                        self.last = None;
                        return Out::Err(EK::UnknownMandatory);
                    }
                };
                let cur = match rec.wire_label {
                    Label::ReUse => match self.last {
                        None => return Out::Err(EK::NoLabelSaved),
                        Some(l) => l,
                    },
                    Label::Broadcast => {
                        self.last = None;
                        Label::Broadcast
                    }
                    l => {
                        self.last = Some(l);
                        l
                    }
                };
                let st = match self.free.pop() {
                    None => {
                        self.last = None;
                        return Out::Err(EK::MemUnderflow);
                    }
                    Some(s) => s,
                };
                if st < rec.payload.len() {
                    self.last = None;
                    return self.give_back(st, EK::SizePdu);
                }
                Out::Completed {
                    data: rec.payload.clone(),
                    ptype,
                    label: cur,
                    exts,
                    storage: st,
                }
            }
            Kind::First => {
                let cur = match rec.wire_label {
                    Label::ReUse => match self.last {
                        None => {
                            if let Some(e) = self.drop_pending(rec.frag_id) {
                                return e;
                            }
                            return Out::Err(EK::NoLabelSaved);
                        }
                        Some(l) => l,
                    },
                    Label::Broadcast => {
                        self.last = None;
                        Label::Broadcast
                    }
                    l => {
                        self.last = Some(l);
                        l
                    }
                };
                let (ptype, exts) = match Self::walk(rec) {
                    Ok(x) => x,
                    Err(()) => {
                        self.last = None;
                        if let Some(e) = self.drop_pending(rec.frag_id) {
                            return e;
                        }
                        return Out::Err(EK::UnknownMandatory);
                    }
                };
                let idx = rec.frag_id as usize % self.slots.len();
                let st = match self.slots[idx].take() {
                    Some(c) => c.storage,
                    None => match self.free.pop() {
                        Some(s) => s,
                        None => {
                            self.last = None;
                            return Out::Err(EK::MemUnderflow);
                        }
                    },
                };
                if st < rec.payload.len() {
                    self.last = None;
                    return self.give_back(st, EK::SizePdu);
                }
                self.slots[idx] = Some(MCtx {
                    frag_id: rec.frag_id,
                    label: cur,
                    ptype,
                    total_len: rec.total_len,
                    from_reuse: rec.wire_label == Label::ReUse,
                    exts: exts.clone(),
                    data: rec.payload.clone(),
                    storage: st,
                });
                Out::Frag {
                    pdu_len: 0,
                    ptype,
                    label: cur,
                    exts,
                }
            }
            Kind::Inter => {
                let mut c = match self.take_exact(rec.frag_id) {
                    None => return Out::Err(EK::MemUndefined),
                    Some(c) => c,
                };
                if c.storage - c.data.len() < rec.payload.len() {
                    return self.give_back(c.storage, EK::SizePdu);
                }
                if c.data.len() + rec.payload.len() > 65535 {
                    return self.give_back(c.storage, EK::TotalLength);
                }
                c.data.extend_from_slice(&rec.payload);
                let out = Out::Frag {
                    pdu_len: 0,
                    ptype: c.ptype,
                    label: c.label,
                    exts: c.exts.clone(),
                };
                let idx = rec.frag_id as usize % self.slots.len();
                self.slots[idx] = Some(c);
                out
            }
            Kind::End => {
                let mut c = match self.take_exact(rec.frag_id) {
                    None => return Out::Err(EK::MemUndefined),
                    Some(c) => c,
                };
                if c.storage - c.data.len() < rec.payload.len() {
                    return self.give_back(c.storage, EK::SizePdu);
                }
                c.data.extend_from_slice(&rec.payload);
                let lab: Vec<u8> = if c.from_reuse {
                    vec![]
                } else {
                    c.label.get_bytes().to_vec()
                };
                if c.total_len as usize != c.data.len() + 2 + lab.len() {
                    return self.give_back(c.storage, EK::TotalLength);
                }
                let crc = crc32_mpeg(&[
                    &c.total_len.to_be_bytes(),
                    &c.ptype.to_be_bytes(),
                    &lab,
                    &c.data,
                ]);
                if crc != rec.crc {
                    return self.give_back(c.storage, EK::Crc);
                }
                Out::Completed {
                    data: c.data,
                    ptype: c.ptype,
                    label: c.label,
                    exts: c.exts,
                    storage: c.storage,
                }
            }
        }
    }
}

// ---------------------------------------------------------------------------------------------
// configuration of a run
// ---------------------------------------------------------------------------------------------
#[derive(Clone, Debug)]
struct Cfg {
    clean: bool,           // no faults, enough storage: every PDU must be delivered
    slots: usize,          // SimpleGseMemory max_frag_id
    max_pdu_size: usize,   // SimpleGseMemory max_pdu_size
    storages: Vec<usize>,  // initially provisioned storage sizes
    frames: usize,
    frame_caps: Vec<usize>,
    pads: Vec<usize>,
    sizes: Vec<(usize, usize)>, // PDU size classes (lo, hi) picked uniformly
    p_ext: usize,
    p_continue: usize,
    sequential: bool, // budget = rest of the frame, continue pending first
    max_pkts_per_frame: usize,
    reuse_mode: u8, // 0 enabled, 1 disabled, 2 max consecutive n
    p_fault: usize,
    reprovision: u8, // 0 always same buffer, 1 random
    reset_policy: u8, // 0 both at each frame, 1 random
    big_garbage: bool,
    no_new: bool, // only continue the pending PDUs (used to flush)
    toggles: bool, // sender re-use configuration changes, sender / receiver restarts
}

#[derive(Default)]
struct Stats {
    c: BTreeMap<String, u64>,
}
impl Stats {
    fn inc(&mut self, k: &str) {
        *self.c.entry(k.to_string()).or_insert(0) += 1;
    }
    fn add(&mut self, k: &str, n: u64) {
        *self.c.entry(k.to_string()).or_insert(0) += n;
    }
    fn merge(&mut self, o: &Stats) {
        for (k, v) in &o.c {
            *self.c.entry(k.clone()).or_insert(0) += v;
        }
    }
    fn dump(&self, title: &str) {
        println!("==== {title}");
        for (k, v) in &self.c {
            println!("  {k:<44} {v}");
        }
    }
}
fn ek_name(o: &Out) -> String {
    match o {
        Out::Completed { .. } => "out:Completed".into(),
        Out::Frag { .. } => "out:Fragmented".into(),
        Out::Padding => "out:Padding".into(),
        Out::Err(EK::MemOverflow(_)) => "out:Err(MemOverflow)".into(),
        Out::Err(EK::MemTooSmall(_)) => "out:Err(MemTooSmall)".into(),
        Out::Err(e) => format!("out:Err({e:?})"),
    }
}

// ---------------------------------------------------------------------------------------------
// sender
// ---------------------------------------------------------------------------------------------
struct Sender {
    enc: Encapsulator<DefaultCrc>,
    pdus: Vec<Pdu>,
    pending: Vec<(usize, ContextFrag)>,
    ended: Vec<bool>, // PDU completely emitted (complete packet or end packet)
}

const LABELS: [Label; 6] = [
    Label::SixBytesLabel([1, 2, 3, 4, 5, 6]),
    Label::SixBytesLabel([0, 0, 0, 0, 0, 1]),
    Label::ThreeBytesLabel([9, 8, 7]),
    Label::ThreeBytesLabel([0, 0, 0]),
    Label::Broadcast,
    Label::SixBytesLabel([0xFF; 6]),
];
const PTYPES_OK: [u16; 7] = [0x0600, 0x0601, 0x0800, 0x86DD, 0xFFFF, 0x0020, 0x0600];
const PTYPES_UNKNOWN: [u16; 4] = [0x0000, 0x007F, 0x00FF, 0x0030];
const PTYPES_REFUSED: [u16; 4] = [0x0100, 0x0101, 0x05FF, 0x0300];

fn gen_chain(rng: &mut Rng, allow_unknown: bool) -> (Vec<XE>, u16) {
    let n = rng.range(1, 4);
    let mut v: Vec<XE> = vec![];
    let mut ptype: u16 = rng.pick(&[0x0600u16, 0x0800, 0xFFFF, 0x0601]);
    for i in 0..n {
        let last = i + 1 == n;
        let r = rng.below(100);
        if last && r < 30 {
            // known final mandatory extension
            let k = rng.below(9);
            let id = 0x20 + k as u16;
            v.push(XE {
                id,
                data: (0..k).map(|_| rng.next() as u8).collect(),
            });
            ptype = id;
        } else if allow_unknown && r < 38 {
            let id = rng.pick(&PTYPES_UNKNOWN);
            if v.iter().any(|e| e.id == id) {
                continue;
            }
            let k = rng.below(5);
            v.push(XE {
                id,
                data: (0..k).map(|_| rng.next() as u8).collect(),
            });
            if last && rng.chance(50) {
                ptype = id;
            }
        } else if r < 60 {
            let k = rng.below(9);
            v.push(XE {
                id: 0x40 + k as u16,
                data: (0..k).map(|_| rng.next() as u8).collect(),
            });
        } else {
            let h = rng.range(1, 5);
            let dl = [0usize, 2, 4, 6, 8][h - 1];
            let rnd = rng.next() as u16 & 0xFF;
            let low = rng.pick(&[0u16, 1, 0x20, 0x40, 0x7F, 0xFF, rnd]);
            v.push(XE {
                id: ((h as u16) << 8) | low,
                data: (0..dl).map(|_| rng.next() as u8).collect(),
            });
        }
    }
    if v.is_empty() {
        v.push(XE {
            id: 0x0100,
            data: vec![],
        });
    }
    // a final id must be carried by the last extension only
    if ptype < 0x100 && v.last().unwrap().id != ptype {
        ptype = 0x0800;
    }
    (v, ptype)
}

fn gen_pdu(rng: &mut Rng, cfg: &Cfg, frag_id: u8) -> Pdu {
    let (lo, hi) = rng.pick(&cfg.sizes);
    let len = rng.range(lo, hi);
    let mode = rng.below(10);
    let data: Vec<u8> = match mode {
        0 => vec![0; len],
        1 => vec![0xFF; len],
        _ => (0..len).map(|_| rng.next() as u8).collect(),
    };
    let mut label = rng.pick(&LABELS);
    if !cfg.clean && rng.chance(3) {
        label = Label::ReUse; // explicit re-use label
    }
    let (exts, ptype) = if rng.chance(cfg.p_ext) {
        gen_chain(rng, !cfg.clean)
    } else {
        let p = if !cfg.clean && rng.chance(6) {
            rng.pick(&PTYPES_UNKNOWN)
        } else if rng.chance(3) {
            rng.pick(&PTYPES_REFUSED)
        } else {
            rng.pick(&PTYPES_OK)
        };
        (vec![], p)
    };
    Pdu {
        data,
        ptype,
        label,
        frag_id,
        exts,
    }
}

fn ext_wire_len(p: &Pdu) -> usize {
    let s: usize = p.exts.iter().map(|e| 2 + e.data.len()).sum();
    if !p.exts.is_empty() && p.ptype < 0x100 {
        s - 2
    } else {
        s
    }
}

fn pick_budget(rng: &mut Rng, rem: usize, cfg: &Cfg) -> usize {
    if cfg.sequential {
        return rem;
    }
    let b = match rng.below(12) {
        0..=5 => rem,
        6 => 1 + rng.below(12),
        7 => 7 + rng.below(30),
        8 => 4090 + rng.below(12),
        9 => 3 + rng.below(6),
        _ => 1 + rng.below(rem),
    };
    b.min(rem).max(1)
}

// choose a frag id; in clean mode one that does not collide (mod slots) with a pending PDU
fn pick_frag_id(rng: &mut Rng, cfg: &Cfg, s: &Sender) -> Option<u8> {
    if !cfg.clean {
        return Some(match rng.below(4) {
            0 => rng.below(4) as u8,
            1 => rng.pick(&[0u8, 1, 254, 255, 128]),
            _ => rng.next() as u8,
        });
    }
    for _ in 0..64 {
        let f = rng.next() as u8;
        if !s
            .pending
            .iter()
            .any(|(_, c)| c.frag_id() as usize % cfg.slots == f as usize % cfg.slots)
        {
            return Some(f);
        }
    }
    None
}

fn build_frame(
    s: &mut Sender,
    rng: &mut Rng,
    cfg: &Cfg,
    cap: usize,
    st: &mut Stats,
) -> Vec<(Vec<u8>, Rec)> {
    let mut scratch = vec![0u8; cap];
    let mut off = 0usize;
    let mut out: Vec<(Vec<u8>, Rec)> = vec![];
    let mut failures = 0;
    while off < cap && out.len() < cfg.max_pkts_per_frame && failures < 6 {
        let rem = cap - off;
        let b = pick_budget(rng, rem, cfg);
        if cfg.toggles && rng.chance(4) {
            // change the re-use configuration / restart the encapsulator in the middle of a frame
            match rng.below(5) {
                0 => s.enc.disable_re_use_label(),
                1 => s.enc.enable_re_use_label(),
                2 => s.enc.enable_re_use_label_with_max_consecutive(rng.below(4) as u8),
                3 => s.enc = s.enc.clone(),
                _ => s.enc = Encapsulator::new(DefaultCrc {}),
            }
            st.inc("tx:re-use configuration changed / encapsulator restarted mid frame");
        }
        let cont = !s.pending.is_empty()
            && (cfg.sequential || rng.chance(cfg.p_continue) || {
                // clean mode: no room for one more reassembly
                cfg.clean && s.pending.len() >= cfg.slots
            });
        if !cont && cfg.no_new {
            break;
        }
        let produced: Option<(usize, Rec)> = if cont {
            let i = if cfg.sequential {
                0
            } else {
                rng.below(s.pending.len())
            };
            let (pi, ctx) = s.pending[i];
            let pdu = &s.pdus[pi];
            match s.enc.encap_frag(&pdu.data, &ctx, &mut scratch[off..off + b]) {
                Ok(EncapStatus::CompletedPkt(n)) => {
                    s.pending.remove(i);
                    s.ended[pi] = true;
                    st.inc("tx:end");
                    Some((
                        n as usize,
                        Rec {
                            kind: Kind::End,
                            frag_id: ctx.frag_id(),
                            total_len: 0,
                            ptype: 0,
                            wire_label: Label::ReUse,
                            exts: vec![],
                            payload: pdu.data[ctx.len_pdu_frag() as usize..].to_vec(),
                            crc: ctx.crc(),
                            pdu_idx: pi,
                        },
                    ))
                }
                Ok(EncapStatus::FragmentedPkt(n, nctx)) => {
                    assert_eq!(nctx.frag_id(), ctx.frag_id());
                    assert_eq!(nctx.crc(), ctx.crc());
                    assert!(nctx.len_pdu_frag() > ctx.len_pdu_frag());
                    s.pending[i].1 = nctx;
                    st.inc("tx:intermediate");
                    Some((
                        n as usize,
                        Rec {
                            kind: Kind::Inter,
                            frag_id: ctx.frag_id(),
                            total_len: 0,
                            ptype: 0,
                            wire_label: Label::ReUse,
                            exts: vec![],
                            payload: pdu.data
                                [ctx.len_pdu_frag() as usize..nctx.len_pdu_frag() as usize]
                                .to_vec(),
                            crc: 0,
                            pdu_idx: pi,
                        },
                    ))
                }
                Err(e) => {
                    assert_eq!(e, EncapError::ErrorSizeBuffer);
                    st.inc("tx:encap_frag refused (buffer)");
                    None
                }
            }
        } else {
            let fid = pick_frag_id(rng, cfg, s);
            let mut pdu = gen_pdu(rng, cfg, fid.unwrap_or(0));
            if cfg.clean && fid.is_none() {
                // must fit as a complete packet
                let room = b.min(4097).saturating_sub(4 + 6 + ext_wire_len(&pdu));
                pdu.data.truncate(room);
                if b < 4 + 6 + ext_wire_len(&pdu) {
                    failures += 1;
                    continue;
                }
            }
            let md = EncapMetadata::new(pdu.ptype, pdu.label);
            let res = if pdu.exts.is_empty() {
                s.enc
                    .encap(&pdu.data, pdu.frag_id, md, &mut scratch[off..off + b])
            } else {
                s.enc.encap_ext(
                    &pdu.data,
                    pdu.frag_id,
                    md,
                    &mut scratch[off..off + b],
                    pdu.exts.iter().map(|e| e.ext()).collect(),
                )
            };
            match res {
                Err(e) => {
                    st.inc(&format!("tx:encap refused ({e:?})"));
                    // nothing may have been written
                    assert!(
                        scratch[off..].iter().all(|x| *x == 0),
                        "encap wrote into the buffer although it failed"
                    );
                    None
                }
                Ok(status) => {
                    let lt = (scratch[off] >> 4) & 3;
                    let wire_label = if lt == 3 { Label::ReUse } else { pdu.label };
                    assert_eq!(
                        lt as u16,
                        lt_bits(&wire_label),
                        "label type on the wire is neither the label nor re-use"
                    );
                    let total_len = (pdu.data.len() + 2 + wire_label.len()) as u16;
                    let pi = s.pdus.len();
                    let (n, rec) = match status {
                        EncapStatus::CompletedPkt(n) => {
                            st.inc("tx:complete");
                            if !pdu.exts.is_empty() {
                                st.inc("tx:complete with extensions");
                            }
                            s.ended.push(true);
                            (
                                n as usize,
                                Rec {
                                    kind: Kind::Complete,
                                    frag_id: pdu.frag_id,
                                    total_len,
                                    ptype: pdu.ptype,
                                    wire_label,
                                    exts: pdu.exts.clone(),
                                    payload: pdu.data.clone(),
                                    crc: 0,
                                    pdu_idx: pi,
                                },
                            )
                        }
                        EncapStatus::FragmentedPkt(n, ctx) => {
                            st.inc("tx:first");
                            if !pdu.exts.is_empty() {
                                st.inc("tx:first with extensions");
                            }
                            assert_eq!(ctx.frag_id(), pdu.frag_id);
                            assert!((ctx.len_pdu_frag() as usize) < pdu.data.len());
                            let crc = crc32_mpeg(&[
                                &total_len.to_be_bytes(),
                                &pdu.ptype.to_be_bytes(),
                                wire_label.get_bytes(),
                                &pdu.data,
                            ]);
                            assert_eq!(crc, ctx.crc(), "CRC of the context");
                            s.pending.push((pi, ctx));
                            s.ended.push(false);
                            (
                                n as usize,
                                Rec {
                                    kind: Kind::First,
                                    frag_id: pdu.frag_id,
                                    total_len,
                                    ptype: pdu.ptype,
                                    wire_label,
                                    exts: pdu.exts.clone(),
                                    payload: pdu.data[..ctx.len_pdu_frag() as usize].to_vec(),
                                    crc: 0,
                                    pdu_idx: pi,
                                },
                            )
                        }
                    };
                    if wire_label == Label::ReUse && pdu.label != Label::ReUse {
                        st.inc("tx:automatic re-use label");
                    }
                    s.pdus.push(pdu);
                    Some((n, rec))
                }
            }
        };
        match produced {
            None => failures += 1,
            Some((n, rec)) => {
                failures = 0;
                let exp = serialize(&rec);
                assert!(n <= b, "announced length {n} larger than the buffer {b}");
                assert_eq!(
                    &scratch[off..off + n],
                    &exp[..],
                    "bytes emitted differ from the reference serializer for {:?} (announced {n}, reference {})",
                    rec.kind,
                    exp.len()
                );
                assert!(
                    scratch[off + n..].iter().all(|x| *x == 0),
                    "encapsulator wrote beyond the announced length"
                );
                // never reads as padding
                assert_ne!(scratch[off] & 0xF0, 0, "packet reads as padding");
                match n {
                    4097 => st.inc("tx:packet of 4097 bytes (GSE length 4095)"),
                    4090..=4096 => st.inc("tx:packet of 4090..4096 bytes"),
                    _ => {}
                }
                if rec.payload.is_empty() {
                    st.inc(&format!("tx:{:?} with empty payload", rec.kind));
                }
                out.push((exp, rec));
                off += n;
            }
        }
        if !cfg.sequential && rng.chance(4) {
            break;
        }
    }
    out
}

// ---------------------------------------------------------------------------------------------
// fault injection on the list of packets
// ---------------------------------------------------------------------------------------------
fn inject(pkts: &mut Vec<(Vec<u8>, Rec)>, rng: &mut Rng, cfg: &Cfg, st: &mut Stats) {
    if cfg.p_fault == 0 {
        return;
    }
    let mut i = 0;
    while i < pkts.len() {
        if !rng.chance(cfg.p_fault) {
            i += 1;
            continue;
        }
        let kind = pkts[i].1.kind;
        match rng.below(7) {
            0 if kind == Kind::End => {
                let k = rng.below(4);
                let m = 1u32 << rng.below(32);
                let _ = k;
                pkts[i].1.crc ^= m;
                pkts[i].0 = serialize(&pkts[i].1);
                st.inc("fault:crc field corrupted");
            }
            1 if !pkts[i].1.payload.is_empty() => {
                let j = rng.below(pkts[i].1.payload.len());
                pkts[i].1.payload[j] ^= 1 << rng.below(8);
                pkts[i].0 = serialize(&pkts[i].1);
                st.inc(&format!("fault:payload byte corrupted in {kind:?}"));
            }
            2 if kind != Kind::Complete => {
                let old = pkts[i].1.frag_id;
                let new = match rng.below(3) {
                    0 => old.wrapping_add(cfg.slots as u8), // same slot, other id
                    1 => old.wrapping_add(1),
                    _ => rng.next() as u8,
                };
                pkts[i].1.frag_id = new;
                pkts[i].0 = serialize(&pkts[i].1);
                assert_eq!(pkts[i].0[2], new);
                st.inc(&format!("fault:frag id changed in {kind:?}"));
            }
            3 => {
                pkts.remove(i);
                st.inc(&format!("fault:{kind:?} dropped"));
                continue;
            }
            4 => {
                let c = pkts[i].clone();
                let at = rng.range(i + 1, pkts.len());
                pkts.insert(at, c);
                st.inc(&format!("fault:{kind:?} duplicated"));
            }
            5 if i + 1 < pkts.len() => {
                pkts.swap(i, i + 1);
                st.inc("fault:two packets swapped");
            }
            _ => {}
        }
        i += 1;
    }
}

// ---------------------------------------------------------------------------------------------
// receivers in lockstep
// ---------------------------------------------------------------------------------------------
type D = Decapsulator<SimpleGseMemory, DefaultCrc, Mgr>;
struct Rx {
    a: D,
    b: D,
    c: D,
    total_storage: usize,
    tick: u64,
}
impl Rx {
    fn new(cfg: &Cfg) -> Self {
        let mk = || {
            Decapsulator::new(
                SimpleGseMemory::new(cfg.slots, cfg.max_pdu_size, 0, 0),
                DefaultCrc {},
                Mgr,
            )
        };
        Rx {
            a: mk(),
            b: mk(),
            c: mk(),
            total_storage: 0,
            tick: 0,
        }
    }
    fn provision(&mut self, model: &mut Model, size: usize, fill: u8, st: &mut Stats) {
        let exp = model.provision(size);
        for d in [&mut self.a, &mut self.b, &mut self.c] {
            let r = d.provision_storage(vec![fill; size].into_boxed_slice());
            match (&exp, &r) {
                (Ok(()), Ok(())) => {}
                (Err(PE::Overflow), Err(DecapMemoryError::StorageOverflow(b)))
                | (Err(PE::TooSmall), Err(DecapMemoryError::BufferTooSmall(b))) => {
                    assert_eq!(b.len(), size)
                }
                _ => panic!("provision_storage({size}): model {exp:?}, crate {r:?}"),
            }
        }
        match exp {
            Ok(()) => {
                self.total_storage += size;
                st.inc("rx:storage provisioned");
            }
            Err(PE::Overflow) => st.inc("rx:provision refused, free list exactly full"),
            Err(PE::TooSmall) => st.inc("rx:provision refused, storage too small"),
        }
    }
    fn reset_labels(&mut self, model: &mut Model) {
        self.a.reset_last_label();
        self.b.reset_last_label();
        self.c.reset_last_label();
        model.last = None;
    }
    fn mem_check(&self, what: &str) {
        assert!(
            self.a.memory == self.b.memory,
            "memories differ (frame walk vs alone) after {what}"
        );
        assert!(
            self.a.memory == self.c.memory,
            "memories differ (frame walk vs garbage) after {what}"
        );
    }
}

// give the storage of a completed PDU back (same policy for the three receivers and the model)
fn after_completed(
    rx: &mut Rx,
    model: &mut Model,
    ra: Raw,
    rb: Raw,
    rc: Raw,
    rng: &mut Rng,
    cfg: &Cfg,
    st: &mut Stats,
) {
    let policy = if cfg.reprovision == 0 { 0 } else { rng.below(4) };
    let bufs: Vec<Box<[u8]>> = [ra, rb, rc]
        .into_iter()
        .map(|r| match r {
            Ok((DecapStatus::CompletedPkt(b, _), _)) => b,
            _ => unreachable!(),
        })
        .collect();
    match policy {
        0 | 1 => {
            let size = bufs[0].len();
            let exp = model.provision(size);
            let mut it = bufs.into_iter();
            for d in [&mut rx.a, &mut rx.b, &mut rx.c] {
                let r = d.provision_storage(it.next().unwrap());
                match (&exp, &r) {
                    (Ok(()), Ok(())) => {}
                    (Err(PE::Overflow), Err(DecapMemoryError::StorageOverflow(_))) => {}
                    (Err(PE::TooSmall), Err(DecapMemoryError::BufferTooSmall(_))) => {}
                    _ => panic!("re-provision: model {exp:?}, crate {r:?}"),
                }
            }
            if exp.is_err() {
                rx.total_storage -= size;
                st.inc("rx:re-provision refused");
            }
        }
        2 => {
            // the application keeps the buffer
            rx.total_storage -= bufs[0].len();
            st.inc("rx:completed buffer kept by the application");
        }
        _ => {
            rx.total_storage -= bufs[0].len();
            let size = match rng.below(4) {
                0 => cfg.max_pdu_size,
                1 => cfg.max_pdu_size + 1,
                2 => cfg.max_pdu_size.saturating_sub(1),
                _ => cfg.max_pdu_size + rng.below(300),
            };
            rx.provision(model, size, rng.next() as u8, st);
        }
    }
}

fn receive_frame(
    rx: &mut Rx,
    model: &mut Model,
    s: &Sender,
    delivered: &mut Vec<u32>,
    pkts: &[(Vec<u8>, Rec)],
    pad: usize,
    rng: &mut Rng,
    cfg: &Cfg,
    st: &mut Stats,
) {
    let mut frame: Vec<u8> = vec![];
    for (b, _) in pkts {
        frame.extend_from_slice(b);
    }
    let used = frame.len();
    frame.resize(used + pad, 0);
    if frame.len() > 4097 {
        st.inc("rx:frames longer than 4097 bytes");
    }
    st.inc("rx:frames");
    let mut off = 0usize;
    for (idx, (bytes, rec)) in pkts.iter().enumerate() {
        let len = bytes.len();
        assert_eq!(&frame[off..off + len], &bytes[..]);
        // A: rest of the frame
        let ra = rx.a.decap(&frame[off..]);
        // B: alone
        let rb = rx.b.decap(bytes);
        // C: followed by garbage
        let glen = if cfg.big_garbage && rng.chance(10) {
            rng.range(4000, 9000)
        } else {
            rng.range(1, 40)
        };
        let mut g = bytes.clone();
        match rng.below(4) {
            0 => g.extend(std::iter::repeat(0xFF).take(glen)),
            1 => g.extend(std::iter::repeat(0x00).take(glen)),
            _ => g.extend((0..glen).map(|_| rng.next() as u8)),
        }
        let rc = rx.c.decap(&g);
        st.inc("rx:packets (each decapsulated 3 ways)");

        let (oa, na) = norm(&ra);
        let (ob, nb) = norm(&rb);
        let (oc, nc) = norm(&rc);
        let ctx = format!(
            "packet #{idx} {:?} frag_id {} len {len} at offset {off} (frame {} bytes, pad {pad})",
            rec.kind,
            rec.frag_id,
            frame.len()
        );
        assert_eq!(nb, len, "alone: consumed length, {ctx}: {ob:?}");
        assert_eq!(na, len, "frame walk: consumed length, {ctx}: {oa:?}");
        assert_eq!(nc, len, "garbage: consumed length, {ctx}: {oc:?}");
        assert!(ra == rb, "frame walk vs alone differ, {ctx}: {oa:?} vs {ob:?}");
        assert!(rc == rb, "garbage vs alone differ, {ctx}: {oc:?} vs {ob:?}");
        let exp = model.decap(rec);
        assert_eq!(oa, exp, "model mismatch, {ctx}");
        st.inc(&format!("{} for {:?}", ek_name(&oa), rec.kind));
        if off + len == frame.len() {
            st.inc("rx:packet ending exactly at the end of the frame");
        }

        if rx.total_storage <= 70_000 || idx % 64 == 0 {
            rx.mem_check(&ctx);
        }

        if let Out::Completed { data, label, ptype, .. } = &oa {
            let p = &s.pdus[rec.pdu_idx];
            delivered[rec.pdu_idx] += 1;
            if cfg.clean {
                assert_eq!(data, &p.data, "delivered PDU differs, {ctx}");
                assert_eq!(*label, p.label, "delivered label differs, {ctx}");
                assert_eq!(*ptype, p.ptype, "delivered protocol type differs, {ctx}");
            }
            after_completed(rx, model, ra, rb, rc, rng, cfg, st);
        } else if cfg.clean {
            assert!(
                matches!(oa, Out::Frag { .. }),
                "clean run but the receiver answered {oa:?}, {ctx}"
            );
        }
        if cfg.reprovision != 0 && rng.chance(5) {
            let size = match rng.below(5) {
                0 => cfg.max_pdu_size,
                1 => cfg.max_pdu_size.saturating_sub(1),
                2 => 66_000,
                _ => cfg.max_pdu_size + rng.below(5000),
            };
            rx.provision(model, size, rng.next() as u8, st);
        }
        off += len;
    }
    assert_eq!(off, used);
    if pad > 0 {
        let ra = rx.a.decap(&frame[off..]);
        let rb = rx.b.decap(&frame[off..]);
        let rc = rx.c.decap(&frame[off..]);
        let (oa, na) = norm(&ra);
        assert!(ra == rb && rb == rc);
        assert_eq!(na, pad, "padding must consume the rest of the frame");
        if pad >= 2 {
            assert_eq!(oa, Out::Padding, "padding of {pad} bytes after {used} bytes");
            st.inc("rx:padding status (>= 2 bytes)");
        } else {
            assert_eq!(oa, Out::Err(EK::SizeBuffer));
            st.inc("rx:single trailing byte (ErrorSizeBuffer)");
        }
        model.last = None;
    } else {
        st.inc("rx:frames without padding");
    }
    rx.tick += 1;
    if rx.total_storage <= 70_000 || rx.tick % 50 == 0 {
        rx.mem_check("end of frame");
    }
}

// ---------------------------------------------------------------------------------------------
// one run
// ---------------------------------------------------------------------------------------------
fn run(cfg: &Cfg, seed: u64, st: &mut Stats) {
    let mut rng = Rng::new(seed);
    let mut enc = Encapsulator::new(DefaultCrc {});
    match cfg.reuse_mode {
        1 => enc.disable_re_use_label(),
        2 => enc.enable_re_use_label_with_max_consecutive(1 + rng.below(3) as u8),
        _ => {}
    }
    let mut s = Sender {
        enc,
        pdus: vec![],
        pending: vec![],
        ended: vec![],
    };
    let mut rx = Rx::new(cfg);
    let mut model = Model::new(cfg.slots, cfg.max_pdu_size);
    for (i, sz) in cfg.storages.iter().enumerate() {
        rx.provision(&mut model, *sz, i as u8, st);
    }
    let mut delivered: Vec<u32> = vec![];
    let mut f = 0;
    loop {
        let flushing = f >= cfg.frames;
        if flushing && (!cfg.clean || s.pending.is_empty() || f > cfg.frames + 20_000) {
            break;
        }
        // new base band frame
        let both = cfg.reset_policy == 0 || rng.chance(70);
        if both {
            s.enc.reset_last_label();
            rx.reset_labels(&mut model);
        } else {
            match rng.below(3) {
                0 => s.enc.reset_last_label(),
                1 => rx.reset_labels(&mut model),
                _ => {}
            }
            st.inc("frames started without resetting both label memories");
        }
        if cfg.toggles && !cfg.clean && rng.chance(4) {
            // receiver restart: everything is forgotten
            rx = Rx::new(cfg);
            model = Model::new(cfg.slots, cfg.max_pdu_size);
            for (i, sz) in cfg.storages.iter().enumerate() {
                rx.provision(&mut model, *sz, i as u8, st);
            }
            st.inc("rx:receiver restarted between two frames");
        }
        let cap = rng.pick(&cfg.frame_caps);
        let mut local = cfg.clone();
        if flushing {
            local.sequential = true;
            local.no_new = true;
        }
        let mut pkts = build_frame(&mut s, &mut rng, &local, cap, st);
        delivered.resize(s.pdus.len(), 0);
        inject(&mut pkts, &mut rng, cfg, st);
        let used: usize = pkts.iter().map(|p| p.0.len()).sum();
        let mut pad = rng.pick(&cfg.pads);
        if cfg.sequential && cap >= used {
            // the frame has a fixed size: what is left is padding
            pad = cap - used;
        }
        receive_frame(
            &mut rx,
            &mut model,
            &s,
            &mut delivered,
            &pkts,
            pad,
            &mut rng,
            cfg,
            st,
        );
        f += 1;
    }
    if cfg.clean {
        assert!(s.pending.is_empty(), "could not flush the pending PDUs");
        for (i, d) in delivered.iter().enumerate() {
            assert!(s.ended[i]);
            assert_eq!(*d, 1, "PDU #{i} delivered {d} times");
        }
        st.add("clean:PDUs delivered exactly once", delivered.len() as u64);
    }
    st.inc("runs");
}

fn iters(default: u64) -> u64 {
    let scale: f64 = std::env::var("C10_SCALE")
        .ok()
        .and_then(|s| s.parse().ok())
        .unwrap_or(1.0);
    ((default as f64) * scale).max(1.0) as u64
}
fn base_seed() -> u64 {
    std::env::var("C10_SEED")
        .ok()
        .and_then(|s| s.parse().ok())
        .unwrap_or(20260928)
}

fn base_cfg() -> Cfg {
    Cfg {
        clean: true,
        slots: 4,
        max_pdu_size: 5000,
        storages: vec![5000; 6],
        frames: 6,
        frame_caps: vec![100, 500, 4097, 4200, 9000],
        pads: vec![0, 1, 2, 3, 4, 17, 300],
        sizes: vec![(0, 40), (0, 600), (4070, 4110), (0, 5000)],
        p_ext: 25,
        p_continue: 50,
        sequential: false,
        max_pkts_per_frame: 40,
        reuse_mode: 0,
        p_fault: 0,
        reprovision: 0,
        reset_policy: 0,
        big_garbage: true,
        no_new: false,
        toggles: true,
    }
}

// ---------------------------------------------------------------------------------------------
// tests
// ---------------------------------------------------------------------------------------------

/// random interleavings, no fault, enough storage: everything is delivered once
#[test]
fn c10_random_clean() {
    let mut total = Stats::default();
    let n = iters(1500);
    for i in 0..n {
        let mut rng = Rng::new(base_seed() ^ (i * 7919 + 1));
        let mut cfg = base_cfg();
        cfg.slots = rng.pick(&[1usize, 2, 3, 4, 8, 16, 255, 256, 300]);
        let maxp = if cfg.slots >= 16 {
            rng.pick(&[300usize, 1000])
        } else {
            rng.pick(&[300usize, 5000, 5000, 9000])
        };
        cfg.sizes = vec![(0, 40), (0, maxp.min(600)), (0, maxp)];
        if maxp >= 5000 {
            cfg.sizes.push((4070, 4110));
        }
        cfg.max_pdu_size = rng.pick(&[0usize, 1, maxp, maxp]);
        let ssz = rng.pick(&[maxp, maxp + 1, maxp + 777]);
        cfg.storages = vec![ssz; cfg.slots + 2];
        cfg.frames = rng.range(1, 8);
        cfg.reuse_mode = rng.below(3) as u8;
        cfg.p_ext = rng.pick(&[0usize, 25, 60]);
        cfg.p_continue = rng.pick(&[20usize, 50, 80]);
        cfg.frame_caps = match rng.below(4) {
            0 => vec![30, 60, 100],
            1 => vec![4097, 4098, 4096, 4100],
            2 => vec![9000, 20000],
            _ => vec![100, 500, 4097, 4200, 9000],
        };
        let mut st = Stats::default();
        run(&cfg, base_seed().wrapping_add(i), &mut st);
        total.merge(&st);
    }
    total.dump("c10_random_clean");
}

/// maximal PDUs (65533 bytes and around), storages larger than 65535
#[test]
fn c10_random_clean_huge() {
    let mut total = Stats::default();
    let n = iters(40);
    for i in 0..n {
        let mut rng = Rng::new(base_seed() ^ (i * 104729 + 5));
        let mut cfg = base_cfg();
        cfg.slots = rng.pick(&[1usize, 2, 3]);
        cfg.sizes = vec![(65520, 65533), (60000, 65533), (0, 50), (4080, 4100)];
        cfg.max_pdu_size = rng.pick(&[0usize, 65533, 65535, 65536, 70000]);
        let ssz = cfg.max_pdu_size.max(65533) + rng.pick(&[0usize, 1, 2, 3, 5000]);
        cfg.storages = vec![ssz; cfg.slots + 2];
        cfg.frames = rng.range(2, 5);
        cfg.frame_caps = rng.pick(&[
            vec![4097usize, 4098, 5000],
            vec![70000, 140000],
            vec![2000, 8000, 70000],
        ]);
        cfg.max_pkts_per_frame = 60;
        cfg.reuse_mode = rng.below(3) as u8;
        let mut st = Stats::default();
        run(&cfg, base_seed().wrapping_add(1000 + i), &mut st);
        total.merge(&st);
    }
    total.dump("c10_random_clean_huge");
}

/// faults, colliding frag ids, short storage, full / empty free list, label memories out of sync
#[test]
fn c10_random_faulty() {
    let mut total = Stats::default();
    let n = iters(4000);
    for i in 0..n {
        let mut rng = Rng::new(base_seed() ^ (i * 15485863 + 11));
        let mut cfg = base_cfg();
        cfg.clean = false;
        cfg.slots = rng.pick(&[1usize, 2, 3, 4, 5, 8, 255, 256, 257, 1000]);
        let maxp = rng.pick(&[40usize, 300, 1000, 5000]);
        cfg.sizes = vec![(0, 40), (0, maxp.min(600)), (0, maxp)];
        if maxp >= 5000 {
            cfg.sizes.push((4070, 4110));
        }
        // storages often smaller than the PDUs
        cfg.max_pdu_size = rng.pick(&[0usize, 1, 10, maxp / 2, maxp, maxp + 10]);
        let nst = rng.pick(&[0usize, 1, 2, cfg.slots, cfg.slots + 1, cfg.slots + 2, cfg.slots + 3]);
        cfg.storages = (0..nst)
            .map(|_| cfg.max_pdu_size + rng.pick(&[0usize, 0, 1, 7, maxp, 66_000]))
            .collect();
        cfg.frames = rng.range(1, 10);
        cfg.reuse_mode = rng.below(3) as u8;
        cfg.p_ext = rng.pick(&[0usize, 25, 60]);
        cfg.p_continue = rng.pick(&[20usize, 50, 80]);
        cfg.p_fault = rng.pick(&[0usize, 5, 15, 40]);
        cfg.reprovision = 1;
        cfg.reset_policy = rng.below(2) as u8;
        cfg.frame_caps = match rng.below(4) {
            0 => vec![30, 60, 100],
            1 => vec![4097, 4098, 4096, 4100],
            2 => vec![9000, 20000],
            _ => vec![100, 500, 4097, 4200, 9000],
        };
        let mut st = Stats::default();
        run(&cfg, base_seed().wrapping_add(50_000 + i), &mut st);
        total.merge(&st);
    }
    total.dump("c10_random_faulty");
}

/// deterministic corner grid: one PDU (optionally preceded by a small packet carrying the same
/// label, so that the label is re-used) sent through fixed size frames, the rest being padding
#[test]
fn c10_corner_grid() {
    let mut total = Stats::default();
    let quick = cfg!(debug_assertions);
    let mut lens: Vec<usize> = vec![0, 1, 2, 3, 4, 5, 6, 7, 8];
    lens.extend(4076..=4100);
    lens.extend([8170, 8180, 8185, 8190]);
    if quick {
        lens.extend([65523, 65527, 65530, 65531, 65532, 65533]);
    } else {
        lens.extend(65520..=65533);
    }
    let labels: [Label; 5] = [
        Label::SixBytesLabel([1, 2, 3, 4, 5, 6]),
        Label::ThreeBytesLabel([9, 8, 7]),
        Label::ThreeBytesLabel([0, 0, 0]),
        Label::Broadcast,
        Label::ReUse, // means: 6 byte label sent twice, the second time re-used
    ];
    let caps: Vec<usize> = if quick {
        vec![11, 64, 4096, 4097, 4098, 4105, 9000, 70000]
    } else {
        vec![8, 9, 10, 11, 12, 13, 16, 64, 4095, 4096, 4097, 4098, 4099, 4105, 8194, 9000, 70000]
    };
    let mut cases = 0u64;
    for &len in &lens {
        for lab in &labels {
            for &cap in &caps {
                if len > 10000 && cap < 64 && (quick || cap != 11) {
                    continue;
                }
                for ptype in [0x0600u16, 0xFFFF, 0x0020] {
                    if ptype != 0x0600 && (len % 3 != 0) {
                        continue;
                    }
                    let mut st = Stats::default();
                    grid_case(len, *lab, cap, ptype, &mut st);
                    total.merge(&st);
                    cases += 1;
                }
            }
        }
    }
    total.add("grid cases", cases);
    total.dump("c10_corner_grid");
}

fn grid_case(len: usize, lab: Label, cap: usize, ptype: u16, st: &mut Stats) {
    let slots = 1 + len % 3;
    let ssz = len + [0usize, 1, 70000][cap % 3];
    let cfg = Cfg {
        clean: true,
        slots,
        max_pdu_size: [0usize, ssz][len % 2],
        storages: vec![ssz; slots + 2],
        frames: 0,
        frame_caps: vec![cap],
        pads: vec![0],
        sizes: vec![],
        p_ext: 0,
        p_continue: 100,
        sequential: true,
        max_pkts_per_frame: 1_000_000,
        reuse_mode: 0,
        p_fault: 0,
        reprovision: 0,
        reset_policy: 0,
        big_garbage: false,
        no_new: false,
        toggles: true,
    };
    let mut rng = Rng::new(len as u64 * 31 + cap as u64);
    let mut s = Sender {
        enc: Encapsulator::new(DefaultCrc {}),
        pdus: vec![],
        pending: vec![],
        ended: vec![],
    };
    let mut rx = Rx::new(&cfg);
    let mut model = Model::new(cfg.slots, cfg.max_pdu_size);
    for (i, sz) in cfg.storages.iter().enumerate() {
        rx.provision(&mut model, *sz, i as u8, st);
    }
    let real_label = if lab == Label::ReUse {
        Label::SixBytesLabel([7, 7, 7, 7, 7, 7])
    } else {
        lab
    };
    let data: Vec<u8> = (0..len).map(|i| (i * 7 + 1) as u8).collect();
    let mut delivered: Vec<u32> = vec![];
    let mut started = false;
    let mut frames = 0;
    while !started || !s.pending.is_empty() {
        frames += 1;
        assert!(frames < 100_000);
        let mut scratch = vec![0u8; cap];
        let mut off = 0;
        let mut pkts: Vec<(Vec<u8>, Rec)> = vec![];
        if !started {
            s.enc.reset_last_label();
            rx.reset_labels(&mut model);
            if lab == Label::ReUse {
                // small packet carrying the label first, when there is room
                if cap >= 10 + 7 {
                    let md = EncapMetadata::new(0x0800, real_label);
                    let n = match s.enc.encap(&[], 0, md, &mut scratch[..10]) {
                        Ok(EncapStatus::CompletedPkt(n)) => n as usize,
                        x => panic!("{x:?}"),
                    };
                    let rec = Rec {
                        kind: Kind::Complete,
                        frag_id: 0,
                        total_len: 0,
                        ptype: 0x0800,
                        wire_label: real_label,
                        exts: vec![],
                        payload: vec![],
                        crc: 0,
                        pdu_idx: 0,
                    };
                    assert_eq!(&scratch[..n], &serialize(&rec)[..]);
                    s.pdus.push(Pdu {
                        data: vec![],
                        ptype: 0x0800,
                        label: real_label,
                        frag_id: 0,
                        exts: vec![],
                    });
                    s.ended.push(true);
                    pkts.push((scratch[..n].to_vec(), rec));
                    off = n;
                }
            }
            let md = EncapMetadata::new(ptype, real_label);
            let fid = (len % 256) as u8;
            match s.enc.encap(&data, fid, md, &mut scratch[off..]) {
                Err(e) => {
                    // label + header do not fit in such a frame, or PDU too long for this label
                    st.inc(&format!("grid: encap refused {e:?}"));
                    return;
                }
                Ok(status) => {
                    started = true;
                    let lt = (scratch[off] >> 4) & 3;
                    let wire_label = if lt == 3 { Label::ReUse } else { real_label };
                    if lab == Label::ReUse && off > 0 {
                        assert_eq!(wire_label, Label::ReUse);
                    }
                    let total_len = (len + 2 + wire_label.len()) as u16;
                    let pi = s.pdus.len();
                    let (n, rec) = match status {
                        EncapStatus::CompletedPkt(n) => {
                            s.ended.push(true);
                            (
                                n as usize,
                                Rec {
                                    kind: Kind::Complete,
                                    frag_id: fid,
                                    total_len,
                                    ptype,
                                    wire_label,
                                    exts: vec![],
                                    payload: data.clone(),
                                    crc: 0,
                                    pdu_idx: pi,
                                },
                            )
                        }
                        EncapStatus::FragmentedPkt(n, ctx) => {
                            s.ended.push(false);
                            s.pending.push((pi, ctx));
                            (
                                n as usize,
                                Rec {
                                    kind: Kind::First,
                                    frag_id: fid,
                                    total_len,
                                    ptype,
                                    wire_label,
                                    exts: vec![],
                                    payload: data[..ctx.len_pdu_frag() as usize].to_vec(),
                                    crc: 0,
                                    pdu_idx: pi,
                                },
                            )
                        }
                    };
                    s.pdus.push(Pdu {
                        data: data.clone(),
                        ptype,
                        label: real_label,
                        frag_id: fid,
                        exts: vec![],
                    });
                    assert_eq!(&scratch[off..off + n], &serialize(&rec)[..]);
                    assert_ne!(scratch[off] & 0xF0, 0);
                    pkts.push((scratch[off..off + n].to_vec(), rec));
                    off += n;
                }
            }
            // continue in the same frame
            let mut more = {
                let mut tmp = scratch[off..].to_vec();
                let v = build_into(&mut s, &mut tmp, st);
                scratch[off..].copy_from_slice(&tmp);
                v
            };
            pkts.append(&mut more);
        } else {
            s.enc.reset_last_label();
            rx.reset_labels(&mut model);
            pkts = build_into(&mut s, &mut scratch, st);
            if pkts.is_empty() {
                panic!("frame of {cap} bytes cannot carry any fragment");
            }
        }
        delivered.resize(s.pdus.len(), 0);
        let used: usize = pkts.iter().map(|p| p.0.len()).sum();
        receive_frame(
            &mut rx,
            &mut model,
            &s,
            &mut delivered,
            &pkts,
            cap - used,
            &mut rng,
            &cfg,
            st,
        );
    }
    for d in &delivered {
        assert_eq!(*d, 1);
    }
}

// fill `buf` with the fragments of the pending PDU (sequentially)
fn build_into(s: &mut Sender, buf: &mut [u8], st: &mut Stats) -> Vec<(Vec<u8>, Rec)> {
    let mut out = vec![];
    let mut off = 0;
    while !s.pending.is_empty() && off < buf.len() {
        let (pi, ctx) = s.pending[0];
        let pdu = &s.pdus[pi];
        match s.enc.encap_frag(&pdu.data, &ctx, &mut buf[off..]) {
            Ok(EncapStatus::CompletedPkt(n)) => {
                s.pending.remove(0);
                s.ended[pi] = true;
                let rec = Rec {
                    kind: Kind::End,
                    frag_id: ctx.frag_id(),
                    total_len: 0,
                    ptype: 0,
                    wire_label: Label::ReUse,
                    exts: vec![],
                    payload: pdu.data[ctx.len_pdu_frag() as usize..].to_vec(),
                    crc: ctx.crc(),
                    pdu_idx: pi,
                };
                let n = n as usize;
                assert_eq!(&buf[off..off + n], &serialize(&rec)[..]);
                if rec.payload.is_empty() {
                    st.inc("tx:End with empty payload");
                }
                out.push((buf[off..off + n].to_vec(), rec));
                off += n;
            }
            Ok(EncapStatus::FragmentedPkt(n, nctx)) => {
                s.pending[0].1 = nctx;
                let rec = Rec {
                    kind: Kind::Inter,
                    frag_id: ctx.frag_id(),
                    total_len: 0,
                    ptype: 0,
                    wire_label: Label::ReUse,
                    exts: vec![],
                    payload: pdu.data[ctx.len_pdu_frag() as usize..nctx.len_pdu_frag() as usize]
                        .to_vec(),
                    crc: 0,
                    pdu_idx: pi,
                };
                let n = n as usize;
                assert_eq!(&buf[off..off + n], &serialize(&rec)[..]);
                assert_ne!(buf[off] & 0xF0, 0);
                if n == 4097 {
                    st.inc("tx:packet of 4097 bytes (GSE length 4095)");
                }
                out.push((buf[off..off + n].to_vec(), rec));
                off += n;
            }
            Err(_) => break,
        }
    }
    out
}

/// every H-LEN class and every known mandatory extension (final / non final, 0..8 data bytes),
/// alone and chained, as complete packets and as fragmented PDUs, followed by padding
#[test]
fn c10_extension_grid() {
    let mut total = Stats::default();
    let mut chains: Vec<(Vec<XE>, u16)> = vec![];
    let d = |n: usize| -> Vec<u8> { (0..n).map(|i| (0xA0 + i) as u8).collect() };
    for h in 1..=5u16 {
        let dl = [0usize, 2, 4, 6, 8][h as usize - 1];
        for low in [0u16, 0x20, 0xFF] {
            chains.push((vec![XE { id: (h << 8) | low, data: d(dl) }], 0x0600));
        }
    }
    for k in 0..=8usize {
        chains.push((vec![XE { id: 0x20 + k as u16, data: d(k) }], 0x20 + k as u16));
        chains.push((vec![XE { id: 0x40 + k as u16, data: d(k) }], 0x0800));
        for h in 1..=5u16 {
            let dl = [0usize, 2, 4, 6, 8][h as usize - 1];
            // optional, non final, final
            chains.push((
                vec![
                    XE { id: (h << 8) | 0x11, data: d(dl) },
                    XE { id: 0x40 + k as u16, data: d(k) },
                    XE { id: 0x20 + (8 - k) as u16, data: d(8 - k) },
                ],
                0x20 + (8 - k) as u16,
            ));
            // non final, optional, then a real protocol type
            chains.push((
                vec![
                    XE { id: 0x40 + k as u16, data: d(k) },
                    XE { id: (h << 8) | 0x00, data: d(dl) },
                ],
                0x0600,
            ));
        }
        // unknown mandatory extension, at each position
        chains.push((vec![XE { id: 0x7F, data: d(k) }], 0x7F));
        chains.push((vec![XE { id: 0x7F, data: d(k) }], 0x0800));
        chains.push((
            vec![XE { id: 0x0300, data: d(4) }, XE { id: 0x00, data: d(k) }],
            0x0600,
        ));
        chains.push((
            vec![XE { id: 0x00, data: d(k) }, XE { id: 0x0300, data: d(4) }],
            0x0600,
        ));
    }
    let mut cases = 0u64;
    for (ci, (chain, ptype)) in chains.iter().enumerate() {
        for len in [0usize, 1, 5, 60, 4070, 4090] {
            for cap in [40usize, 200, 4097, 4200] {
                for lab in [
                    Label::Broadcast,
                    Label::ThreeBytesLabel([0, 0, 0]),
                    Label::SixBytesLabel([1, 2, 3, 4, 5, 6]),
                ] {
                    let has_unknown = chain
                        .iter()
                        .any(|e| e.id < 0x100 && model_lookup(e.id) == M::Unknown);
                    let mut st = Stats::default();
                    ext_case(chain, *ptype, len, cap, lab, has_unknown, ci, &mut st);
                    total.merge(&st);
                    cases += 1;
                }
            }
        }
    }
    total.add("extension grid cases", cases);
    total.add("extension chains", chains.len() as u64);
    total.dump("c10_extension_grid");
}

#[allow(clippy::too_many_arguments)]
fn ext_case(
    chain: &[XE],
    ptype: u16,
    len: usize,
    cap: usize,
    lab: Label,
    has_unknown: bool,
    ci: usize,
    st: &mut Stats,
) {
    let cfg = Cfg {
        clean: !has_unknown,
        slots: 2,
        max_pdu_size: 0,
        storages: vec![len + 3; 3],
        frames: 0,
        frame_caps: vec![cap],
        pads: vec![0],
        sizes: vec![],
        p_ext: 0,
        p_continue: 100,
        sequential: true,
        max_pkts_per_frame: 1_000_000,
        reuse_mode: 0,
        p_fault: 0,
        reprovision: 0,
        reset_policy: 0,
        big_garbage: false,
        no_new: false,
        toggles: true,
    };
    let mut rng = Rng::new((ci * 1000 + len + cap) as u64);
    let mut s = Sender {
        enc: Encapsulator::new(DefaultCrc {}),
        pdus: vec![],
        pending: vec![],
        ended: vec![],
    };
    let mut rx = Rx::new(&cfg);
    let mut model = Model::new(cfg.slots, cfg.max_pdu_size);
    for (i, sz) in cfg.storages.iter().enumerate() {
        rx.provision(&mut model, *sz, i as u8, st);
    }
    let data: Vec<u8> = (0..len).map(|i| (i * 13 + 5) as u8).collect();
    let pdu = Pdu {
        data: data.clone(),
        ptype,
        label: lab,
        frag_id: 3,
        exts: chain.to_vec(),
    };
    let mut delivered: Vec<u32> = vec![];
    let mut first = true;
    let mut frames = 0;
    while first || !s.pending.is_empty() {
        frames += 1;
        assert!(frames < 10_000);
        let mut scratch = vec![0u8; cap];
        s.enc.reset_last_label();
        rx.reset_labels(&mut model);
        let mut pkts: Vec<(Vec<u8>, Rec)> = vec![];
        let mut off = 0;
        if first {
            first = false;
            let md = EncapMetadata::new(ptype, lab);
            let res = s.enc.encap_ext(
                &data,
                3,
                md,
                &mut scratch,
                chain.iter().map(|e| e.ext()).collect(),
            );
            match res {
                Err(e) => {
                    st.inc(&format!("ext grid: encap_ext refused {e:?}"));
                    return;
                }
                Ok(status) => {
                    let total_len = (len + 2 + lab.len()) as u16;
                    let (n, rec) = match status {
                        EncapStatus::CompletedPkt(n) => {
                            s.ended.push(true);
                            st.inc("ext grid: complete packet");
                            (
                                n as usize,
                                Rec {
                                    kind: Kind::Complete,
                                    frag_id: 3,
                                    total_len,
                                    ptype,
                                    wire_label: lab,
                                    exts: chain.to_vec(),
                                    payload: data.clone(),
                                    crc: 0,
                                    pdu_idx: 0,
                                },
                            )
                        }
                        EncapStatus::FragmentedPkt(n, ctx) => {
                            s.ended.push(false);
                            s.pending.push((0, ctx));
                            st.inc("ext grid: first fragment");
                            (
                                n as usize,
                                Rec {
                                    kind: Kind::First,
                                    frag_id: 3,
                                    total_len,
                                    ptype,
                                    wire_label: lab,
                                    exts: chain.to_vec(),
                                    payload: data[..ctx.len_pdu_frag() as usize].to_vec(),
                                    crc: 0,
                                    pdu_idx: 0,
                                },
                            )
                        }
                    };
                    s.pdus.push(pdu.clone());
                    assert_eq!(&scratch[..n], &serialize(&rec)[..], "chain {chain:?}");
                    pkts.push((scratch[..n].to_vec(), rec));
                    off = n;
                }
            }
        }
        let mut more = {
            let mut tmp = scratch[off..].to_vec();
            build_into(&mut s, &mut tmp, st)
        };
        pkts.append(&mut more);
        assert!(!pkts.is_empty());
        delivered.resize(s.pdus.len(), 0);
        let used: usize = pkts.iter().map(|p| p.0.len()).sum();
        receive_frame(
            &mut rx,
            &mut model,
            &s,
            &mut delivered,
            &pkts,
            cap - used,
            &mut rng,
            &cfg,
            st,
        );
    }
    if has_unknown {
        assert_eq!(delivered[0], 0);
        st.inc("ext grid: PDU with unknown mandatory extension never delivered");
    } else {
        assert_eq!(delivered[0], 1);
    }
}

/// faults only (storage is sufficient): CRC errors, unknown / colliding frag ids, lost, duplicated
/// and swapped packets, in the middle of valid traffic
#[test]
fn c10_random_faulty_ample_storage() {
    let mut total = Stats::default();
    let n = iters(2500);
    for i in 0..n {
        let mut rng = Rng::new(base_seed() ^ (i * 32452843 + 17));
        let mut cfg = base_cfg();
        cfg.clean = false;
        cfg.slots = rng.pick(&[1usize, 2, 3, 4, 8, 256]);
        let maxp = rng.pick(&[300usize, 1000, 9000]);
        cfg.sizes = vec![(0, 40), (50, maxp.min(600)), (maxp / 2, maxp)];
        cfg.max_pdu_size = rng.pick(&[0usize, maxp]);
        cfg.storages = vec![maxp + rng.pick(&[0usize, 1, 100]); cfg.slots + 2];
        cfg.frames = rng.range(2, 12);
        cfg.reuse_mode = rng.below(3) as u8;
        cfg.p_ext = rng.pick(&[0usize, 25]);
        cfg.p_continue = rng.pick(&[30usize, 60, 85]);
        cfg.p_fault = rng.pick(&[3usize, 8, 15]);
        cfg.reprovision = 0;
        cfg.reset_policy = rng.below(2) as u8;
        cfg.frame_caps = match rng.below(3) {
            0 => vec![40, 80, 120],
            1 => vec![300, 1000, 4097],
            _ => vec![100, 500, 4097, 4200, 9000],
        };
        let mut st = Stats::default();
        run(&cfg, base_seed().wrapping_add(90_000 + i), &mut st);
        total.merge(&st);
    }
    total.dump("c10_random_faulty_ample_storage");
}

/// maximal PDUs with duplicated / lost fragments and storages larger than 65535 bytes
/// (reassembly longer than the 16 bit counters)
#[test]
fn c10_random_faulty_huge() {
    let mut total = Stats::default();
    let n = iters(60);
    for i in 0..n {
        let mut rng = Rng::new(base_seed() ^ (i * 49979687 + 23));
        let mut cfg = base_cfg();
        cfg.clean = false;
        cfg.slots = rng.pick(&[1usize, 2, 3]);
        cfg.sizes = vec![(65500, 65533), (60000, 65533), (0, 50)];
        cfg.max_pdu_size = rng.pick(&[0usize, 65533, 65536]);
        let ssz = rng.pick(&[65533usize, 65535, 65536, 70000, 140000]).max(cfg.max_pdu_size);
        cfg.storages = vec![ssz; cfg.slots + 2];
        cfg.frames = rng.range(2, 6);
        cfg.frame_caps = rng.pick(&[vec![4097usize, 4098, 5000], vec![70000, 140000]]);
        cfg.max_pkts_per_frame = 60;
        cfg.p_fault = rng.pick(&[3usize, 8]);
        cfg.p_continue = 85;
        cfg.reprovision = 0;
        cfg.toggles = false;
        let mut st = Stats::default();
        run(&cfg, base_seed().wrapping_add(200_000 + i), &mut st);
        total.merge(&st);
    }
    total.dump("c10_random_faulty_huge");
}

/// the two managers shipped with the crate, NCR / L2S protocol types (0x0081, 0x0082) sent with
/// plain `encap` between ordinary packets; differential check only
#[test]
fn c10_crate_managers() {
    use dvb_gse_rust::header_extension::{
        SignalisationMandatoryExtensionHeaderManager, SimpleMandatoryExtensionHeaderManager,
    };
    fn go<MG: MandatoryHeaderExtensionManager + Copy>(mg: MG, known: bool, st: &mut Stats) {
        let mut rng = Rng::new(77);
        for round in 0..300 {
            let mut enc = Encapsulator::new(DefaultCrc {});
            let mk = || {
                let mut m = SimpleGseMemory::new(2, 0, 0, 0);
                for _ in 0..4 {
                    m.provision_storage(vec![0; 3000].into_boxed_slice()).unwrap();
                }
                Decapsulator::new(m, DefaultCrc {}, mg)
            };
            let (mut a, mut b) = (mk(), mk());
            let cap = rng.pick(&[200usize, 1000, 5000]);
            let mut frame = vec![0u8; cap];
            let mut off = 0;
            let mut lens: Vec<(usize, u16)> = vec![];
            for _ in 0..rng.range(1, 12) {
                let pt = rng.pick(&[0x0081u16, 0x0082, 0x0800, 0x0081]);
                let len = rng.below(60);
                let data: Vec<u8> = (0..len).map(|_| rng.next() as u8).collect();
                let lab = rng.pick(&LABELS);
                if cap - off < 12 + len {
                    break;
                }
                match enc.encap(&data, 1, EncapMetadata::new(pt, lab), &mut frame[off..]) {
                    Ok(EncapStatus::CompletedPkt(n)) => {
                        lens.push((n as usize, pt));
                        off += n as usize;
                    }
                    x => panic!("{x:?}"),
                }
            }
            let pad = rng.pick(&[0usize, 2, 3, 50]);
            frame.resize(off + pad, 0);
            let mut o = 0;
            for (n, pt) in &lens {
                let ra = a.decap(&frame[o..]);
                let rb = b.decap(&frame[o..o + n]);
                assert!(ra == rb, "round {round}: {ra:?} vs {rb:?}");
                match &ra {
                    Ok((DecapStatus::CompletedPkt(buf, md), c)) => {
                        assert_eq!(c, n);
                        assert_eq!(md.protocol_type(), *pt);
                        assert!(known || *pt >= 0x600);
                        assert!(buf.len() >= md.pdu_len());
                        st.inc("managers: delivered");
                    }
                    Err((DecapError::ErrorUnkownMandatoryHeader, c)) => {
                        assert_eq!(c, n);
                        assert!(!known && *pt < 0x100);
                        st.inc("managers: unknown mandatory, own length consumed");
                    }
                    Err((DecapError::ErrorNoLabelSaved, c)) => {
                        // label forgotten after a rejected packet (deliberate policy)
                        assert_eq!(c, n);
                        assert!(!known);
                        st.inc("managers: re-use label after a rejected packet");
                    }
                    x => panic!("{x:?}"),
                }
                // storages are not given back: 4 storages, so give new ones
                let _ = a.provision_storage(vec![0; 3000].into_boxed_slice());
                let _ = b.provision_storage(vec![0; 3000].into_boxed_slice());
                o += n;
            }
            if pad >= 2 {
                assert_eq!(a.decap(&frame[o..]), Ok((DecapStatus::Padding, pad)));
                st.inc("managers: padding");
            }
        }
    }
    let mut st = Stats::default();
    go(SignalisationMandatoryExtensionHeaderManager {}, true, &mut st);
    go(SimpleMandatoryExtensionHeaderManager {}, false, &mut st);
    st.dump("c10_crate_managers");
}
