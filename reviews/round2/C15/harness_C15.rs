// Harness for property C15: "Label re-use policy bounds are respected".
//
// Public API only. Four layers:
//   1. `closure_*`   : complete reachability exploration (sequences of ANY length) of the product
//                      encapsulator-state x property-monitor x reference-model over a fixed op alphabet
//                      (state identity = Debug rendering of the Encapsulator, which is public (derive(Debug))).
//   2. `dfs_*`       : plain exhaustive enumeration of every op sequence up to a bounded depth.
//   3. `counter_*`   : every N in 0..=255 (u8 counter corner 255), exact full/re-use pattern, with
//                      failing calls, explicit re-use packets and fragments interleaved.
//   4. `random_*`    : long random sequences over the whole size / protocol type / extension domain,
//                      and a sender->BBFrame->receiver walk with padding comparing delivered labels.
//
// The monitor encodes the property only (not the implementation): any behaviour more conservative than
// the implementation's would still pass. The reference model encodes the documented policy exactly and
// is compared as well (a mismatch there is reported separately as "model mismatch").
//
// Run (copy to tests/):  cargo test --offline --test harness_C15 -- --nocapture
//                        cargo test --offline --release --test harness_C15 -- --nocapture

use dvb_gse_rust::crc::{CrcCalculator, DefaultCrc};
use dvb_gse_rust::gse_decap::{DecapStatus, Decapsulator, GseDecapMemory, SimpleGseMemory};
use dvb_gse_rust::gse_encap::{ContextFrag, EncapError, EncapMetadata, EncapStatus, Encapsulator};
use dvb_gse_rust::header_extension::{
    Extension, MandatoryHeaderExt, MandatoryHeaderExtensionManager,
};
use dvb_gse_rust::label::Label;
use std::collections::{HashMap, VecDeque};

// ------------------------------------------------------------------------------------------------
// label alphabet
// ------------------------------------------------------------------------------------------------
const A6: Label = Label::SixBytesLabel([0x11, 0x22, 0x33, 0x44, 0x55, 0x66]);
const B6: Label = Label::SixBytesLabel([0x11, 0x22, 0x33, 0x00, 0x00, 0x00]); // shares a prefix with A3
const A3: Label = Label::ThreeBytesLabel([0x11, 0x22, 0x33]);
const Z3: Label = Label::ThreeBytesLabel([0, 0, 0]); // all-zero three byte label is legal
const BC: Label = Label::Broadcast;
const RU: Label = Label::ReUse; // explicit re-use requested by the caller
const ZERO6: Label = Label::SixBytesLabel([0; 6]); // always refused
const LABELS: [Label; 6] = [A6, B6, A3, Z3, BC, RU];

fn is36(l: Label) -> bool {
    matches!(l, Label::SixBytesLabel(_) | Label::ThreeBytesLabel(_))
}

// ------------------------------------------------------------------------------------------------
// a cheap CRC for the exhaustive parts (the CRC plays no role in C15)
// ------------------------------------------------------------------------------------------------
#[derive(Debug, PartialEq, Eq, Clone)]
struct NullCrc;
impl CrcCalculator for NullCrc {
    fn calculate_crc32(&self, _: &[u8], _: u16, _: u16, _: &[u8]) -> u32 {
        0x1234_5678
    }
}

// ------------------------------------------------------------------------------------------------
// wire parser (independent of the crate)
// ------------------------------------------------------------------------------------------------
#[derive(Debug, Clone, Copy, PartialEq, Eq)]
struct Wire {
    first: bool,
    label: Label, // label as carried on the wire (ReUse = marker)
    first_id: u16,
    gse_len: usize,
}

fn parse(pkt: &[u8]) -> Result<Wire, String> {
    if pkt.len() < 4 {
        return Err(format!("packet of {} bytes", pkt.len()));
    }
    let hdr = u16::from_be_bytes([pkt[0], pkt[1]]);
    let first = match hdr >> 14 {
        3 => false,
        2 => true,
        x => return Err(format!("S/E bits {x:02b}: not a start/complete packet")),
    };
    let gse_len = (hdr & 0x0FFF) as usize;
    if gse_len + 2 != pkt.len() {
        return Err(format!(
            "gse_len {} + 2 != returned length {}",
            gse_len,
            pkt.len()
        ));
    }
    let mut off = 2;
    if first {
        off += 3;
    }
    if pkt.len() < off + 2 {
        return Err("truncated before protocol type".into());
    }
    let first_id = u16::from_be_bytes([pkt[off], pkt[off + 1]]);
    off += 2;
    let lt = (hdr >> 12) & 3;
    let ll = match lt {
        0 => 6,
        1 => 3,
        _ => 0,
    };
    if pkt.len() < off + ll {
        return Err("truncated label".into());
    }
    let label = match lt {
        0 => Label::SixBytesLabel(pkt[off..off + 6].try_into().unwrap()),
        1 => Label::ThreeBytesLabel(pkt[off..off + 3].try_into().unwrap()),
        2 => Label::Broadcast,
        _ => Label::ReUse,
    };
    Ok(Wire {
        first,
        label,
        first_id,
        gse_len,
    })
}

// ------------------------------------------------------------------------------------------------
// property monitor: encodes C15 only
// ------------------------------------------------------------------------------------------------
#[derive(Debug, Clone, PartialEq, Eq)]
struct Monitor {
    enabled: bool,
    nmax: u8,  // 0 = no bound configured
    run: u32,  // consecutive substituted re-use packets since the last full label (or (re)configuration)
    eff: Option<Label>, // label designated by the immediately preceding start/complete packet
    must_full: bool, // a reset / a broadcast packet happened and no labelled packet was emitted since
}

impl Monitor {
    fn new() -> Self {
        // documented default: re-use enabled, no maximum
        Monitor {
            enabled: true,
            nmax: 0,
            run: 0,
            eff: None,
            must_full: true,
        }
    }
    fn reset(&mut self) {
        self.eff = None;
        self.must_full = true;
    }
    fn disable(&mut self) {
        self.enabled = false;
        self.nmax = 0;
        self.run = 0;
    }
    fn enable(&mut self, n: u8) {
        self.enabled = true;
        self.nmax = n;
        self.run = 0; // (re)configuration restarts the count: examined in round 1, not re-reported
    }
    /// returns Err(description) on a violation of C15
    fn packet(&mut self, req: Label, wire: Label) -> Result<(), String> {
        match req {
            Label::ReUse => {
                if wire != Label::ReUse {
                    return Err(format!("explicit re-use request emitted as {wire:?}"));
                }
                // explicit re-use: neither counted nor resetting (round 1), designates `eff` unchanged
                Ok(())
            }
            Label::Broadcast => {
                if wire != Label::Broadcast {
                    return Err(format!("broadcast request emitted as {wire:?}"));
                }
                self.eff = None;
                self.must_full = true;
                self.run = 0;
                Ok(())
            }
            l => {
                if wire == l {
                    self.eff = Some(l);
                    self.must_full = false;
                    self.run = 0;
                    return Ok(());
                }
                if wire != Label::ReUse {
                    return Err(format!("request {l:?} emitted as {wire:?}"));
                }
                // substituted
                if !self.enabled {
                    return Err(format!("(a) re-use disabled but {l:?} replaced by the re-use marker"));
                }
                if self.must_full {
                    return Err(format!(
                        "(c) first labelled packet after reset/broadcast: {l:?} replaced by the re-use marker"
                    ));
                }
                if self.eff != Some(l) {
                    return Err(format!(
                        "(d) {l:?} replaced by the re-use marker but the preceding packet designated {:?}",
                        self.eff
                    ));
                }
                if self.nmax != 0 && self.run + 1 > self.nmax as u32 {
                    return Err(format!(
                        "(b) {} consecutive re-use packets with max {}",
                        self.run + 1,
                        self.nmax
                    ));
                }
                if self.nmax != 0 {
                    // (no bound configured: nothing to count; keeps the monitor finite-state)
                    self.run += 1;
                }
                Ok(())
            }
        }
    }
}

// ------------------------------------------------------------------------------------------------
// reference model: the documented policy, exactly
// ------------------------------------------------------------------------------------------------
#[derive(Debug, Clone, PartialEq, Eq)]
struct RefModel {
    on: bool,
    n: u8,
    c: u32,
    mem: Option<Label>,
}
impl RefModel {
    fn new() -> Self {
        RefModel {
            on: true,
            n: 0,
            c: 0,
            mem: None,
        }
    }
    fn reset(&mut self) {
        self.mem = None;
    }
    fn disable(&mut self) {
        self.on = false;
        self.n = 0;
        self.c = 0;
    }
    fn enable(&mut self, n: u8) {
        if !self.on {
            self.mem = None;
        }
        self.on = true;
        self.n = n;
        self.c = 0;
    }
    fn predicts_reuse(&self, req: Label) -> bool {
        self.on && is36(req) && self.mem == Some(req) && (self.n == 0 || self.c < self.n as u32)
    }
    fn commit(&mut self, req: Label) {
        if !self.on {
            return;
        }
        if self.predicts_reuse(req) {
            if self.n != 0 {
                self.c += 1;
            }
            return;
        }
        if is36(req) && self.mem == Some(req) {
            self.c = 0;
        }
        match req {
            Label::Broadcast => self.mem = None,
            Label::ReUse => {}
            l => self.mem = Some(l),
        }
    }
}

// ------------------------------------------------------------------------------------------------
// size oracle (only used to be sure the intended outcome classes are really reached)
// ------------------------------------------------------------------------------------------------
#[derive(Debug, PartialEq, Eq, Clone, Copy)]
enum Expect {
    Complete(usize),
    First(usize),
    ErrSize,
    ErrPdu,
}
fn size_oracle(pdu: usize, buf: usize, wire_label_len: usize, ext: usize) -> Expect {
    let hc = 4 + wire_label_len + ext;
    if buf >= hc + pdu && pdu + wire_label_len + 2 + ext <= 4095 {
        return Expect::Complete(hc + pdu);
    }
    let hf = hc + 3;
    if buf < hf || hf > 4097 {
        return Expect::ErrSize;
    }
    if pdu + 2 + wire_label_len > 65535 {
        return Expect::ErrPdu;
    }
    Expect::First(hf + (buf - hf).min(4097 - hf))
}

// ------------------------------------------------------------------------------------------------
// one encap / encap_ext call, checked
// ------------------------------------------------------------------------------------------------
#[derive(Debug, Clone)]
struct Call {
    label: Label,
    ptype: u16,
    pdu_len: usize,
    buf_len: usize,
    frag_id: u8,
    exts: Option<Vec<Extension>>,
}

#[derive(Default, Debug, Clone)]
struct Stats {
    calls: u64,
    ok_complete: u64,
    ok_first: u64,
    err_size: u64,
    err_pdu: u64,
    err_ptype: u64,
    err_label: u64,
    err_noext: u64,
    err_final: u64,
    wire_full: u64,
    wire_bcast: u64,
    wire_subst: u64,
    wire_explicit: u64,
    full_forced_by_max: u64,
    full_after_reset_or_bc: u64,
    disabled_emits: u64,
    controls: u64,
    frag_calls: u64,
    longest_run: u32,
    longest_wire_ru_run: u32,
    cur_wire_ru_run: u32,
}

struct Bufs {
    pdu: Vec<u8>,
    out: Vec<u8>,
}
impl Bufs {
    fn new() -> Self {
        Bufs {
            pdu: (0..70_000u32).map(|i| (i * 7 + 3) as u8).collect(),
            out: vec![0xEE; 90_000],
        }
    }
}

struct Sys<C: CrcCalculator + Clone + PartialEq + std::fmt::Debug> {
    enc: Encapsulator<C>,
    mon: Monitor,
    rf: RefModel,
}
impl<C: CrcCalculator + Clone + PartialEq + std::fmt::Debug> Clone for Sys<C> {
    fn clone(&self) -> Self {
        Sys {
            enc: self.enc.clone(),
            mon: self.mon.clone(),
            rf: self.rf.clone(),
        }
    }
}

/// result of a checked call: Ok(Some((len, ctx?))) emitted, Ok(None) failed, Err(msg) violation
type CallResult = Result<Option<(usize, Option<ContextFrag>)>, String>;

impl<C: CrcCalculator + Clone + PartialEq + std::fmt::Debug> Sys<C> {
    fn new(c: C) -> Self {
        Sys {
            enc: Encapsulator::new(c),
            mon: Monitor::new(),
            rf: RefModel::new(),
        }
    }
    fn reset(&mut self, st: &mut Stats) {
        self.enc.reset_last_label();
        self.mon.reset();
        self.rf.reset();
        st.controls += 1;
    }
    fn disable(&mut self, st: &mut Stats) {
        self.enc.disable_re_use_label();
        self.mon.disable();
        self.rf.disable();
        st.controls += 1;
        assert!(!self.enc.is_enabled_re_use_label());
    }
    fn enable(&mut self, st: &mut Stats) {
        self.enc.enable_re_use_label();
        self.mon.enable(0);
        self.rf.enable(0);
        st.controls += 1;
        assert!(self.enc.is_enabled_re_use_label());
    }
    fn enable_max(&mut self, n: u8, st: &mut Stats) {
        self.enc.enable_re_use_label_with_max_consecutive(n);
        self.mon.enable(n);
        self.rf.enable(n);
        st.controls += 1;
        assert!(self.enc.is_enabled_re_use_label());
    }

    fn call(&mut self, c: &Call, b: &mut Bufs, st: &mut Stats) -> CallResult {
        st.calls += 1;
        let before = self.enc.clone();
        let md = EncapMetadata::new(c.ptype, c.label);
        let pdu = &b.pdu[..c.pdu_len];
        let buf = &mut b.out[..c.buf_len];
        let res = match &c.exts {
            None => self.enc.encap(pdu, c.frag_id, md, buf),
            Some(e) => self.enc.encap_ext(pdu, c.frag_id, md, buf, e.clone()),
        };
        match res {
            Err(e) => {
                match e {
                    EncapError::ErrorSizeBuffer => st.err_size += 1,
                    EncapError::ErrorPduLength => st.err_pdu += 1,
                    EncapError::ErrorProtocolType => st.err_ptype += 1,
                    EncapError::ErrorInvalidLabel => st.err_label += 1,
                    EncapError::ErrorNoExtensionFound => st.err_noext += 1,
                    EncapError::ErrorFinalMandatoryExtensionHeader => st.err_final += 1,
                }
                if self.enc != before {
                    return Err(format!(
                        "failing call ({e:?}) changed the encapsulator: {before:?} -> {:?}",
                        self.enc
                    ));
                }
                Ok(None)
            }
            Ok(status) => {
                let (len, ctx) = match status {
                    EncapStatus::CompletedPkt(l) => (l as usize, None),
                    EncapStatus::FragmentedPkt(l, ctx) => (l as usize, Some(ctx)),
                };
                if len > c.buf_len {
                    return Err(format!("returned length {len} > buffer {}", c.buf_len));
                }
                let w = parse(&b.out[..len])?;
                if w.first != ctx.is_some() {
                    return Err(format!("status/wire mismatch: {w:?} ctx {ctx:?}"));
                }
                if w.first {
                    st.ok_first += 1
                } else {
                    st.ok_complete += 1
                }
                // first id on the wire
                let exp_id = match &c.exts {
                    None => c.ptype,
                    Some(e) => e[0].id(),
                };
                if w.first_id != exp_id {
                    return Err(format!("protocol/ext id on wire {:#x} != {exp_id:#x}", w.first_id));
                }
                // size oracle (not C15; keeps the harness honest about which class was reached)
                let ext_len = match &c.exts {
                    None => 0,
                    Some(e) => {
                        let s: usize = e.iter().map(|x| x.len()).sum();
                        if c.ptype < 0x100 {
                            s - 2
                        } else {
                            s
                        }
                    }
                };
                let so = size_oracle(c.pdu_len, c.buf_len, w.label.len(), ext_len);
                let so_ok = match so {
                    Expect::Complete(l) => !w.first && l == len,
                    Expect::First(l) => w.first && l == len,
                    _ => false,
                };
                if !so_ok {
                    return Err(format!("SIZE-ORACLE (not C15): expected {so:?}, got {w:?} len {len}"));
                }

                // statistics
                let forced_by_max = is36(c.label)
                    && w.label == c.label
                    && self.mon.enabled
                    && self.mon.eff == Some(c.label)
                    && !self.mon.must_full
                    && self.mon.nmax != 0
                    && self.mon.run == self.mon.nmax as u32;
                if forced_by_max {
                    st.full_forced_by_max += 1;
                }
                if is36(c.label) && self.mon.must_full && w.label == c.label {
                    st.full_after_reset_or_bc += 1;
                }
                if !self.mon.enabled {
                    st.disabled_emits += 1;
                }
                match (c.label, w.label) {
                    (Label::ReUse, _) => st.wire_explicit += 1,
                    (Label::Broadcast, _) => st.wire_bcast += 1,
                    (_, Label::ReUse) => st.wire_subst += 1,
                    _ => st.wire_full += 1,
                }
                if w.label == Label::ReUse {
                    st.cur_wire_ru_run += 1;
                    st.longest_wire_ru_run = st.longest_wire_ru_run.max(st.cur_wire_ru_run);
                } else {
                    st.cur_wire_ru_run = 0;
                }

                // reference model (exact policy)
                let pred = self.rf.predicts_reuse(c.label);
                let got = is36(c.label) && w.label == Label::ReUse;
                // property monitor
                self.mon.packet(c.label, w.label)?;
                st.longest_run = st.longest_run.max(self.mon.run);
                if pred != got {
                    return Err(format!(
                        "MODEL MISMATCH (policy, not necessarily C15): model predicts reuse={pred}, wire {:?} for request {:?}",
                        w.label, c.label
                    ));
                }
                self.rf.commit(c.label);
                Ok(Some((len, ctx)))
            }
        }
    }

    /// finish a fragmented PDU with encap_frag (takes &self: cannot touch the label state, checked anyway)
    fn finish_frag(
        &mut self,
        pdu_len: usize,
        mut ctx: ContextFrag,
        chunk: usize,
        b: &mut Bufs,
        st: &mut Stats,
    ) -> Result<(), String> {
        let before = self.enc.clone();
        for _ in 0..100_000 {
            st.frag_calls += 1;
            let r = self.enc.encap_frag(&b.pdu[..pdu_len], &ctx, &mut b.out[..chunk]);
            match r {
                Ok(EncapStatus::CompletedPkt(_)) => break,
                Ok(EncapStatus::FragmentedPkt(_, c2)) => ctx = c2,
                Err(_) => break,
            }
        }
        if self.enc != before {
            return Err("encap_frag changed the encapsulator".into());
        }
        Ok(())
    }
}

fn ext(id: u16, data: &[u8]) -> Extension {
    Extension::new(id, data).unwrap()
}

// ------------------------------------------------------------------------------------------------
// op alphabet for the exhaustive parts
// ------------------------------------------------------------------------------------------------
#[derive(Debug, Clone, Copy, PartialEq, Eq)]
enum Op {
    Emit(u8, u8), // label index, kind
    Fail(u8, u8), // label index, kind  (kind 1 and 7 succeed iff the wire label is empty)
    Reset,
    Disable,
    Enable,
    EnableMax(u8),
}

const N_EMIT_KINDS: u8 = 5;
const N_FAIL_KINDS: u8 = 10;

fn op_call(op: Op) -> Option<(Call, Option<bool>)> {
    // returns the call and whether it must succeed (Some(true)), must fail (Some(false)) or depends on
    // the wire label length (None)
    match op {
        Op::Emit(l, k) => {
            let label = LABELS[l as usize];
            let c = match k {
                // complete, plain
                0 => Call { label, ptype: 0x0800, pdu_len: 3, buf_len: 64, frag_id: 1, exts: None },
                // first fragment, plain
                1 => Call { label, ptype: 0x0600, pdu_len: 40, buf_len: 20, frag_id: 2, exts: None },
                // complete, one optional extension
                2 => Call { label, ptype: 0xFFFF, pdu_len: 0, buf_len: 64, frag_id: 3,
                            exts: Some(vec![ext(0x0201, &[1, 2])]) },
                // first fragment, final mandatory extension with one data byte
                3 => Call { label, ptype: 0x0081, pdu_len: 30, buf_len: 17, frag_id: 4,
                            exts: Some(vec![ext(0x0100, &[]), ext(0x0081, &[9])]) },
                // complete, protocol type below 0x100 without extension (accepted by encap)
                _ => Call { label, ptype: 0x00FF, pdu_len: 1, buf_len: 4097, frag_id: 5, exts: None },
            };
            Some((c, Some(true)))
        }
        Op::Fail(l, k) => {
            let label = LABELS[l as usize];
            let (c, must) = match k {
                // buffer too small whatever the label
                0 => (Call { label, ptype: 0x0800, pdu_len: 5, buf_len: 3, frag_id: 1, exts: None }, Some(false)),
                // buffer of 8: a first fragment fits only if the label takes no room on the wire
                1 => (Call { label, ptype: 0x0800, pdu_len: 10, buf_len: 8, frag_id: 1, exts: None }, None),
                // refused protocol types
                2 => (Call { label, ptype: 0x0100, pdu_len: 5, buf_len: 64, frag_id: 1, exts: None }, Some(false)),
                3 => (Call { label, ptype: 0x05FF, pdu_len: 5, buf_len: 64, frag_id: 1, exts: None }, Some(false)),
                // PDU too long for the total length field
                4 => (Call { label, ptype: 0x0800, pdu_len: 65535, buf_len: 30, frag_id: 1, exts: None }, Some(false)),
                // final mandatory extension mismatch
                5 => (Call { label, ptype: 0x0005, pdu_len: 5, buf_len: 64, frag_id: 1,
                             exts: Some(vec![ext(0x0201, &[1, 2])]) }, Some(false)),
                // no extension
                6 => (Call { label, ptype: 0x0800, pdu_len: 5, buf_len: 64, frag_id: 1, exts: Some(vec![]) }, Some(false)),
                // encap_ext, buffer 12, ext of 4: first fragment needs 4+ll+4+3 = 11+ll
                7 => (Call { label, ptype: 0x0800, pdu_len: 20, buf_len: 12, frag_id: 1,
                             exts: Some(vec![ext(0x0201, &[1, 2])]) }, None),
                // encap_ext, PDU too long
                8 => (Call { label, ptype: 0x0800, pdu_len: 65534, buf_len: 40, frag_id: 1,
                             exts: Some(vec![ext(0x0100, &[])]) }, Some(false)),
                // padding label (the label index is ignored)
                _ => (Call { label: ZERO6, ptype: 0x0800, pdu_len: 5, buf_len: 64, frag_id: 1, exts: None }, Some(false)),
            };
            Some((c, must))
        }
        _ => None,
    }
}

fn apply<C: CrcCalculator + Clone + PartialEq + std::fmt::Debug>(
    s: &mut Sys<C>,
    op: Op,
    calls: &HashMap<(u8, u8, u8), (Call, Option<bool>)>,
    b: &mut Bufs,
    st: &mut Stats,
) -> Result<(), String> {
    match op {
        Op::Reset => s.reset(st),
        Op::Disable => s.disable(st),
        Op::Enable => s.enable(st),
        Op::EnableMax(n) => s.enable_max(n, st),
        Op::Emit(l, k) => {
            let (c, must) = &calls[&(0, l, k)];
            let r = s.call(c, b, st)?;
            if *must == Some(true) && r.is_none() {
                return Err(format!("harness: emitting op {op:?} failed"));
            }
        }
        Op::Fail(l, k) => {
            let (c, must) = &calls[&(1, l, k)];
            let r = s.call(c, b, st)?;
            if *must == Some(false) && r.is_some() {
                return Err(format!("harness: failing op {op:?} succeeded"));
            }
        }
    }
    Ok(())
}

fn call_table() -> HashMap<(u8, u8, u8), (Call, Option<bool>)> {
    let mut m = HashMap::new();
    for l in 0..6u8 {
        for k in 0..N_EMIT_KINDS {
            m.insert((0, l, k), op_call(Op::Emit(l, k)).unwrap());
        }
        for k in 0..N_FAIL_KINDS {
            m.insert((1, l, k), op_call(Op::Fail(l, k)).unwrap());
        }
    }
    m
}

fn full_alphabet(maxes: &[u8]) -> Vec<Op> {
    let mut v = vec![];
    for l in 0..6u8 {
        for k in 0..N_EMIT_KINDS {
            v.push(Op::Emit(l, k));
        }
        for k in 0..N_FAIL_KINDS {
            v.push(Op::Fail(l, k));
        }
    }
    v.push(Op::Reset);
    v.push(Op::Disable);
    v.push(Op::Enable);
    for &n in maxes {
        v.push(Op::EnableMax(n));
    }
    v
}

fn small_alphabet() -> Vec<Op> {
    let mut v = vec![];
    for l in 0..6u8 {
        v.push(Op::Emit(l, 0));
    }
    v.push(Op::Emit(0, 1));
    v.push(Op::Emit(0, 2));
    v.push(Op::Emit(0, 3));
    v.push(Op::Emit(2, 1));
    for k in [0u8, 1, 2, 4, 5, 7] {
        v.push(Op::Fail(0, k));
    }
    v.push(Op::Fail(1, 0));
    v.push(Op::Fail(1, 1));
    v.push(Op::Fail(4, 0));
    v.push(Op::Fail(2, 1));
    v.push(Op::Reset);
    v.push(Op::Disable);
    v.push(Op::Enable);
    v.push(Op::EnableMax(1));
    v.push(Op::EnableMax(2));
    v
}

// ------------------------------------------------------------------------------------------------
// 1. closure: every reachable product state, sequences of any length
// ------------------------------------------------------------------------------------------------
fn closure(alphabet: Vec<Op>, name: &str) {
    let calls = call_table();
    let mut b = Bufs::new();
    let mut st = Stats::default();

    struct Node {
        sys: Sys<NullCrc>,
        parent: usize,
        op: Option<Op>,
    }
    let mut nodes: Vec<Node> = vec![Node { sys: Sys::new(NullCrc), parent: 0, op: None }];
    let mut seen: HashMap<String, usize> = HashMap::new();
    let key = |s: &Sys<NullCrc>| format!("{:?}|{:?}|{:?}", s.enc, s.mon, s.rf);
    seen.insert(key(&nodes[0].sys), 0);
    let mut queue: VecDeque<usize> = VecDeque::new();
    queue.push_back(0);
    let mut transitions = 0u64;
    while let Some(i) = queue.pop_front() {
        for &op in &alphabet {
            let mut s = nodes[i].sys.clone();
            transitions += 1;
            if let Err(e) = apply(&mut s, op, &calls, &mut b, &mut st) {
                // reconstruct the path
                let mut path = vec![op];
                let mut j = i;
                while let Some(o) = nodes[j].op {
                    path.push(o);
                    j = nodes[j].parent;
                }
                path.reverse();
                panic!("{name}: VIOLATION {e}\n  path: {path:?}");
            }
            let k = key(&s);
            if !seen.contains_key(&k) {
                seen.insert(k, nodes.len());
                nodes.push(Node { sys: s, parent: i, op: Some(op) });
                queue.push_back(nodes.len() - 1);
                assert!(nodes.len() < 3_000_000, "{name}: state space larger than expected");
            }
        }
    }
    println!(
        "[{name}] alphabet {} ops, reachable product states {}, transitions checked {}, stats {:?}",
        alphabet.len(),
        nodes.len(),
        transitions,
        st
    );
    assert!(st.wire_subst > 0 && st.full_forced_by_max > 0 && st.full_after_reset_or_bc > 0);
    assert!(st.err_size > 0 && st.err_pdu > 0 && st.err_ptype > 0 && st.err_final > 0);
    assert!(st.disabled_emits > 0);
}

#[test]
fn closure_small_maxes() {
    closure(full_alphabet(&[0, 1, 2, 3]), "closure full alphabet, N in {0,1,2,3}");
}

#[test]
fn closure_corner_maxes() {
    // 254/255: the u8 counter corner; 5 and 7 so that changing N below / above the current count is covered
    let mut a = small_alphabet();
    a.push(Op::EnableMax(if cfg!(debug_assertions) { 40 } else { 254 }));
    a.push(Op::EnableMax(255));
    closure(a, "closure small alphabet, N in {1,2,40|254,255}");
}

// ------------------------------------------------------------------------------------------------
// 2. exhaustive bounded depth
// ------------------------------------------------------------------------------------------------
fn dfs(
    s: &Sys<NullCrc>,
    depth: usize,
    alphabet: &[Op],
    calls: &HashMap<(u8, u8, u8), (Call, Option<bool>)>,
    b: &mut Bufs,
    st: &mut Stats,
    path: &mut Vec<Op>,
    leaves: &mut u64,
) {
    if depth == 0 {
        *leaves += 1;
        return;
    }
    for &op in alphabet {
        let mut s2 = s.clone();
        path.push(op);
        if let Err(e) = apply(&mut s2, op, calls, b, st) {
            panic!("dfs: VIOLATION {e}\n  path: {path:?}");
        }
        dfs(&s2, depth - 1, alphabet, calls, b, st, path, leaves);
        path.pop();
    }
}

fn env_usize(name: &str, default: usize) -> usize {
    std::env::var(name).ok().and_then(|v| v.parse().ok()).unwrap_or(default)
}

#[test]
fn dfs_full_alphabet() {
    let depth = env_usize("C15_DFS_FULL", if cfg!(debug_assertions) { 3 } else { 4 });
    let alphabet = full_alphabet(&[0, 1, 2, 3, 255]);
    let calls = call_table();
    let mut b = Bufs::new();
    let mut st = Stats::default();
    let mut leaves = 0;
    dfs(&Sys::new(NullCrc), depth, &alphabet, &calls, &mut b, &mut st, &mut vec![], &mut leaves);
    println!(
        "[dfs_full] alphabet {} ops, depth {}, sequences {}, stats {:?}",
        alphabet.len(),
        depth,
        leaves,
        st
    );
}

#[test]
fn dfs_small_alphabet() {
    let depth = env_usize("C15_DFS_SMALL", if cfg!(debug_assertions) { 5 } else { 6 });
    let alphabet = small_alphabet();
    let calls = call_table();
    let mut b = Bufs::new();
    let mut st = Stats::default();
    let mut leaves = 0;
    dfs(&Sys::new(NullCrc), depth, &alphabet, &calls, &mut b, &mut st, &mut vec![], &mut leaves);
    println!(
        "[dfs_small] alphabet {} ops, depth {}, sequences {}, stats {:?}",
        alphabet.len(),
        depth,
        leaves,
        st
    );
}

// ------------------------------------------------------------------------------------------------
// 3. every N in 0..=255: exact pattern
// ------------------------------------------------------------------------------------------------
#[test]
fn counter_all_n_exact_pattern() {
    let calls = call_table();
    let mut b = Bufs::new();
    let mut st = Stats::default();
    let mut cases = 0u64;
    for n in 0..=255u8 {
        for (li, &label) in LABELS.iter().enumerate().take(4) {
            for kind in 0..N_EMIT_KINDS {
                for variant in 0..6 {
                    // variant 0: plain; 1: failing calls between; 2: explicit re-use between;
                    // 3: fragments (encap_frag) between; 4: preceded by disable/enable;
                    // 5: reset in the middle of a run
                    cases += 1;
                    let mut s = Sys::new(NullCrc);
                    if variant == 4 {
                        s.disable(&mut st);
                        for _ in 0..3 {
                            let r = s.call(&calls[&(0, li as u8, kind)].0, &mut b, &mut st).unwrap();
                            assert!(r.is_some());
                        }
                    }
                    s.enable_max(n, &mut st);
                    let total = if n == 0 { 700 } else { 3 * n as usize + 4 };
                    let mut wire_seq: Vec<bool> = vec![]; // true = substituted
                    for i in 0..total {
                        if variant == 1 {
                            for fk in 0..N_FAIL_KINDS {
                                // with label l (kinds 1 and 7 could emit a re-use packet: skipped here)
                                // and with another label
                                if fk != 1 && fk != 7 {
                                    let r = s
                                        .call(&calls[&(1, li as u8, fk)].0, &mut b, &mut st)
                                        .unwrap_or_else(|e| panic!("N={n} {label:?}: {e}"));
                                    assert!(r.is_none());
                                }
                                let other = (li as u8 + 1) % 4;
                                // kinds 1 and 7 would emit for an empty wire label only: `other` is
                                // never re-used here (memory holds `label`), so they fail
                                let r = s
                                    .call(&calls[&(1, other, fk)].0, &mut b, &mut st)
                                    .unwrap_or_else(|e| panic!("N={n} {label:?}: {e}"));
                                assert!(r.is_none());
                            }
                        }
                        if variant == 2 && i > 0 && i % 3 == 0 {
                            s.call(&calls[&(0, 5, 0)].0, &mut b, &mut st)
                                .unwrap_or_else(|e| panic!("N={n} {label:?}: {e}"));
                        }
                        if variant == 5 && i == total / 2 {
                            s.reset(&mut st);
                        }
                        let before_sub = st.wire_subst;
                        let r = s
                            .call(&calls[&(0, li as u8, kind)].0, &mut b, &mut st)
                            .unwrap_or_else(|e| panic!("N={n} {label:?} kind {kind} variant {variant} i={i}: {e}"));
                        let (_, ctx) = r.expect("emit");
                        wire_seq.push(st.wire_subst > before_sub);
                        if variant == 3 {
                            if let Some(ctx) = ctx {
                                let pl = calls[&(0, li as u8, kind)].0.pdu_len;
                                s.finish_frag(pl, ctx, 11, &mut b, &mut st).unwrap();
                            }
                        }
                    }
                    // exact pattern expected from the documented policy
                    let mut exp = vec![];
                    let mut c = 0usize;
                    let mut have = false;
                    for i in 0..total {
                        if variant == 5 && i == total / 2 {
                            have = false;
                        }
                        if have && (n == 0 || c < n as usize) {
                            exp.push(true);
                            if n != 0 {
                                c += 1;
                            }
                        } else {
                            if have {
                                c = 0;
                            }
                            exp.push(false);
                            have = true;
                        }
                    }
                    assert_eq!(wire_seq, exp, "N={n} {label:?} kind {kind} variant {variant}");
                    // the bound itself, independent of `exp`
                    let mut run = 0usize;
                    for &r in &wire_seq {
                        if r {
                            run += 1;
                            assert!(n == 0 || run <= n as usize);
                        } else {
                            run = 0;
                        }
                    }
                }
            }
        }
    }
    println!("[counter_all_n] cases {cases}, stats {:?}", st);
}

#[test]
fn counter_two_labels_alternating_and_blocks() {
    // alternating labels never re-use; blocks of k identical labels re-use min(k-1, pattern) of them
    let calls = call_table();
    let mut b = Bufs::new();
    let mut st = Stats::default();
    let mut cases = 0;
    for n in 0..=255u8 {
        for block in [1usize, 2, 3, 4, 5, 254, 255, 256, 257] {
            if block > 5 && !(n == 0 || n >= 253 || n <= 2) {
                continue;
            }
            cases += 1;
            let mut s = Sys::new(NullCrc);
            s.enable_max(n, &mut st);
            for rep in 0..4 {
                let li = [0u8, 2, 1, 3][rep % 4];
                for _ in 0..block {
                    s.call(&calls[&(0, li, (rep % 5) as u8)].0, &mut b, &mut st)
                        .unwrap_or_else(|e| panic!("N={n} block {block}: {e}"));
                }
            }
        }
    }
    println!("[counter_blocks] cases {cases}, stats {:?}", st);
}

// ------------------------------------------------------------------------------------------------
// 4. random
// ------------------------------------------------------------------------------------------------
struct Rng(u64);
impl Rng {
    fn next(&mut self) -> u64 {
        self.0 ^= self.0 >> 12;
        self.0 ^= self.0 << 25;
        self.0 ^= self.0 >> 27;
        self.0.wrapping_mul(0x2545_F491_4F6C_DD1D)
    }
    fn below(&mut self, n: usize) -> usize {
        (self.next() % n as u64) as usize
    }
    fn pick<T: Copy>(&mut self, v: &[T]) -> T {
        v[self.below(v.len())]
    }
}

fn rand_ext_chain(r: &mut Rng) -> (Vec<Extension>, Option<u16>) {
    // returns the chain and, if the last one is mandatory, its id (usable as protocol type)
    let n = 1 + r.below(4);
    let mut v = vec![];
    let mut last_mand = None;
    for i in 0..n {
        let class = r.below(7);
        let e = match class {
            0 | 6 => {
                let id = r.pick(&[0x0000u16, 0x0001, 0x0042, 0x0081, 0x0082, 0x00FE, 0x00FF]);
                // 0..8 data bytes, and now and then a header that alone (almost) fills a GSE packet
                let dl = if r.below(40) == 0 { 4060 + r.below(45) } else { r.below(9) };
                let data: Vec<u8> = (0..dl).map(|x| (x as u8).wrapping_add(0xA0)).collect();
                if i == n - 1 {
                    last_mand = Some(id);
                }
                ext(id, &data)
            }
            h => {
                let id = ((h as u16) << 8) | r.pick(&[0x00u16, 0x01, 0x7F, 0xFF]);
                let data: Vec<u8> = (0..(h - 1) * 2).map(|x| x as u8 + 0xB0).collect();
                ext(id, &data)
            }
        };
        v.push(e);
    }
    (v, last_mand)
}

fn rand_call(r: &mut Rng, prev_label: Label) -> Call {
    let label = match r.below(100) {
        0..=54 => prev_label,
        55..=92 => r.pick(&LABELS),
        93..=95 => RU,
        96..=97 => BC,
        _ => ZERO6,
    };
    let pdu_len = match r.below(100) {
        0..=49 => r.below(64),
        50..=59 => r.pick(&[0usize, 1, 2]),
        60..=74 => 4080 + r.below(20), // 4080..4099: around 4093..4097 minus headers
        75..=79 => r.below(5000),
        80..=84 => 65520 + r.below(16), // ..65535
        85..=87 => r.pick(&[65533usize, 65534, 65535]),
        _ => r.below(300),
    };
    let ptype = match r.below(100) {
        0..=59 => r.pick(&[0x0800u16, 0x0600, 0x0601, 0x86DD, 0xFFFF]),
        60..=74 => r.pick(&[0x0000u16, 0x0001, 0x0081, 0x0082, 0x00FF]),
        75..=84 => r.pick(&[0x0100u16, 0x0101, 0x01FF, 0x0200, 0x0300, 0x0400, 0x0500, 0x05FF]),
        _ => r.next() as u16,
    };
    let (exts, ptype) = match r.below(100) {
        0..=54 => (None, ptype),
        55..=57 => (Some(vec![]), ptype),
        _ => {
            let (chain, last_mand) = rand_ext_chain(r);
            let p = match (last_mand, r.below(10)) {
                (Some(id), 0..=6) => id,            // final mandatory, matching
                (Some(_), 7) => 0x0033,             // mismatch
                (None, 0) => 0x0044,                // mandatory protocol type without mandatory ext
                _ => ptype,
            };
            (Some(chain), p)
        }
    };
    let ext_len: usize = exts.as_ref().map(|e| e.iter().map(|x| x.len()).sum()).unwrap_or(0);
    let exact = 4 + ext_len + pdu_len; // exact fit for an empty label
    let buf_len = match r.below(100) {
        0..=29 => 64 + r.below(64),
        30..=39 => r.below(24),
        40..=54 => (exact + r.below(12)).saturating_sub(2), // exact fit -2..+9 (label 0/3/6 boundaries)
        55..=64 => 4090 + r.below(20),                      // 4090..4109
        65..=69 => 65530 + r.below(30),
        70..=74 => 70_000 + r.below(100),
        75..=84 => 4 + ext_len + r.below(12), // header only / header + few bytes
        _ => 200 + r.below(5000),
    };
    let buf_len = buf_len.min(90_000);
    Call { label, ptype, pdu_len, buf_len, frag_id: r.next() as u8, exts }
}

fn random_run<C: CrcCalculator + Clone + PartialEq + std::fmt::Debug>(
    crc: C,
    seeds: std::ops::Range<u64>,
    len: usize,
    name: &str,
) {
    let mut b = Bufs::new();
    let mut st = Stats::default();
    for seed in seeds.clone() {
        let mut r = Rng(0x9E37_79B9_7F4A_7C15 ^ (seed.wrapping_mul(0xD134_2543_DE82_EF95) | 1));
        let mut s = Sys::new(crc.clone());
        let mut prev = A6;
        let mut log: VecDeque<String> = VecDeque::new();
        for step in 0..len {
            let what;
            let res = match r.below(100) {
                0..=2 => { what = "reset".to_string(); s.reset(&mut st); Ok(()) }
                3 => { what = "disable".to_string(); s.disable(&mut st); Ok(()) }
                4 => { what = "enable".to_string(); s.enable(&mut st); Ok(()) }
                5..=7 => {
                    let n = match r.below(10) {
                        0..=5 => r.below(6) as u8,
                        6 => r.pick(&[253u8, 254, 255]),
                        _ => r.next() as u8,
                    };
                    what = format!("enable_max({n})");
                    s.enable_max(n, &mut st);
                    Ok(())
                }
                _ => {
                    let c = rand_call(&mut r, prev);
                    if is36(c.label) && c.label != ZERO6 {
                        prev = c.label;
                    }
                    what = format!("{:?}", c);
                    match s.call(&c, &mut b, &mut st) {
                        Err(e) => Err(e),
                        Ok(Some((_, Some(ctx)))) if r.below(3) == 0 => {
                            let chunk = r.pick(&[4usize, 8, 100, 4097, 5000]);
                            s.finish_frag(c.pdu_len, ctx, chunk, &mut b, &mut st)
                        }
                        Ok(_) => Ok(()),
                    }
                }
            };
            log.push_back(what);
            if log.len() > 12 {
                log.pop_front();
            }
            if let Err(e) = res {
                panic!("{name}: seed {seed} step {step}: VIOLATION {e}\n last ops: {log:#?}\n monitor {:?}", s.mon);
            }
        }
    }
    println!("[{name}] seeds {:?} x {} ops, stats {:?}", seeds, len, st);
    assert!(st.wire_subst > 0 && st.full_forced_by_max > 0 && st.err_pdu > 0 && st.ok_first > 0);
}

#[test]
fn random_long_nullcrc() {
    let (seeds, len) = if cfg!(debug_assertions) { (0..60, 20_000) } else { (0..400, 30_000) };
    random_run(NullCrc, seeds, len, "random_nullcrc");
}

#[test]
fn random_long_defaultcrc() {
    let (seeds, len) = if cfg!(debug_assertions) { (1000..1010, 5_000) } else { (1000..1060, 20_000) };
    random_run(DefaultCrc {}, seeds, len, "random_defaultcrc");
}

// random runs of identical labels long enough to wrap a u8 several times, N drawn near the corners
#[test]
fn random_long_runs_near_255() {
    let calls = call_table();
    let mut b = Bufs::new();
    let mut st = Stats::default();
    let mut r = Rng(0xC15_C15_C15);
    let rounds = if cfg!(debug_assertions) { 60 } else { 400 };
    for round in 0..rounds {
        let mut s = Sys::new(NullCrc);
        for _ in 0..6 {
            let n = r.pick(&[0u8, 1, 2, 127, 128, 200, 253, 254, 255]);
            match r.below(4) {
                0 => s.enable(&mut st),
                _ => s.enable_max(n, &mut st),
            }
            let li = r.below(4) as u8;
            let run = 200 + r.below(900);
            for i in 0..run {
                let k = r.below(N_EMIT_KINDS as usize) as u8;
                s.call(&calls[&(0, li, k)].0, &mut b, &mut st)
                    .unwrap_or_else(|e| panic!("round {round} i {i}: {e}"));
                if r.below(50) == 0 {
                    let fk = r.below(N_FAIL_KINDS as usize) as u8;
                    let fl = r.below(6) as u8;
                    s.call(&calls[&(1, fl, fk)].0, &mut b, &mut st)
                        .unwrap_or_else(|e| panic!("round {round} i {i}: {e}"));
                }
            }
        }
    }
    println!("[random_long_runs] rounds {rounds}, stats {:?}", st);
    assert!(st.longest_run == 255);
}

// ------------------------------------------------------------------------------------------------
// sender -> BBFrame -> receiver, with padding; the receiver must deliver each PDU with the requested
// label (sanity check of the monitor's notion of "designated label"; the receiver is not part of C15)
// ------------------------------------------------------------------------------------------------
#[derive(Clone, Copy)]
struct Mgr;
impl MandatoryHeaderExtensionManager for Mgr {
    fn is_mandatory_header_id_known(&self, id: u16) -> MandatoryHeaderExt {
        match id {
            0x0081 => MandatoryHeaderExt::Final(1),
            0x0042 => MandatoryHeaderExt::NonFinal(3),
            _ => MandatoryHeaderExt::Unknown,
        }
    }
}

#[test]
fn frames_with_padding_receiver_sees_requested_labels() {
    let seeds = if cfg!(debug_assertions) { 20 } else { 150 };
    let mut st = Stats::default();
    let mut delivered = 0u64;
    let mut frames = 0u64;
    let mut padded = 0u64;
    for seed in 0..seeds {
        let mut r = Rng(0xABCD_EF01_2345_6789 ^ (seed * 0x1_0001 + 77));
        let mut b = Bufs::new();
        let mut s = Sys::new(DefaultCrc {});
        let n = r.pick(&[0u8, 0, 1, 2, 3, 10, 255]);
        match r.below(5) {
            0 => s.disable(&mut st),
            1 => s.enable(&mut st),
            _ => s.enable_max(n, &mut st),
        }
        let mut mem = SimpleGseMemory::new(4, 70_000, 0, 0);
        for _ in 0..5 {
            mem.provision_storage(vec![0u8; 70_000].into_boxed_slice()).unwrap();
        }
        let mut dec = Decapsulator::new(mem, DefaultCrc {}, Mgr);

        // pending PDUs: (label, len, ptype) expected in order of completion; one fragmented PDU at a time
        let mut expect: VecDeque<(Label, usize)> = VecDeque::new();
        let mut pending: Option<(usize, ContextFrag)> = None;
        let mut prev = A6;
        for _frame in 0..200 {
            frames += 1;
            let frame_len = r.pick(&[60usize, 200, 1000, 4200, 9000]);
            let mut frame = vec![0u8; frame_len];
            let mut off = 0;
            s.reset(&mut st);
            dec.reset_last_label();
            loop {
                let room = frame_len - off;
                if room < 16 || r.below(12) == 0 {
                    padded += (room > 0) as u64;
                    break; // rest of the frame is zero padding
                }
                if let Some((pl, ctx)) = pending {
                    match s.enc.encap_frag(&b.pdu[..pl], &ctx, &mut frame[off..]) {
                        Ok(EncapStatus::CompletedPkt(l)) => {
                            off += l as usize;
                            pending = None;
                        }
                        Ok(EncapStatus::FragmentedPkt(l, c2)) => {
                            off += l as usize;
                            pending = Some((pl, c2));
                        }
                        Err(_) => break,
                    }
                    continue;
                }
                // new PDU (no explicit re-use, no broadcast restrictions)
                let label = if r.below(100) < 65 { prev } else { r.pick(&[A6, B6, A3, Z3, BC]) };
                if is36(label) {
                    prev = label;
                }
                let pdu_len = match r.below(10) {
                    0 => r.below(3),
                    1..=6 => 1 + r.below(120),
                    7 => 4000 + r.below(200),
                    _ => r.below(3000),
                };
                let (exts, ptype) = match r.below(6) {
                    0 => (Some(vec![ext(0x0201, &[1, 2])]), 0x0800),
                    1 => (Some(vec![ext(0x0042, &[1, 2, 3]), ext(0x0100, &[])]), 0x86DD),
                    2 => (Some(vec![ext(0x0500, &[0; 8]), ext(0x0081, &[5])]), 0x0081),
                    _ => (None, 0x0800),
                };
                let call = Call { label, ptype, pdu_len, buf_len: room, frag_id: 0, exts };
                // encap into the shared out buffer, then copy into the frame
                match s.call(&call, &mut b, &mut st) {
                    Err(e) => panic!("frames seed {seed}: VIOLATION {e}"),
                    Ok(None) => break,
                    Ok(Some((len, ctx))) => {
                        frame[off..off + len].copy_from_slice(&b.out[..len]);
                        off += len;
                        expect.push_back((label, pdu_len));
                        if let Some(c) = ctx {
                            pending = Some((pdu_len, c));
                        }
                    }
                }
            }
            // receiver walks the frame
            let mut pos = 0;
            while pos + 2 <= frame_len {
                // (a single trailing byte cannot hold a GSE header: it is padding)
                match dec.decap(&frame[pos..]) {
                    Ok((DecapStatus::Padding, _)) => break,
                    Ok((DecapStatus::CompletedPkt(pdu, md), l)) => {
                        let (el, elen) = expect.pop_front().expect("unexpected PDU");
                        assert_eq!(md.label(), el, "seed {seed}: delivered label differs from the requested one");
                        assert_eq!(md.pdu_len(), elen);
                        assert_eq!(&pdu[..elen], &b.pdu[..elen]);
                        delivered += 1;
                        dec.provision_storage(pdu).unwrap();
                        pos += l;
                    }
                    Ok((_, l)) => pos += l,
                    Err((e, _)) => panic!("seed {seed}: receiver rejected a packet: {e:?} at {pos} of frame {frame_len}"),
                }
            }
        }
    }
    println!("[frames] seeds {seeds}, frames {frames} (padded {padded}), PDUs delivered {delivered}, stats {:?}", st);
    assert!(delivered > 1000 && st.wire_subst > 0);
}
