// Harness for property C16: "the receiver recovers after any history".
//
// Public API only.  Run as an integration test:
//   cp out/harness_C16.rs tests/harness_C16.rs
//   CARGO_NET_OFFLINE=true cargo test --offline --test harness_C16 -- --nocapture
//   CARGO_NET_OFFLINE=true cargo test --offline --release --test harness_C16 -- --nocapture
// C16_CASES=<n> (default 3000 per manager) and C16_SEED=<first seed> select the random campaign.
//
// Shape of one case:
//   1. a receiver (1..=256 slots, various max_pdu_size) is driven through a random HISTORY of
//      decap calls on arbitrary buffers (random bytes, structured random packets, valid packets,
//      mutated valid packets, wrong crc / lengths / unknown or aliasing frag ids, re-use labels
//      without context, unfinished trains on every slot, frame walking with padding, restarts,
//      free list empty / exactly full ...)
//   2. RECOVERY: the label memory is reset, ONE storage buffer is offered (Ok, or "free list
//      full"), and a fresh valid transfer (complete packet with explicit label, fragmented PDU
//      on any frag id with any label kind) must be delivered exactly.
// The valid traffic is produced by an independent packet builder (own CRC) and, as a second
// source, by the crate's Encapsulator.
//
// Secondary checks during the history: no panic, returned lengths are sane, buffers are
// conserved (none lost, none duplicated).

use std::collections::{BTreeMap, HashMap};
use std::panic::{catch_unwind, AssertUnwindSafe};

use dvb_gse_rust::crc::DefaultCrc;
use dvb_gse_rust::gse_decap::{
    DecapError, DecapMemoryError, DecapMetadata, DecapStatus, Decapsulator, GseDecapMemory,
    SimpleGseMemory,
};
use dvb_gse_rust::gse_encap::{EncapMetadata, EncapStatus, Encapsulator};
use dvb_gse_rust::header_extension::{
    Extension, MandatoryHeaderExt, MandatoryHeaderExtensionManager,
    SignalisationMandatoryExtensionHeaderManager, SimpleMandatoryExtensionHeaderManager,
};
use dvb_gse_rust::label::Label;

// ---------------------------------------------------------------------------------------------
// rng
// ---------------------------------------------------------------------------------------------
struct Rng(u64);
impl Rng {
    fn new(seed: u64) -> Self {
        let mut r = Rng(seed.wrapping_mul(0x9E37_79B9_7F4A_7C15) ^ 0xD1B5_4A32_D192_ED03);
        for _ in 0..4 {
            r.next();
        }
        r
    }
    fn next(&mut self) -> u64 {
        // splitmix64
        self.0 = self.0.wrapping_add(0x9E37_79B9_7F4A_7C15);
        let mut z = self.0;
        z = (z ^ (z >> 30)).wrapping_mul(0xBF58_476D_1CE4_E5B9);
        z = (z ^ (z >> 27)).wrapping_mul(0x94D0_49BB_1331_11EB);
        z ^ (z >> 31)
    }
    fn below(&mut self, n: usize) -> usize {
        if n == 0 {
            0
        } else {
            (self.next() % n as u64) as usize
        }
    }
    fn range(&mut self, lo: usize, hi_incl: usize) -> usize {
        lo + self.below(hi_incl - lo + 1)
    }
    fn chance(&mut self, num: usize, den: usize) -> bool {
        self.below(den) < num
    }
    fn bytes(&mut self, n: usize) -> Vec<u8> {
        let mut v = Vec::with_capacity(n);
        while v.len() < n {
            let x = self.next().to_le_bytes();
            let k = (n - v.len()).min(8);
            v.extend_from_slice(&x[..k]);
        }
        v
    }
    fn pick<T: Copy>(&mut self, xs: &[T]) -> T {
        xs[self.below(xs.len())]
    }
}

// ---------------------------------------------------------------------------------------------
// own crc (bitwise CRC-32/MPEG-2, no table) -- independent from the crate
// ---------------------------------------------------------------------------------------------
fn crc_feed(mut crc: u32, data: &[u8]) -> u32 {
    for &b in data {
        crc ^= (b as u32) << 24;
        for _ in 0..8 {
            crc = if crc & 0x8000_0000 != 0 {
                (crc << 1) ^ 0x04C1_1DB7
            } else {
                crc << 1
            };
        }
    }
    crc
}
fn own_crc(total_len: u16, ptype: u16, label: &[u8], pdu: &[u8]) -> u32 {
    let mut c = 0xFFFF_FFFFu32;
    c = crc_feed(c, &total_len.to_be_bytes());
    c = crc_feed(c, &ptype.to_be_bytes());
    c = crc_feed(c, label);
    crc_feed(c, pdu)
}

// ---------------------------------------------------------------------------------------------
// extension managers
// ---------------------------------------------------------------------------------------------
trait Known: MandatoryHeaderExtensionManager + Clone {
    /// Some((is_final, data_size)) for a known mandatory id
    fn known(id: u16) -> Option<(bool, u8)>;
    fn finals() -> Vec<u16>;
    fn non_finals() -> Vec<u16>;
    fn name() -> &'static str;
}
impl Known for SimpleMandatoryExtensionHeaderManager {
    fn known(_: u16) -> Option<(bool, u8)> {
        None
    }
    fn finals() -> Vec<u16> {
        vec![]
    }
    fn non_finals() -> Vec<u16> {
        vec![]
    }
    fn name() -> &'static str {
        "simple"
    }
}
impl Known for SignalisationMandatoryExtensionHeaderManager {
    fn known(id: u16) -> Option<(bool, u8)> {
        match id {
            0x81 | 0x82 => Some((true, 0)),
            _ => None,
        }
    }
    fn finals() -> Vec<u16> {
        vec![0x81, 0x82]
    }
    fn non_finals() -> Vec<u16> {
        vec![]
    }
    fn name() -> &'static str {
        "signalisation"
    }
}
/// ids 0x00..=0x08: non final, id bytes of data; 0x10..=0x18: final, id-0x10 bytes of data;
/// 0xFD non final 255 bytes; 0xFE final 255 bytes
#[derive(Clone)]
struct CustomMgr;
impl MandatoryHeaderExtensionManager for CustomMgr {
    fn is_mandatory_header_id_known(&self, id: u16) -> MandatoryHeaderExt {
        match Self::known(id) {
            Some((true, n)) => MandatoryHeaderExt::Final(n),
            Some((false, n)) => MandatoryHeaderExt::NonFinal(n),
            None => MandatoryHeaderExt::Unknown,
        }
    }
}
impl Known for CustomMgr {
    fn known(id: u16) -> Option<(bool, u8)> {
        match id {
            0x00..=0x08 => Some((false, id as u8)),
            0x10..=0x18 => Some((true, (id - 0x10) as u8)),
            0xFD => Some((false, 255)),
            0xFE => Some((true, 255)),
            _ => None,
        }
    }
    fn finals() -> Vec<u16> {
        let mut v: Vec<u16> = (0x10..=0x18).collect();
        v.push(0xFE);
        v
    }
    fn non_finals() -> Vec<u16> {
        let mut v: Vec<u16> = (0x00..=0x08).collect();
        v.push(0xFD);
        v
    }
    fn name() -> &'static str {
        "custom"
    }
}

// ---------------------------------------------------------------------------------------------
// independent packet builder
// ---------------------------------------------------------------------------------------------
fn lt_bits(l: &Label) -> u8 {
    match l {
        Label::SixBytesLabel(_) => 0,
        Label::ThreeBytesLabel(_) => 1,
        Label::Broadcast => 2,
        Label::ReUse => 3,
    }
}
fn label_bytes(l: &Label) -> Vec<u8> {
    match l {
        Label::SixBytesLabel(b) => b.to_vec(),
        Label::ThreeBytesLabel(b) => b.to_vec(),
        _ => vec![],
    }
}
fn hdr(s: bool, e: bool, lt: u8, gse_len: usize) -> [u8; 2] {
    assert!(gse_len <= 0xFFF);
    let v: u16 = ((s as u16) << 15) | ((e as u16) << 14) | ((lt as u16 & 3) << 12) | gse_len as u16;
    v.to_be_bytes()
}

#[derive(Clone, Debug)]
struct Xfer {
    wire_label: Label,
    exp_label: Label,
    ptype: u16, // protocol type expected in the metadata (= final mandatory id when final_ext)
    chain: Vec<(u16, Vec<u8>)>,
    final_ext: bool,
    pdu: Vec<u8>,
    frag_id: u8,
}
impl Xfer {
    /// (value of the protocol type field, bytes between the label and the pdu)
    fn chain_wire(&self) -> (u16, Vec<u8>) {
        if self.chain.is_empty() {
            return (self.ptype, vec![]);
        }
        let mut v = vec![];
        for (i, (id, data)) in self.chain.iter().enumerate() {
            if i > 0 {
                v.extend_from_slice(&id.to_be_bytes());
            }
            v.extend_from_slice(data);
        }
        if !self.final_ext {
            v.extend_from_slice(&self.ptype.to_be_bytes());
        }
        (self.chain[0].0, v)
    }
    fn exp_ext(&self) -> Vec<Extension> {
        self.chain
            .iter()
            .map(|(id, d)| Extension::new(*id, d).unwrap())
            .collect()
    }
    fn total_len(&self) -> usize {
        self.pdu.len() + 2 + label_bytes(&self.wire_label).len()
    }
    fn crc(&self) -> u32 {
        own_crc(
            self.total_len() as u16,
            self.ptype,
            &label_bytes(&self.wire_label),
            &self.pdu,
        )
    }
    fn complete_overhead(&self) -> usize {
        2 + label_bytes(&self.wire_label).len() + self.chain_wire().1.len()
    }
    fn first_overhead(&self) -> usize {
        3 + self.complete_overhead()
    }
    fn build_complete(&self) -> Vec<u8> {
        let (field, after) = self.chain_wire();
        let lb = label_bytes(&self.wire_label);
        let gse_len = 2 + lb.len() + after.len() + self.pdu.len();
        let mut v = hdr(true, true, lt_bits(&self.wire_label), gse_len).to_vec();
        v.extend_from_slice(&field.to_be_bytes());
        v.extend_from_slice(&lb);
        v.extend_from_slice(&after);
        v.extend_from_slice(&self.pdu);
        v
    }
    fn build_first(&self, n: usize) -> Vec<u8> {
        let (field, after) = self.chain_wire();
        let lb = label_bytes(&self.wire_label);
        let gse_len = 1 + 2 + 2 + lb.len() + after.len() + n;
        let mut v = hdr(true, false, lt_bits(&self.wire_label), gse_len).to_vec();
        v.push(self.frag_id);
        v.extend_from_slice(&(self.total_len() as u16).to_be_bytes());
        v.extend_from_slice(&field.to_be_bytes());
        v.extend_from_slice(&lb);
        v.extend_from_slice(&after);
        v.extend_from_slice(&self.pdu[..n]);
        v
    }
    fn build_inter(&self, from: usize, n: usize) -> Vec<u8> {
        let mut v = hdr(false, false, 3, 1 + n).to_vec();
        v.push(self.frag_id);
        v.extend_from_slice(&self.pdu[from..from + n]);
        v
    }
    fn build_end(&self, from: usize, crc: u32) -> Vec<u8> {
        let n = self.pdu.len() - from;
        let mut v = hdr(false, true, 3, 1 + n + 4).to_vec();
        v.push(self.frag_id);
        v.extend_from_slice(&self.pdu[from..]);
        v.extend_from_slice(&crc.to_be_bytes());
        v
    }
    /// random valid fragmentation (own builder)
    fn fragment(&self, rng: &mut Rng) -> Vec<Vec<u8>> {
        let mut pkts = vec![];
        let first_max = 4095 - (self.first_overhead());
        let total = self.pdu.len();
        let cap = first_max.min(total);
        let a = match rng.below(6) {
            0 => 0,
            1 => cap.min(1),
            2 | 3 => cap,
            _ => rng.range(0, cap),
        };
        pkts.push(self.build_first(a));
        let mut off = a;
        let mut count = 0;
        loop {
            let rem = total - off;
            let must = rem > 4090;
            if !must && (count > 0 || rng.chance(1, 2)) && !rng.chance(1, 3) {
                break;
            }
            if rem == 0 {
                break;
            }
            let cap = rem.min(4094);
            let n = if count > 24 || must && rng.chance(2, 3) {
                cap
            } else {
                match rng.below(5) {
                    0 => 1,
                    1 => cap,
                    2 => cap.min(2),
                    _ => rng.range(1, cap),
                }
            };
            pkts.push(self.build_inter(off, n));
            off += n;
            count += 1;
        }
        pkts.push(self.build_end(off, self.crc()));
        pkts
    }
}

// ---------------------------------------------------------------------------------------------
// counters
// ---------------------------------------------------------------------------------------------
#[derive(Default)]
struct Stats {
    c: BTreeMap<String, u64>,
}
impl Stats {
    fn hit(&mut self, k: &str) {
        *self.c.entry(k.to_string()).or_insert(0) += 1;
    }
    fn add(&mut self, k: &str, n: u64) {
        *self.c.entry(k.to_string()).or_insert(0) += n;
    }
    fn merge(&mut self, o: Stats) {
        for (k, v) in o.c {
            *self.c.entry(k).or_insert(0) += v;
        }
    }
}

fn err_name(e: &DecapError) -> String {
    match e {
        DecapError::ErrorMemory(m) => format!(
            "ErrorMemory::{}",
            match m {
                DecapMemoryError::StorageOverflow(_) => "StorageOverflow",
                DecapMemoryError::StorageUnderflow => "StorageUnderflow",
                DecapMemoryError::UndefinedId => "UndefinedId",
                DecapMemoryError::BufferTooSmall(_) => "BufferTooSmall",
                DecapMemoryError::MemoryCorrupted => "MemoryCorrupted",
            }
        ),
        other => format!("{:?}", other),
    }
}

// ---------------------------------------------------------------------------------------------
// receiver under test + book keeping
// ---------------------------------------------------------------------------------------------
struct Rx<M: Known> {
    d: Option<Decapsulator<SimpleGseMemory, DefaultCrc, M>>,
    mgr: M,
    slots: usize,
    max_pdu: usize,
    // buffer accounting
    inside: i64, // buffers that must be inside the memory (free list + slots)
    stats: Stats,
    decap_calls: u64,
}

impl<M: Known> Rx<M> {
    fn new(slots: usize, max_pdu: usize, mgr: M) -> Self {
        let mem = SimpleGseMemory::new(slots, max_pdu, 0, 0);
        Rx {
            d: Some(Decapsulator::new(mem, DefaultCrc {}, mgr.clone())),
            mgr,
            slots,
            max_pdu,
            inside: 0,
            stats: Stats::default(),
            decap_calls: 0,
        }
    }
    fn dec(&mut self) -> &mut Decapsulator<SimpleGseMemory, DefaultCrc, M> {
        self.d.as_mut().unwrap()
    }
    /// restart: a new decapsulator around the same memory
    fn restart(&mut self) {
        let d = self.d.take().unwrap();
        let mem = d.memory;
        self.d = Some(Decapsulator::new(mem, DefaultCrc {}, self.mgr.clone()));
    }
    /// offer one storage. Ok(true) accepted, Ok(false) free list full
    fn provision(&mut self, size: usize) -> Result<bool, String> {
        match self.dec().provision_storage(vec![0xA5u8; size].into_boxed_slice()) {
            Ok(()) => {
                self.inside += 1;
                Ok(true)
            }
            Err(DecapMemoryError::StorageOverflow(b)) => {
                if b.len() != size {
                    return Err("overflow returned another buffer".into());
                }
                Ok(false)
            }
            Err(DecapMemoryError::BufferTooSmall(b)) => {
                if size >= self.max_pdu {
                    return Err(format!(
                        "BufferTooSmall for size {} >= max_pdu {}",
                        size, self.max_pdu
                    ));
                }
                if b.len() != size {
                    return Err("toosmall returned another buffer".into());
                }
                Err("TOO_SMALL".into())
            }
            Err(e) => Err(format!("unexpected provisioning error {:?}", e)),
        }
    }
    /// one decap call with sanity checks and buffer accounting
    fn decap(&mut self, buf: &[u8]) -> Result<Result<(DecapStatus, usize), (DecapError, usize)>, String> {
        self.decap_calls += 1;
        let r = self.dec().decap(buf);
        match &r {
            Ok((st, n)) => {
                if *n > buf.len() || *n < 2 {
                    return Err(format!("Ok length {} for buffer of {}", n, buf.len()));
                }
                match st {
                    DecapStatus::Padding => {
                        self.stats.hit("res.Padding");
                        if *n != buf.len() {
                            return Err("padding does not consume the buffer".into());
                        }
                    }
                    DecapStatus::FragmentedPkt(_) => {
                        self.stats.hit("res.FragmentedPkt");
                        let gl = (u16::from_be_bytes([buf[0], buf[1]]) & 0xFFF) as usize;
                        if *n != gl + 2 {
                            return Err("fragment length != gse_len+2".into());
                        }
                    }
                    DecapStatus::CompletedPkt(b, md) => {
                        self.stats.hit("res.CompletedPkt");
                        self.inside -= 1;
                        let gl = (u16::from_be_bytes([buf[0], buf[1]]) & 0xFFF) as usize;
                        if *n != gl + 2 {
                            return Err("completed length != gse_len+2".into());
                        }
                        if md.pdu_len() > b.len() {
                            return Err("pdu_len > delivered buffer".into());
                        }
                    }
                }
            }
            Err((e, n)) => {
                self.stats.hit(&format!("err.{}", err_name(e)));
                if *n > buf.len() || (*n == 0 && !buf.is_empty()) {
                    return Err(format!("Err length {} for buffer of {}", n, buf.len()));
                }
                if let DecapError::ErrorMemory(DecapMemoryError::StorageOverflow(_))
                | DecapError::ErrorMemory(DecapMemoryError::BufferTooSmall(_)) = e
                {
                    // a buffer handed back to the caller
                    self.inside -= 1;
                }
            }
        }
        Ok(r)
    }
    /// count what is really inside the memory (destroys the content)
    fn drain_count(&mut self) -> i64 {
        let mut n = 0;
        while self.dec().new_pdu().is_ok() {
            n += 1;
        }
        for id in 0..=255u8 {
            while self.dec().memory.take_frag(id).is_ok() {
                n += 1;
            }
        }
        n
    }
}

// ---------------------------------------------------------------------------------------------
// generators
// ---------------------------------------------------------------------------------------------
fn gen_explicit_label(rng: &mut Rng) -> Label {
    match rng.below(8) {
        0 => Label::ThreeBytesLabel([0, 0, 0]),
        1 => Label::ThreeBytesLabel([0xFF, 0xFF, 0xFF]),
        2 => Label::SixBytesLabel([0, 0, 0, 0, 0, 1]),
        3 => Label::SixBytesLabel([0xFF; 6]),
        4 | 5 => {
            let b = rng.bytes(3);
            Label::ThreeBytesLabel([b[0], b[1], b[2]])
        }
        _ => {
            let mut b = rng.bytes(6);
            if b.iter().all(|x| *x == 0) {
                b[5] = 1;
            }
            Label::SixBytesLabel([b[0], b[1], b[2], b[3], b[4], b[5]])
        }
    }
}

fn gen_ptype(rng: &mut Rng) -> u16 {
    match rng.below(8) {
        0 => 0x0600,
        1 => 0x0601,
        2 => 0xFFFF,
        3 => 0x0800,
        4 => 0x86DD,
        _ => rng.range(0x600, 0xFFFF) as u16,
    }
}

/// valid extension chain for manager M. Returns (chain, final_ext, ptype)
fn gen_chain<M: Known>(rng: &mut Rng) -> (Vec<(u16, Vec<u8>)>, bool, u16) {
    let mut chain = vec![];
    let n = match rng.below(10) {
        0..=4 => 0,
        5 | 6 => 1,
        7 => 2,
        8 => 3,
        _ => rng.range(1, 6),
    };
    let nf = M::non_finals();
    let fi = M::finals();
    for _ in 0..n {
        if !nf.is_empty() && rng.chance(1, 3) {
            let id = rng.pick(&nf);
            let sz = M::known(id).unwrap().1 as usize;
            // do not stack several 255-byte extensions
            if sz == 255 && chain.iter().any(|(_, d): &(u16, Vec<u8>)| d.len() == 255) {
                continue;
            }
            chain.push((id, rng.bytes(sz)));
        } else {
            let h = rng.range(1, 5) as u16;
            let low = match rng.below(4) {
                0 => 0x00,
                1 => 0xFF,
                _ => rng.below(256) as u16,
            };
            let id = (h << 8) | low;
            chain.push((id, rng.bytes(((h - 1) * 2) as usize)));
        }
    }
    if !fi.is_empty() && rng.chance(1, 4) {
        let id = rng.pick(&fi);
        let sz = M::known(id).unwrap().1 as usize;
        chain.push((id, rng.bytes(sz)));
        return (chain, true, id);
    }
    (chain, false, gen_ptype(rng))
}

fn gen_pdu_len(rng: &mut Rng, max: usize) -> usize {
    let corners = [
        0usize, 1, 2, 3, 4, 5, 4080, 4085, 4086, 4087, 4088, 4089, 4090, 4091, 4092, 4093, 4094,
        4095, 4096, 4097, 4098, 8188, 65524, 65527, 65530, 65533,
    ];
    let v = match rng.below(10) {
        0..=2 => rng.pick(&corners),
        3 => max,
        4 => max.saturating_sub(1),
        5 | 6 => rng.below(64),
        7 => rng.below(1500),
        8 => rng.below(9000),
        _ => rng.below(max.saturating_add(1)),
    };
    v.min(max)
}

/// a (mostly) valid transfer, pdu length bounded by `max_pdu` and by the protocol
fn gen_xfer<M: Known>(rng: &mut Rng, max_pdu: usize, wire_label: Label, exp_label: Label, frag_id: u8, complete: bool) -> Xfer {
    let (chain, final_ext, ptype) = gen_chain::<M>(rng);
    let mut x = Xfer {
        wire_label,
        exp_label,
        ptype,
        chain,
        final_ext,
        pdu: vec![],
        frag_id,
    };
    let proto_max = if complete {
        4095 - x.complete_overhead()
    } else {
        65535 - 2 - label_bytes(&wire_label).len()
    };
    let n = gen_pdu_len(rng, max_pdu.min(proto_max));
    x.pdu = rng.bytes(n);
    x
}

fn gen_buf_len(rng: &mut Rng) -> usize {
    match rng.below(20) {
        0 => 0,
        1 => 1,
        2 => 2,
        3 => 3,
        4..=10 => rng.range(2, 40),
        11..=14 => rng.range(2, 400),
        15 | 16 => rng.range(4090, 4110),
        17 => rng.range(2, 9000),
        18 => rng.range(4093, 4097),
        _ => rng.range(65530, 70000),
    }
}

fn mutate(rng: &mut Rng, p: &mut Vec<u8>) {
    match rng.below(9) {
        0 => {
            // flip bits
            for _ in 0..rng.range(1, 3) {
                if !p.is_empty() {
                    let i = rng.below(p.len());
                    p[i] ^= 1 << rng.below(8);
                }
            }
        }
        1 => {
            // flip a bit in the first 12 bytes
            if !p.is_empty() {
                let i = rng.below(p.len().min(12));
                p[i] ^= 1 << rng.below(8);
            }
        }
        2 => {
            let n = rng.below(p.len() + 1);
            p.truncate(n);
        }
        3 => {
            let extra = rng.range(1, 40);
            let mut e = rng.bytes(extra);
            p.append(&mut e);
        }
        4 => {
            // change the gse length, keep the rest
            if p.len() >= 2 {
                let h = u16::from_be_bytes([p[0], p[1]]);
                let gl = (h & 0xFFF) as i32;
                let d = rng.pick(&[-5i32, -4, -3, -2, -1, 1, 2, 3, 4, 7]);
                let ngl = (gl + d).clamp(0, 4095) as u16;
                let nh = (h & 0xF000) | ngl;
                p[..2].copy_from_slice(&nh.to_be_bytes());
                if rng.chance(1, 2) {
                    p.resize((ngl as usize) + 2, 0x5A);
                }
            }
        }
        5 => {
            // change label type bits
            if !p.is_empty() {
                p[0] = (p[0] & 0xCF) | ((rng.below(4) as u8) << 4);
            }
        }
        6 => {
            // change S/E bits
            if !p.is_empty() {
                p[0] = (p[0] & 0x3F) | ((rng.below(4) as u8) << 6);
            }
        }
        7 => {
            // corrupt the tail (crc of an end packet)
            if !p.is_empty() {
                let l = p.len();
                p[l - 1] ^= 0x01 << rng.below(8);
            }
        }
        _ => {
            // byte 2 (frag id / protocol type msb)
            if p.len() > 2 {
                p[2] = rng.below(256) as u8;
            }
        }
    }
}

// ---------------------------------------------------------------------------------------------
// history
// ---------------------------------------------------------------------------------------------
struct Train {
    x: Xfer,
    sent: usize,
}

fn hist_frag_id(rng: &mut Rng, slots: usize) -> u8 {
    match rng.below(6) {
        0 => 0,
        1 => 255,
        2 => (slots % 256) as u8,           // aliases slot 0 when slots < 256
        3 => ((slots + 1) % 256) as u8,     // aliases slot 1
        4 => rng.below(slots.min(256)) as u8,
        _ => rng.below(256) as u8,
    }
}

fn any_label(rng: &mut Rng) -> Label {
    match rng.below(8) {
        0 => Label::Broadcast,
        1 | 2 => Label::ReUse,
        3 => Label::SixBytesLabel([0; 6]),
        _ => gen_explicit_label(rng),
    }
}

fn history_packet<M: Known>(rng: &mut Rng, rx: &Rx<M>, trains: &mut HashMap<u8, Train>) -> Vec<u8> {
    let big = if rng.chance(1, 12) { 70000 } else { 5000 };
    match rng.below(12) {
        0 | 1 => {
            let n = gen_buf_len(rng);
            let mut v = rng.bytes(n);
            if rng.chance(1, 3) {
                for b in v.iter_mut() {
                    if rng.chance(1, 2) {
                        *b = 0;
                    }
                }
            }
            v
        }
        2 | 3 => {
            // structured random
            let n = gen_buf_len(rng).max(2);
            let mut v = rng.bytes(n);
            let gl = match rng.below(4) {
                0 => rng.below(4096),
                1 => (n - 2).min(4095).saturating_sub(rng.below(3)),
                _ => (n - 2).min(4095),
            };
            let h = hdr(rng.chance(1, 2), rng.chance(1, 2), rng.below(4) as u8, gl);
            v[..2].copy_from_slice(&h);
            if n > 2 && rng.chance(2, 3) {
                v[2] = hist_frag_id(rng, rx.slots);
            }
            if n > 6 && rng.chance(1, 2) {
                // plausible protocol type / total length
                let t = rng.pick(&[0u16, 1, 0x00FF, 0x0100, 0x0101, 0x05FF, 0x0600, 0x0800, 0xFFFF, 0x0081, 0x0003, 0x0013, 0x00FD, 0x00FE, 0x0018, 0x0008, 0x0200, 0x0300, 0x0400, 0x0500]);
                let at = rng.pick(&[2usize, 3, 5]);
                v[at..at + 2].copy_from_slice(&t.to_be_bytes());
            }
            v
        }
        4 | 5 => {
            // complete packet, any label kind
            let l = any_label(rng);
            let mut x = gen_xfer::<M>(rng, big.min(4095), l, l, 0, true);
            if rng.chance(1, 6) {
                // protocol type in the extension range without chain / unknown mandatory
                x.chain.clear();
                x.final_ext = false;
                x.ptype = rng.pick(&[0u16, 0x0001, 0x0080, 0x0081, 0x00FF, 0x0100, 0x01FF, 0x0200, 0x05FF]);
            }
            let mut p = x.build_complete();
            if rng.chance(1, 3) {
                mutate(rng, &mut p);
            }
            p
        }
        6 | 7 => {
            // first fragment (starts a train)
            let l = any_label(rng);
            let id = hist_frag_id(rng, rx.slots);
            let mut x = gen_xfer::<M>(rng, big, l, l, id, false);
            if x.pdu.is_empty() && rng.chance(1, 2) {
                let n = rng.range(1, 50);
                x.pdu = rng.bytes(n);
            }
            let cap = (4095 - x.first_overhead()).min(x.pdu.len());
            let a = if rng.chance(1, 2) { cap } else { rng.range(0, cap) };
            let mut p = x.build_first(a);
            match rng.below(8) {
                0 => mutate(rng, &mut p),
                1 => {
                    // wrong total length
                    let t = rng.pick(&[0u16, 1, a as u16, (a + 1) as u16, 0xFFFF, (x.total_len() as u16).wrapping_add(1), (x.total_len() as u16).wrapping_sub(1)]);
                    p[3..5].copy_from_slice(&t.to_be_bytes());
                }
                _ => {}
            }
            trains.insert(id, Train { x, sent: a });
            p
        }
        8 | 9 => {
            // continuation (intermediate or end) of a known train, or of nothing
            let ids: Vec<u8> = trains.keys().copied().collect();
            if ids.is_empty() || rng.chance(1, 6) {
                let id = hist_frag_id(rng, rx.slots);
                let n = rng.range(0, 60);
                let body = rng.bytes(n);
                let end = rng.chance(1, 2);
                let mut v = hdr(false, end, rng.pick(&[3u8, 3, 1, 2, 0]), 1 + n).to_vec();
                v.push(id);
                v.extend_from_slice(&body);
                return v;
            }
            let id = ids[rng.below(ids.len())];
            let alias = rng.chance(1, 8);
            let t = trains.get_mut(&id).unwrap();
            let rem = t.x.pdu.len() - t.sent;
            let wire_id = if alias {
                (id as usize + rx.slots) as u8
            } else {
                id
            };
            let mut p;
            if rem <= 4090 && rng.chance(1, 2) {
                let crc = if rng.chance(1, 4) { t.x.crc() ^ 1 } else { t.x.crc() };
                p = t.x.build_end(t.sent, crc);
                p[2] = wire_id;
                if !alias {
                    trains.remove(&id);
                }
            } else if rem > 0 {
                let n = rng.range(1, rem.min(4094));
                p = t.x.build_inter(t.sent, n);
                p[2] = wire_id;
                if !alias {
                    t.sent += n;
                }
            } else {
                p = t.x.build_end(t.sent, t.x.crc());
                p[2] = wire_id;
                if !alias {
                    trains.remove(&id);
                }
            }
            if rng.chance(1, 6) {
                mutate(rng, &mut p);
            }
            p
        }
        10 => {
            // padding
            vec![0u8; rng.range(2, 50)]
        }
        _ => {
            // re-use label without context: complete or first
            let l = Label::ReUse;
            let id = hist_frag_id(rng, rx.slots);
            let want_complete = rng.chance(1, 2);
            let x = gen_xfer::<M>(rng, 3000, l, l, id, want_complete);
            if x.pdu.len() + x.complete_overhead() <= 4095 && rng.chance(1, 2) {
                x.build_complete()
            } else {
                let cap = (4095 - x.first_overhead()).min(x.pdu.len());
                x.build_first(cap)
            }
        }
    }
}

fn run_history<M: Known>(rng: &mut Rng, rx: &mut Rx<M>, nops: usize) -> Result<(), String> {
    let mut trains: HashMap<u8, Train> = HashMap::new();
    let mut kept: Vec<Box<[u8]>> = vec![];
    for _ in 0..nops {
        let op = rng.below(100);
        if op < 58 {
            // one decap call on one buffer
            let mut p = history_packet(rng, rx, &mut trains);
            if rng.chance(1, 10) {
                // the buffer is longer than the packet (also above 4097)
                let extra = rng.pick(&[1usize, 2, 7, 100, 4097, 5000]);
                let mut e = rng.bytes(extra);
                p.append(&mut e);
            }
            rx.stats.hit("hist.single_decap");
            if let Ok((DecapStatus::CompletedPkt(b, _), _)) = rx.decap(&p)? {
                if rng.chance(1, 2) {
                    kept.push(b);
                }
            }
        } else if op < 66 {
            // frame walking
            let mut frame = vec![];
            for _ in 0..rng.range(1, 8) {
                let mut p = history_packet(rng, rx, &mut trains);
                frame.append(&mut p);
                if frame.len() > 80000 {
                    break;
                }
            }
            if rng.chance(2, 3) {
                frame.extend(std::iter::repeat(0u8).take(rng.range(0, 30)));
            }
            rx.stats.hit("hist.frame_walk");
            if rng.chance(1, 2) {
                rx.dec().reset_last_label();
            }
            let mut off = 0;
            let mut guard = 0;
            while off < frame.len() {
                guard += 1;
                if guard > 100_000 {
                    return Err("frame walk does not terminate".into());
                }
                let n = match rx.decap(&frame[off..])? {
                    Ok((st, n)) => {
                        if let DecapStatus::CompletedPkt(b, _) = st {
                            if rng.chance(1, 2) {
                                kept.push(b);
                            }
                        }
                        n
                    }
                    Err((_, n)) => n,
                };
                if n == 0 {
                    return Err("zero progress".into());
                }
                off += n;
            }
        } else if op < 80 {
            // caller provisions a buffer
            let size = match rng.below(8) {
                0 => rx.max_pdu.saturating_sub(1),
                1 | 2 | 3 => rx.max_pdu,
                4 => rx.max_pdu + 1,
                5 => rx.max_pdu + rng.below(3000),
                6 => rx.max_pdu.max(65536),
                _ => rx.max_pdu + rng.below(64),
            };
            rx.stats.hit("hist.provision");
            if rng.chance(1, 3) && !kept.is_empty() {
                // give a delivered buffer back
                let b = kept.pop().unwrap();
                match rx.dec().provision_storage(b) {
                    Ok(()) => rx.inside += 1,
                    Err(DecapMemoryError::StorageOverflow(_)) => {}
                    Err(e) => return Err(format!("give back: {:?}", e)),
                }
            } else {
                match rx.provision(size) {
                    Ok(_) => {}
                    Err(e) if e == "TOO_SMALL" => {}
                    Err(e) => return Err(e),
                }
            }
        } else if op < 84 {
            // fill the free list exactly
            rx.stats.hit("hist.fill_free_list");
            let mut g = 0;
            while rx.provision(rx.max_pdu + rng.below(4))? {
                g += 1;
                if g > 600 {
                    return Err("free list never full".into());
                }
            }
        } else if op < 88 {
            // empty the free list
            rx.stats.hit("hist.drain_free_list");
            let all = rng.chance(1, 2);
            while let Ok(_b) = rx.dec().new_pdu() {
                rx.inside -= 1;
                if !all && rng.chance(1, 3) {
                    break;
                }
            }
        } else if op < 93 {
            // unfinished train on every slot (or on every frag id)
            rx.stats.hit("hist.fill_slots");
            let every_id = rng.chance(1, 4);
            let n = if every_id { 256 } else { rx.slots.min(256) };
            for id in 0..n {
                let _ = rx.provision(rx.max_pdu + rng.below(2));
                let l = any_label(rng);
                let mut x = gen_xfer::<M>(rng, 200, l, l, id as u8, false);
                if x.pdu.len() < 2 {
                    x.pdu = rng.bytes(10);
                }
                let a = rng.range(0, x.pdu.len() - 1);
                let p = x.build_first(a);
                let _ = rx.decap(&p)?;
                trains.insert(id as u8, Train { x, sent: a });
            }
        } else if op < 95 {
            rx.stats.hit("hist.reset_label");
            rx.dec().reset_last_label();
        } else if op < 97 {
            rx.stats.hit("hist.restart");
            rx.restart();
        } else if op < 99 {
            // overlong reassembly: more than 65535 bytes pushed on one frag id (needs a big storage)
            rx.stats.hit("hist.overlong_train");
            let _ = rx.provision(rx.max_pdu.max(rng.pick(&[65535usize, 65536, 70000, 80000])));
            let id = hist_frag_id(rng, rx.slots);
            let l = rng.pick(&[Label::Broadcast, Label::ThreeBytesLabel([0, 0, 0]), Label::SixBytesLabel([1; 6])]);
            let mut x = gen_xfer::<M>(rng, 0, l, l, id, false);
            x.pdu = rng.bytes(4000);
            let a = rng.pick(&[0usize, 1, 3999, 4000]).min(4095 - x.first_overhead());
            let mut p = x.build_first(a);
            let t = rng.pick(&[0xFFFFu16, 0xFFFE, 5000, 4002, 70000u32 as u16, 69630u32 as u16]);
            p[3..5].copy_from_slice(&t.to_be_bytes());
            let mut ok = matches!(rx.decap(&p)?, Ok(_));
            let mut pushed = 0usize;
            let filler = rng.bytes(4094);
            while ok && pushed < 20 {
                let n = rng.pick(&[4094usize, 4094, 4094, 4093, 1]);
                let mut q = hdr(false, false, 3, 1 + n).to_vec();
                q.push(id);
                q.extend_from_slice(&filler[..n]);
                ok = matches!(rx.decap(&q)?, Ok(_));
                pushed += 1;
            }
            if rng.chance(1, 2) {
                let n = rng.pick(&[0usize, 1, 4090]);
                let mut q = hdr(false, true, 3, 1 + n + 4).to_vec();
                q.push(id);
                q.extend_from_slice(&filler[..n]);
                q.extend_from_slice(&rng.bytes(4));
                let _ = rx.decap(&q)?;
            }
            trains.remove(&id);
        } else {
            // a complete valid exchange in the history (encapsulator driven)
            rx.stats.hit("hist.valid_exchange");
            let _ = rx.provision(rx.max_pdu.max(3000));
            let mut enc = Encapsulator::new(DefaultCrc {});
            let n = rng.range(0, 3000);
            let pdu = rng.bytes(n);
            let md = EncapMetadata::new(gen_ptype(rng), gen_explicit_label(rng));
            let mut out = vec![0u8; rng.range(20, 5000)];
            let id = hist_frag_id(rng, rx.slots);
            let mut st = enc.encap(&pdu, id, md, &mut out).unwrap();
            loop {
                match st {
                    EncapStatus::CompletedPkt(n) => {
                        let _ = rx.decap(&out[..n as usize])?;
                        break;
                    }
                    EncapStatus::FragmentedPkt(n, ctx) => {
                        let _ = rx.decap(&out[..n as usize])?;
                        if rng.chance(1, 10) {
                            break; // abandoned
                        }
                        let l = rng.range(8, 5000);
                        out = vec![0u8; l];
                        st = match enc.encap_frag(&pdu, &ctx, &mut out) {
                            Ok(s) => s,
                            Err(_) => break,
                        };
                    }
                }
            }
        }
    }
    Ok(())
}

// ---------------------------------------------------------------------------------------------
// recovery: the property
// ---------------------------------------------------------------------------------------------
#[derive(Clone, Copy, PartialEq, Debug)]
enum Feed {
    Exact,
    Trailing,
    Frame,
}

fn storage_size(rng: &mut Rng, max_pdu: usize, pdu: usize) -> usize {
    let base = max_pdu.max(pdu);
    match rng.below(10) {
        0..=4 => base,
        5 | 6 => base + 1,
        7 => base + rng.below(100),
        8 => base.max(65536),
        _ => base.max(70001),
    }
}

fn check_md(md: &DecapMetadata, x: &Xfer, pdu_len: usize) -> Result<(), String> {
    let exp = DecapMetadata::new(pdu_len, x.ptype, x.exp_label, x.exp_ext());
    if *md != exp {
        return Err(format!("metadata {:?} != expected {:?}", md, exp));
    }
    Ok(())
}

/// feed the packets of one fresh transfer, everything must be accepted and delivered
fn feed_fresh<M: Known>(rng: &mut Rng, rx: &mut Rx<M>, pkts: &[Vec<u8>], x: &Xfer, feed: Feed) -> Result<Box<[u8]>, String> {
    feed_fresh2(rng, rx, pkts, x, feed).map(|(b, _)| b)
}

/// second value: true when the end-of-frame padding went through decap (which resets the label memory)
fn feed_fresh2<M: Known>(rng: &mut Rng, rx: &mut Rx<M>, pkts: &[Vec<u8>], x: &Xfer, feed: Feed) -> Result<(Box<[u8]>, bool), String> {
    let mut results = vec![];
    let mut padded = false;
    match feed {
        Feed::Exact | Feed::Trailing => {
            for p in pkts {
                let r = if feed == Feed::Trailing {
                    let mut q = p.clone();
                    let extra = rng.pick(&[1usize, 2, 3, 10, 4097, 4200]);
                    q.extend(rng.bytes(extra));
                    rx.decap(&q)?
                } else {
                    rx.decap(p)?
                };
                results.push((r, p.len()));
            }
        }
        Feed::Frame => {
            let mut frame: Vec<u8> = pkts.iter().flatten().copied().collect();
            let pad = rng.range(0, 20);
            frame.extend(std::iter::repeat(0u8).take(pad));
            let mut off = 0;
            for p in pkts {
                let r = rx.decap(&frame[off..])?;
                let n = match &r {
                    Ok((_, n)) => *n,
                    Err((_, n)) => *n,
                };
                results.push((r, p.len()));
                off += n;
            }
            if off + pad != frame.len() {
                return Err("frame walk out of step".into());
            }
            if pad >= 2 {
                padded = true;
                match rx.decap(&frame[off..])? {
                    Ok((DecapStatus::Padding, n)) if n == pad => {}
                    other => return Err(format!("padding at the end of the frame: {:?}", other)),
                }
            }
        }
    }
    let last = results.len() - 1;
    let mut delivered = None;
    for (i, (r, plen)) in results.into_iter().enumerate() {
        match r {
            Err((e, n)) => {
                return Err(format!(
                    "packet {}/{} of the fresh transfer rejected: {} (len {})",
                    i, last, err_name(&e), n
                ))
            }
            Ok((st, n)) => {
                if n != plen {
                    return Err(format!("packet {} consumed {} instead of {}", i, n, plen));
                }
                match st {
                    DecapStatus::Padding => return Err(format!("packet {} taken for padding", i)),
                    DecapStatus::FragmentedPkt(md) => {
                        if i == last {
                            return Err("last packet did not complete the PDU".into());
                        }
                        check_md(&md, x, 0)?;
                    }
                    DecapStatus::CompletedPkt(b, md) => {
                        if i != last {
                            return Err(format!("completed too early at {}", i));
                        }
                        check_md(&md, x, x.pdu.len())?;
                        if b[..x.pdu.len()] != x.pdu[..] {
                            return Err("delivered bytes differ".into());
                        }
                        delivered = Some(b);
                    }
                }
            }
        }
    }
    delivered.map(|b| (b, padded)).ok_or_else(|| "nothing delivered".to_string())
}

/// packets of a transfer produced by the crate's encapsulator (second source)
fn encap_packets(rng: &mut Rng, enc: &mut Encapsulator<DefaultCrc>, x: &Xfer, md_label: Label, want_complete: bool) -> Result<Vec<Vec<u8>>, String> {
    let md = EncapMetadata::new(x.ptype, md_label);
    let exts = x.exp_ext();
    let mut pkts = vec![];
    let first_len = if want_complete {
        rng.pick(&[4097usize, 5000, x.pdu.len() + x.complete_overhead() + 2])
    } else {
        // force a fragmentation when possible
        let min = x.first_overhead() + 2;
        let max_no_complete = (x.pdu.len() + x.complete_overhead() + 2).saturating_sub(1);
        if x.pdu.len() + x.complete_overhead() > 4095 {
            {
                let r = rng.range(min, 4097);
                rng.pick(&[min, min + 1, 4097, 5000, r])
            }
        } else if max_no_complete >= min {
            rng.range(min, max_no_complete)
        } else {
            return Err("NOFRAG".into());
        }
    };
    let mut out = vec![0u8; first_len];
    let st = if exts.is_empty() {
        enc.encap(&x.pdu, x.frag_id, md, &mut out)
    } else {
        enc.encap_ext(&x.pdu, x.frag_id, md, &mut out, exts)
    };
    let mut st = st.map_err(|e| format!("encap failed {:?}", e))?;
    let mut count = 0;
    loop {
        match st {
            EncapStatus::CompletedPkt(n) => {
                pkts.push(out[..n as usize].to_vec());
                return Ok(pkts);
            }
            EncapStatus::FragmentedPkt(n, ctx) => {
                pkts.push(out[..n as usize].to_vec());
                count += 1;
                let l = if count > 24 {
                    5000
                } else {
                    rng.pick(&[4usize, 5, 8, 9, 10, 100, 1000, 4096, 4097, 4098, 5000, 70000])
                };
                out = vec![0u8; l];
                st = match enc.encap_frag(&x.pdu, &ctx, &mut out) {
                    Ok(s) => s,
                    Err(_) => {
                        // only the crc is left and the buffer can not hold the end packet
                        out = vec![0u8; 5000];
                        enc.encap_frag(&x.pdu, &ctx, &mut out)
                            .map_err(|e| format!("encap_frag failed {:?}", e))?
                    }
                };
            }
        }
    }
}

fn recover<M: Known>(rng: &mut Rng, rx: &mut Rx<M>) -> Result<(), String> {
    // how many fresh transfers are attempted in a row
    let rounds = rng.range(1, 4);
    for round in 0..rounds {
        // ---- the preconditions of the property
        if round == 0 || rng.chance(1, 2) {
            rx.dec().reset_last_label();
        }
        let feed = rng.pick(&[Feed::Exact, Feed::Exact, Feed::Trailing, Feed::Frame]);
        let use_encap = rng.chance(1, 3);
        let mut enc = Encapsulator::new(DefaultCrc {});
        let mut last_explicit: Option<Label> = None;
        let mut enc_last: Option<Label> = None; // what the encapsulator remembers

        // ---- A: complete packet with an explicit label
        if rng.chance(2, 3) {
            rx.dec().reset_last_label();
            let l = gen_explicit_label(rng);
            let x = gen_xfer::<M>(rng, rx.max_pdu, l, l, 0, true);
            let full = !rx.provision(storage_size(rng, rx.max_pdu, x.pdu.len()))?;
            rx.stats.hit(if full { "rec.provision_full" } else { "rec.provision_ok" });
            let own = vec![x.build_complete()];
            let pkts = if use_encap {
                let e = encap_packets(rng, &mut enc, &x, l, true)?;
                if e != own {
                    return Err(format!("encapsulator and own builder differ (complete) {:?}", x));
                }
                rx.stats.hit("rec.encap_source");
                enc_last = Some(l);
                e
            } else {
                own
            };
            let f = if feed == Feed::Frame { Feed::Exact } else { feed };
            let b = feed_fresh(rng, rx, &pkts, &x, f).map_err(|e| format!("COMPLETE: {} [{:?} pdu {}]", e, x.wire_label, x.pdu.len()))?;
            rx.stats.hit("rec.complete_delivered");
            rx.stats.hit(&format!("rec.complete.label.{}", lt_bits(&l)));
            if !x.chain.is_empty() {
                rx.stats.hit("rec.complete.with_ext");
            }
            size_stats(&mut rx.stats, "rec.complete", x.pdu.len());
            drop(b);
            last_explicit = Some(l);

            // optionally a re-use complete packet right behind
            if rng.chance(1, 5) {
                let x2 = gen_xfer::<M>(rng, rx.max_pdu, Label::ReUse, l, 0, true);
                let _ = rx.provision(storage_size(rng, rx.max_pdu, x2.pdu.len()))?;
                let own = vec![x2.build_complete()];
                let pkts = if use_encap {
                    let e = encap_packets(rng, &mut enc, &x2, l, true)?;
                    if e != own {
                        return Err("encapsulator and own builder differ (complete reuse)".into());
                    }
                    e
                } else {
                    own
                };
                feed_fresh(rng, rx, &pkts, &x2, f).map_err(|e| format!("COMPLETE-REUSE: {}", e))?;
                rx.stats.hit("rec.complete_reuse_delivered");
            }
        }

        // ---- B: fragmented PDU on any frag id, any label kind
        let n_frag = rng.pick(&[1usize, 1, 1, 2, 3]);
        for _ in 0..n_frag {
            let frag_id = match rng.below(5) {
                0 => 0u8,
                1 => 255,
                2 => (rx.slots % 256) as u8,
                _ => rng.below(256) as u8,
            };
            let (wire, exp) = match (rng.below(5), last_explicit) {
                (0, Some(l)) => (Label::ReUse, l),
                (0, None) | (1, _) => (Label::Broadcast, Label::Broadcast),
                _ => {
                    let l = gen_explicit_label(rng);
                    (l, l)
                }
            };
            let x = gen_xfer::<M>(rng, rx.max_pdu, wire, exp, frag_id, false);
            let full = !rx.provision(storage_size(rng, rx.max_pdu, x.pdu.len()))?;
            rx.stats.hit(if full { "rec.provision_full" } else { "rec.provision_ok" });
            let mut pkts = None;
            if use_encap {
                // the encapsulator decides itself when to use the re-use label
                let usable = match wire {
                    Label::ReUse => enc_last == Some(exp),
                    Label::Broadcast => true,
                    l => Some(l) != enc_last,
                };
                if usable {
                    match encap_packets(rng, &mut enc, &x, exp, false) {
                        Ok(p) => {
                            rx.stats.hit("rec.encap_source");
                            match exp {
                                Label::Broadcast => enc_last = None,
                                l => enc_last = Some(l),
                            }
                            pkts = Some(p)
                        }
                        Err(e) if e == "NOFRAG" => {}
                        Err(e) => return Err(e),
                    }
                }
            }
            let pkts = match pkts {
                Some(p) => {
                    // first fragment must be what the own builder would emit for that size
                    let hl = x.first_overhead() + 2;
                    if p[0].len() < hl || p[0] != x.build_first(p[0].len() - hl) {
                        return Err(format!("encapsulator first fragment differs from own builder {:?}", (x.wire_label, x.ptype, &x.chain)));
                    }
                    p
                }
                None => x.fragment(rng),
            };
            let (b, padded) = feed_fresh2(rng, rx, &pkts, &x, feed).map_err(|e| {
                format!(
                    "FRAGMENTED: {} [frag_id {} label {:?} pdu {} pkts {} slots {} max_pdu {} feed {:?}]",
                    e, frag_id, x.wire_label, x.pdu.len(), pkts.len(), rx.slots, rx.max_pdu, feed
                )
            })?;
            rx.stats.hit("rec.fragmented_delivered");
            rx.stats.hit(&format!("rec.frag.label.{}", lt_bits(&wire)));
            rx.stats.add("rec.frag.packets", pkts.len() as u64);
            if !x.chain.is_empty() {
                rx.stats.hit("rec.frag.with_ext");
            }
            if x.final_ext {
                rx.stats.hit("rec.frag.final_mandatory");
            }
            if b.len() == x.pdu.len() {
                rx.stats.hit("rec.frag.storage_eq_pdu");
            } else if b.len() > 65535 {
                rx.stats.hit("rec.frag.storage_gt_65535");
            } else {
                rx.stats.hit("rec.frag.storage_gt_pdu");
            }
            size_stats(&mut rx.stats, "rec.frag", x.pdu.len());
            // the encapsulator / receiver now remember this label
            match wire {
                Label::Broadcast => last_explicit = None,
                Label::ReUse => {}
                l => last_explicit = Some(l),
            }
            if padded {
                // end of frame: both ends forget the label
                last_explicit = None;
                enc.reset_last_label();
                enc_last = None;
            }
            if rng.chance(1, 3) {
                // caller gives the buffer back
                match rx.dec().provision_storage(b) {
                    Ok(()) => rx.inside += 1,
                    Err(DecapMemoryError::StorageOverflow(_)) => {}
                    Err(e) => return Err(format!("give back after delivery: {:?}", e)),
                }
            }
        }

        // ---- C: two interleaved fresh fragmented PDUs on two different slots
        if rx.slots >= 2 && rng.chance(1, 4) {
            let id_a = rng.below(256) as u8;
            let mut id_b = rng.below(256) as u8;
            while (id_b as usize % rx.slots) == (id_a as usize % rx.slots) {
                id_b = id_b.wrapping_add(1);
            }
            let la = gen_explicit_label(rng);
            let xa = gen_xfer::<M>(rng, rx.max_pdu.min(20000), la, la, id_a, false);
            let xb = gen_xfer::<M>(rng, rx.max_pdu.min(20000), Label::Broadcast, Label::Broadcast, id_b, false);
            let pa = xa.fragment(rng);
            let pb = xb.fragment(rng);
            rx.dec().reset_last_label();
            let (mut ia, mut ib) = (0, 0);
            let (mut da, mut db) = (false, false);
            while ia < pa.len() || ib < pb.len() {
                let take_a = ib >= pb.len() || (ia < pa.len() && rng.chance(1, 2));
                let (p, x, i, n, done) = if take_a {
                    (&pa[ia], &xa, &mut ia, pa.len(), &mut da)
                } else {
                    (&pb[ib], &xb, &mut ib, pb.len(), &mut db)
                };
                if *i == 0 {
                    let _ = rx.provision(storage_size(rng, rx.max_pdu, x.pdu.len()))?;
                }
                match rx.decap(p)? {
                    Ok((DecapStatus::FragmentedPkt(md), l)) if *i + 1 < n && l == p.len() => check_md(&md, x, 0)?,
                    Ok((DecapStatus::CompletedPkt(b, md), l)) if *i + 1 == n && l == p.len() => {
                        check_md(&md, x, x.pdu.len())?;
                        if b[..x.pdu.len()] != x.pdu[..] {
                            return Err("interleaved: bytes differ".into());
                        }
                        *done = true;
                    }
                    other => {
                        return Err(format!(
                            "INTERLEAVED: packet {}/{} of id {} -> {:?}",
                            *i, n, x.frag_id,
                            other.map(|(s, l)| (s.to_str(), l)).map_err(|(e, l)| (err_name(&e), l))
                        ))
                    }
                }
                *i += 1;
            }
            if !(da && db) {
                return Err("interleaved: not both delivered".into());
            }
            rx.stats.hit("rec.interleaved_pair_delivered");
        }

        // between rounds: a little more garbage, then recover again
        if round + 1 < rounds {
            let n = rng.range(0, 6);
            run_history(rng, rx, n)?;
        }
    }
    Ok(())
}

fn size_stats(s: &mut Stats, p: &str, n: usize) {
    let k = match n {
        0 => "0",
        1 => "1",
        2..=4079 => "2..4079",
        4080..=4098 => "4080..4098",
        4099..=65523 => "4099..65523",
        _ => "65524..65533",
    };
    s.hit(&format!("{}.pdu_len.{}", p, k));
}

// ---------------------------------------------------------------------------------------------
// one case
// ---------------------------------------------------------------------------------------------
fn run_case<M: Known>(seed: u64, mgr: M) -> Result<Stats, String> {
    let mut rng = Rng::new(seed);
    let slots = match rng.below(12) {
        0 | 1 => 1,
        2 => 2,
        3 => 3,
        4 => 4,
        5 => 7,
        6 => 16,
        7 => 255,
        8 => 256,
        9 => 300,
        _ => rng.range(1, 256),
    };
    let max_pdu = match rng.below(16) {
        0 => 0,
        1 => 1,
        2 => 64,
        3 | 4 => 1500,
        5 => 4093,
        6 => 4094,
        7 => 4095,
        8 => 4096,
        9 => 4097,
        10 => 9000,
        11 => 65533,
        12 => 65535,
        13 => 70000,
        14 => rng.range(0, 100),
        _ => rng.range(0, 12000),
    };
    let mut rx = Rx::new(slots, max_pdu, mgr);
    rx.stats.hit(&format!(
        "cfg.slots.{}",
        match slots {
            1 => "1",
            2..=8 => "2..8",
            9..=254 => "9..254",
            255 => "255",
            256 => "256",
            _ => ">256",
        }
    ));
    rx.stats.hit(&format!(
        "cfg.max_pdu.{}",
        match max_pdu {
            0 => "0",
            1..=4092 => "1..4092",
            4093..=4097 => "4093..4097",
            4098..=65532 => "4098..65532",
            65533..=65535 => "65533..65535",
            _ => ">65535",
        }
    ));
    // initial provisioning: nothing, some, or full
    match rng.below(4) {
        0 => {}
        1 => {
            let _ = rx.provision(max_pdu)?;
        }
        2 => {
            for _ in 0..rng.range(1, slots.min(20) + 2) {
                let _ = rx.provision(max_pdu + rng.below(3))?;
            }
        }
        _ => while rx.provision(max_pdu)? {},
    }
    let nops = match rng.below(6) {
        0 => 0,
        1 => rng.range(1, 3),
        2 | 3 => rng.range(3, 25),
        _ => rng.range(25, 70),
    };
    let heavy = max_pdu > 20000;
    let nops = if heavy { nops.min(30) } else { nops };
    run_history(&mut rng, &mut rx, nops)?;
    // a fixed worst case history tail, sometimes: trains on every slot and free list empty or full
    match rng.below(6) {
        0 => {
            for id in 0..slots.min(256) {
                let _ = rx.provision(max_pdu);
                let l = gen_explicit_label(&mut rng);
                let mut x = gen_xfer::<M>(&mut rng, 100, l, l, id as u8, false);
                x.pdu = rng.bytes(20);
                let p = x.build_first(5.min(max_pdu));
                let _ = rx.decap(&p)?;
            }
            while let Ok(_b) = rx.dec().new_pdu() {
                rx.inside -= 1;
            }
            rx.stats.hit("tail.all_slots_busy_free_list_empty");
        }
        1 => {
            for id in 0..slots.min(256) {
                let _ = rx.provision(max_pdu);
                let mut x = gen_xfer::<M>(&mut rng, 100, Label::Broadcast, Label::Broadcast, id as u8, false);
                x.pdu = rng.bytes(20);
                let p = x.build_first(5.min(max_pdu));
                let _ = rx.decap(&p)?;
            }
            while rx.provision(max_pdu)? {}
            rx.stats.hit("tail.all_slots_busy_free_list_full");
        }
        _ => {}
    }
    recover(&mut rng, &mut rx).map_err(|e| format!("{} (slots {} max_pdu {})", e, slots, max_pdu))?;

    // buffer conservation
    let expected = rx.inside;
    let real = rx.drain_count();
    if expected != real {
        return Err(format!(
            "buffer accounting: expected {} buffers inside the memory, found {}",
            expected, real
        ));
    }
    let mut st = std::mem::take(&mut rx.stats);
    st.add("decap_calls", rx.decap_calls);
    st.hit("cases");
    Ok(st)
}

fn campaign<M: Known>(mgr: M, first_seed: u64, n: u64) {
    let mut total = Stats::default();
    let mut failures = vec![];
    for seed in first_seed..first_seed + n {
        let m = mgr.clone();
        let r = catch_unwind(AssertUnwindSafe(|| run_case(seed, m)));
        match r {
            Ok(Ok(st)) => total.merge(st),
            Ok(Err(e)) => failures.push(format!("seed {}: {}", seed, e)),
            Err(p) => {
                let msg = p
                    .downcast_ref::<String>()
                    .cloned()
                    .or_else(|| p.downcast_ref::<&str>().map(|s| s.to_string()))
                    .unwrap_or_default();
                failures.push(format!("seed {}: PANIC {}", seed, msg))
            }
        }
    }
    println!("==== manager {} : {} cases, {} failures", M::name(), n, failures.len());
    for (k, v) in &total.c {
        println!("{:<48} {}", k, v);
    }
    for f in failures.iter().take(25) {
        println!("FAIL {}", f);
    }
    assert!(failures.is_empty(), "{} failing cases", failures.len());
}

fn ncases() -> u64 {
    std::env::var("C16_CASES")
        .ok()
        .and_then(|s| s.parse().ok())
        .unwrap_or(3000)
}
fn first_seed() -> u64 {
    std::env::var("C16_SEED")
        .ok()
        .and_then(|s| s.parse().ok())
        .unwrap_or(1)
}

#[test]
fn c16_random_simple_manager() {
    campaign(SimpleMandatoryExtensionHeaderManager {}, first_seed(), ncases());
}
#[test]
fn c16_random_signalisation_manager() {
    campaign(SignalisationMandatoryExtensionHeaderManager {}, first_seed() + 1_000_000, ncases());
}
#[test]
fn c16_random_custom_manager() {
    campaign(CustomMgr, first_seed() + 2_000_000, ncases());
}

// ---------------------------------------------------------------------------------------------
// deterministic sweeps
// ---------------------------------------------------------------------------------------------

/// every frag id x every slot count 1..=256: an unfinished train sits on EVERY slot (own id and
/// aliasing id), free list empty, then one buffer is offered and a fresh PDU must come through.
#[test]
fn c16_sweep_every_frag_id_every_slot_count() {
    let mut n = 0u64;
    for slots in 1..=256usize {
        let ids: Vec<u8> = if slots <= 4 || slots >= 255 {
            (0..=255u8).collect()
        } else {
            vec![0, 1, (slots - 1) as u8, slots as u8, (slots + 1) as u8, 128, 254, 255]
        };
        for &fid in &ids {
            for full in [false, true] {
                let mut rx = Rx::new(slots, 64, SimpleMandatoryExtensionHeaderManager {});
                // trains on every slot, using ids that alias `fid`'s slot differently
                for s in 0..slots {
                    let _ = rx.provision(64).unwrap();
                    let id = if s == fid as usize % slots && slots < 256 && (fid as usize + slots) < 256 {
                        (fid as usize + slots) as u8 // aliasing id on the target slot
                    } else {
                        s as u8
                    };
                    let x = Xfer {
                        wire_label: Label::ThreeBytesLabel([1, 2, 3]),
                        exp_label: Label::ThreeBytesLabel([1, 2, 3]),
                        ptype: 0x0800,
                        chain: vec![],
                        final_ext: false,
                        pdu: vec![7; 30],
                        frag_id: id,
                    };
                    let r = rx.decap(&x.build_first(10)).unwrap();
                    assert!(matches!(r, Ok((DecapStatus::FragmentedPkt(_), _))));
                }
                while rx.dec().new_pdu().is_ok() {
                    rx.inside -= 1;
                }
                if full {
                    while rx.provision(64).unwrap() {}
                }
                // recovery
                rx.dec().reset_last_label();
                let accepted = rx.provision(64).unwrap();
                assert_eq!(accepted, !full);
                let l = Label::SixBytesLabel([9, 8, 7, 6, 5, 4]);
                let x = Xfer {
                    wire_label: l,
                    exp_label: l,
                    ptype: 0x86DD,
                    chain: vec![],
                    final_ext: false,
                    pdu: (0..64u8).collect(),
                    frag_id: fid,
                };
                let pkts = vec![x.build_first(20), x.build_inter(20, 20), x.build_end(40, x.crc())];
                let mut rng = Rng::new(1);
                feed_fresh(&mut rng, &mut rx, &pkts, &x, Feed::Exact)
                    .unwrap_or_else(|e| panic!("slots {} fid {} full {}: {}", slots, fid, full, e));
                // and a complete packet
                let _ = rx.provision(64).unwrap();
                rx.dec().reset_last_label();
                let mut c = x.clone();
                c.wire_label = Label::ThreeBytesLabel([0, 0, 0]);
                c.exp_label = c.wire_label;
                feed_fresh(&mut rng, &mut rx, &[c.build_complete()], &c, Feed::Exact).unwrap();
                n += 1;
            }
        }
    }
    println!("sweep frag id x slots: {} recoveries", n);
}

/// every kind of single "poison" packet on the target frag id, then recovery. Sizes at the corners.
#[test]
fn c16_sweep_single_poison_then_corner_sizes() {
    let sizes = [0usize, 1, 2, 4085, 4086, 4087, 4088, 4089, 4090, 4091, 4092, 4093, 4094, 4095, 4096, 4097, 65524, 65527, 65530, 65533];
    let labels = [
        Label::Broadcast,
        Label::ThreeBytesLabel([0, 0, 0]),
        Label::ThreeBytesLabel([1, 2, 3]),
        Label::SixBytesLabel([0, 0, 0, 0, 0, 1]),
    ];
    let mut n = 0u64;
    let mut rng = Rng::new(42);
    for &size in &sizes {
        for &l in &labels {
            let size = size.min(65535 - 2 - label_bytes(&l).len());
            for poison in 0..12 {
                for storage_extra in [0usize, 1, 70000] {
                    let max_pdu = size;
                    let mut rx = Rx::new(3, max_pdu, SimpleMandatoryExtensionHeaderManager {});
                    let _ = rx.provision(max_pdu).unwrap();
                    let fid = 5u8; // slot 2
                    let old = Xfer {
                        wire_label: Label::ThreeBytesLabel([4, 4, 4]),
                        exp_label: Label::ThreeBytesLabel([4, 4, 4]),
                        ptype: 0x0800,
                        chain: vec![],
                        final_ext: false,
                        pdu: rng.bytes(size.min(9000)),
                        frag_id: fid,
                    };
                    let a = old.pdu.len().min(4000) / 2;
                    let mut p = match poison {
                        0 => old.build_first(a),                        // unfinished train, same id
                        1 => { let mut o = old.clone(); o.frag_id = 2; o.build_first(a) } // aliasing id
                        2 => { let mut q = old.build_first(a); q[3..5].copy_from_slice(&0u16.to_be_bytes()); q } // total length 0
                        3 => { let mut q = old.build_first(a); q[3..5].copy_from_slice(&0xFFFFu16.to_be_bytes()); q }
                        4 => { let mut o = old.clone(); o.wire_label = Label::ReUse; o.build_first(a) } // reuse, no context
                        5 => { let mut o = old.clone(); o.wire_label = Label::SixBytesLabel([0; 6]); o.build_first(a) }
                        6 => { let mut o = old.clone(); o.ptype = 0x0001; o.build_first(a) } // unknown mandatory ext
                        7 => { let mut o = old.clone(); o.ptype = 0x0500; o.build_first(0) } // ext data missing
                        8 => old.build_end(old.pdu.len().saturating_sub(10), 0xDEADBEEF), // end without context
                        9 => vec![0x00, 0x00],
                        10 => vec![0xFF],
                        _ => vec![0x8F, 0xFF, 5, 0, 1],
                    };
                    let _ = rx.decap(&p).unwrap();
                    if poison == 0 && old.pdu.len() > a && old.pdu.len() - a <= 4090 {
                        // plus an end with a wrong crc, then a new first
                        p = old.build_end(a, old.crc() ^ 0x8000_0000);
                        {
                            let r = rx.decap(&p).unwrap();
                            assert!(matches!(r, Err((DecapError::ErrorCrc, _))), "{:?}", r.map(|x| x.1).map_err(|e| e.0));
                        }
                    }
                    rx.dec().reset_last_label();
                    let _ = rx.provision(max_pdu + storage_extra).unwrap();
                    let x = Xfer {
                        wire_label: l,
                        exp_label: l,
                        ptype: 0x0600,
                        chain: vec![],
                        final_ext: false,
                        pdu: rng.bytes(size),
                        frag_id: fid,
                    };
                    let pkts = x.fragment(&mut rng);
                    feed_fresh(&mut rng, &mut rx, &pkts, &x, Feed::Exact)
                        .unwrap_or_else(|e| panic!("size {} label {:?} poison {} extra {}: {}", size, l, poison, storage_extra, e));
                    n += 1;
                }
            }
        }
    }
    println!("sweep single poison x corner sizes: {} recoveries", n);
}

/// every first byte x gse-length class x short bodies as a one-packet history (exhaustive over the
/// fixed header's 4 flag bits, label types and tiny gse lengths), then recovery on the same frag id
#[test]
fn c16_sweep_tiny_packets_exhaustive() {
    let mut n = 0u64;
    let mut rng = Rng::new(7);
    for b0 in 0..=255u8 {
        for b1 in [0u8, 1, 2, 3, 4, 5, 6, 7, 8, 9, 10, 11, 12, 13, 14, 15, 16, 0xFF] {
            for blen in [2usize, 3, 4, 5, 6, 7, 8, 9, 10, 11, 12, 13, 14, 15, 16, 17, 18, 20] {
                for pending in [false, true] {
                    let mut rx = Rx::new(2, 32, CustomMgr);
                    let _ = rx.provision(32).unwrap();
                    let fid = 3u8;
                    if pending {
                        let o = Xfer {
                            wire_label: Label::Broadcast,
                            exp_label: Label::Broadcast,
                            ptype: 0x0800,
                            chain: vec![],
                            final_ext: false,
                            pdu: vec![1; 20],
                            frag_id: fid,
                        };
                        let _ = rx.decap(&o.build_first(10)).unwrap();
                    }
                    let mut v = vec![b0, b1, fid];
                    v.extend(rng.bytes(20));
                    if rng.chance(1, 2) {
                        // plausible total length / protocol field
                        v[3] = 0;
                        v[4] = rng.below(40) as u8;
                        v[5] = rng.pick(&[0u8, 1, 5, 6, 8]);
                        v[6] = rng.pick(&[0u8, 1, 0x10, 0x13, 0xFD]);
                    }
                    v.truncate(blen.max(2));
                    let _ = rx.decap(&v).unwrap();
                    rx.dec().reset_last_label();
                    let _ = rx.provision(32).unwrap();
                    let l = Label::ThreeBytesLabel([0, 0, 0]);
                    let x = Xfer {
                        wire_label: l,
                        exp_label: l,
                        ptype: 0x0013,
                        chain: vec![(0x0003, vec![1, 2, 3]), (0x0200, vec![9, 9]), (0x0013, vec![5, 5, 5])],
                        final_ext: true,
                        pdu: rng.bytes(32),
                        frag_id: fid,
                    };
                    let pkts = vec![x.build_first(0), x.build_inter(0, 1), x.build_inter(1, 31), x.build_end(32, x.crc())];
                    feed_fresh(&mut rng, &mut rx, &pkts, &x, Feed::Frame)
                        .unwrap_or_else(|e| panic!("b0 {:02x} b1 {:02x} blen {} pending {}: {}", b0, b1, blen, pending, e));
                    n += 1;
                }
            }
        }
    }
    println!("sweep tiny packets: {} recoveries", n);
}
