// Harness for property C06 (second-round review): every packet emitted by encap / encap_frag /
// encap_ext is a well-formed, length-accurate GSE packet.
//
// Public API only.  Copy to tests/harness_C06.rs and run
//   CARGO_NET_OFFLINE=true cargo test --offline --test harness_C06 -- --nocapture
//   CARGO_NET_OFFLINE=true cargo test --offline --release --test harness_C06 -- --nocapture
//
// Oracles (all independent of the crate's code):
//  * `parse`            : a reader of ETSI TS 102 606 packets written from the standard's layout
//  * `predict_start` / `predict_frag` : arithmetic model of which packet may be emitted for a buffer
//  * `Reuse`            : model of the documented label re-use rule
//  * `crc32_mpeg`       : bitwise CRC-32 (poly 0x04C11DB7, init all ones, no reflection, no final xor)
//  * sentinel pattern   : every byte at or beyond the returned length must be untouched; on an error the
//                         whole buffer must be untouched
#![allow(clippy::all)]
#![allow(dead_code)]

use dvb_gse_rust::crc::{CrcCalculator, DefaultCrc};
use dvb_gse_rust::gse_decap::{DecapStatus, Decapsulator, GseDecapMemory, SimpleGseMemory};
use dvb_gse_rust::gse_encap::{ContextFrag, EncapError, EncapMetadata, EncapStatus, Encapsulator};
use dvb_gse_rust::header_extension::{
    Extension, ExtensionData, MandatoryHeaderExt, MandatoryHeaderExtensionManager,
};
use dvb_gse_rust::label::Label;

const MAXBUF: usize = 70000;

// ---------------------------------------------------------------------------------------------
// deterministic data
// ---------------------------------------------------------------------------------------------
fn pdu_byte(i: usize) -> u8 {
    (((i as u32).wrapping_mul(2654435761)) >> 11) as u8 ^ (i >> 13) as u8
}
fn pat_byte(i: usize) -> u8 {
    ((((i as u32).wrapping_mul(40503)).wrapping_add(0x5A17)) >> 4) as u8 | 0x08
}

struct Rng(u64);
impl Rng {
    fn next(&mut self) -> u64 {
        // xorshift64*
        let mut x = self.0;
        x ^= x >> 12;
        x ^= x << 25;
        x ^= x >> 27;
        self.0 = x;
        x.wrapping_mul(0x2545F4914F6CDD1D)
    }
    fn below(&mut self, n: usize) -> usize {
        (self.next() % (n as u64)) as usize
    }
}

// ---------------------------------------------------------------------------------------------
// CRC oracles
// ---------------------------------------------------------------------------------------------
fn crc32_table() -> [u32; 256] {
    let mut t = [0u32; 256];
    for i in 0..256u32 {
        let mut c = i << 24;
        for _ in 0..8 {
            c = if c & 0x8000_0000 != 0 {
                (c << 1) ^ 0x04C1_1DB7
            } else {
                c << 1
            };
        }
        t[i as usize] = c;
    }
    t
}
/// CRC-32 of total length, protocol type, label, PDU (ETSI TS 102 606, 4.2.2 CRC-32)
fn crc32_mpeg(pdu: &[u8], pt: u16, tl: u16, label: &[u8]) -> u32 {
    let t = crc32_table();
    let mut crc = 0xFFFF_FFFFu32;
    let mut feed = |b: u8| crc = (crc << 8) ^ t[(((crc >> 24) as u8) ^ b) as usize];
    for b in tl.to_be_bytes() {
        feed(b)
    }
    for b in pt.to_be_bytes() {
        feed(b)
    }
    for &b in label {
        feed(b)
    }
    for &b in pdu {
        feed(b)
    }
    crc
}
#[test]
fn crc_oracle_selfcheck() {
    // CRC-32/MPEG-2 check value of "123456789" is 0x0376E6E7
    let t = crc32_table();
    let mut crc = 0xFFFF_FFFFu32;
    for &b in b"123456789" {
        crc = (crc << 8) ^ t[(((crc >> 24) as u8) ^ b) as usize];
    }
    assert_eq!(crc, 0x0376_E6E7);
}

/// cheap stand-in used for the big sweeps (the crate is generic over the CRC calculator): a hash of
/// every argument, with the PDU sampled, so that a wrong argument is still detected
fn cheap_crc(pdu: &[u8], pt: u16, tl: u16, label: &[u8]) -> u32 {
    let mut h = 0x811C_9DC5u32;
    let mut f = |b: u8| h = (h ^ b as u32).wrapping_mul(16777619);
    for b in tl.to_be_bytes() {
        f(b)
    }
    for b in pt.to_be_bytes() {
        f(b)
    }
    f(label.len() as u8);
    for &b in label {
        f(b)
    }
    for b in (pdu.len() as u32).to_be_bytes() {
        f(b)
    }
    let step = (pdu.len() / 16).max(1);
    let mut i = 0;
    while i < pdu.len() {
        f(pdu[i]);
        i += step;
    }
    if let Some(&b) = pdu.last() {
        f(b)
    }
    h
}
#[derive(Clone)]
struct CheapCrc;
impl CrcCalculator for CheapCrc {
    fn calculate_crc32(&self, pdu: &[u8], pt: u16, tl: u16, label: &[u8]) -> u32 {
        cheap_crc(pdu, pt, tl, label)
    }
}

// ---------------------------------------------------------------------------------------------
// independent GSE reader
// ---------------------------------------------------------------------------------------------
/// meaning of the mandatory extension ids used by this harness (one meaning per id):
/// 0x00..=0x7F non final, 0x80..=0xFF final, data length id % 9 (0..=8 bytes),
/// except 0x7E / 0xFE whose data length is given by `LONG` (long-header tests)
#[derive(Clone, Copy)]
struct Mand {
    long: usize,
    /// packets written by `encap` (no extension) with a protocol type below 0x100: the type field is a
    /// final mandatory extension id without data (e.g. 0x0081 NCR, 0x0082 internal signalling)
    plain: bool,
}
impl Mand {
    fn get(&self, id: u16) -> (bool, usize) {
        assert!(id < 0x100);
        if self.plain {
            return (true, 0);
        }
        let fin = id >= 0x80;
        let n = if id & 0x7F == 0x7E {
            self.long
        } else {
            (id % 9) as usize
        };
        (fin, n)
    }
}
const MAND: Mand = Mand { long: 0, plain: false };

#[derive(Debug, Default)]
struct Parsed {
    s: bool,
    e: bool,
    lt: u8,
    gse_len: usize,
    frag_id: Option<u8>,
    total_len: Option<u16>,
    type_field: Option<u16>,
    label: (usize, usize),
    exts: Vec<(u16, usize, usize)>,
    ptype: Option<u16>,
    final_mand: bool,
    payload: (usize, usize),
    crc: Option<u32>,
}

fn parse(pkt: &[u8], mand: &Mand) -> Result<Parsed, String> {
    let mut p = Parsed::default();
    if pkt.len() < 2 {
        return Err("shorter than the fixed header".into());
    }
    let h = u16::from_be_bytes([pkt[0], pkt[1]]);
    p.s = h & 0x8000 != 0;
    p.e = h & 0x4000 != 0;
    p.lt = ((h >> 12) & 3) as u8;
    p.gse_len = (h & 0x0FFF) as usize;
    if !p.s && !p.e && p.lt == 0 {
        return Err("S=0 E=0 LT=00 is padding".into());
    }
    if p.gse_len + 2 != pkt.len() {
        return Err(format!(
            "gse length {} but {} bytes follow the fixed header",
            p.gse_len,
            pkt.len() - 2
        ));
    }
    let end = pkt.len();
    let mut off = 2usize;
    macro_rules! take {
        ($n:expr, $what:expr) => {{
            let n: usize = $n;
            if off + n > end {
                return Err(format!("{} does not fit in the packet", $what));
            }
            let r = (off, off + n);
            off += n;
            r
        }};
    }
    if p.s {
        if !p.e {
            let r = take!(1, "frag id");
            p.frag_id = Some(pkt[r.0]);
            let r = take!(2, "total length");
            p.total_len = Some(u16::from_be_bytes([pkt[r.0], pkt[r.0 + 1]]));
        }
        let r = take!(2, "protocol type");
        let mut t = u16::from_be_bytes([pkt[r.0], pkt[r.0 + 1]]);
        p.type_field = Some(t);
        let ll = match p.lt {
            0 => 6,
            1 => 3,
            _ => 0,
        };
        p.label = take!(ll, "label");
        loop {
            if t >= 0x600 {
                p.ptype = Some(t);
                break;
            }
            if t < 0x100 {
                let (fin, n) = mand.get(t);
                let r = take!(n, "mandatory extension data");
                p.exts.push((t, r.0, r.1));
                if fin {
                    p.ptype = Some(t);
                    p.final_mand = true;
                    break;
                }
            } else {
                let n = [0usize, 2, 4, 6, 8][(t >> 8) as usize - 1];
                let r = take!(n, "optional extension data");
                p.exts.push((t, r.0, r.1));
            }
            let r = take!(2, "next type field");
            t = u16::from_be_bytes([pkt[r.0], pkt[r.0 + 1]]);
        }
        p.payload = (off, end);
    } else {
        if p.lt != 3 {
            return Err("a fragment without label must carry LT=11".into());
        }
        let r = take!(1, "frag id");
        p.frag_id = Some(pkt[r.0]);
        if p.e {
            if end - off < 4 {
                return Err("CRC does not fit".into());
            }
            p.payload = (off, end - 4);
            p.crc = Some(u32::from_be_bytes([
                pkt[end - 4],
                pkt[end - 3],
                pkt[end - 2],
                pkt[end - 1],
            ]));
        } else {
            p.payload = (off, end);
        }
    }
    Ok(p)
}

// ---------------------------------------------------------------------------------------------
// models
// ---------------------------------------------------------------------------------------------
#[derive(Debug, PartialEq, Eq, Clone, Copy)]
enum Exp {
    Err,
    Complete { len: usize },
    First { len: usize, enc: usize },
}
/// `x`: bytes of the extension chain on the wire after the label (data, following ids, final protocol type)
fn predict_start(p: usize, l: usize, x: usize, blen: usize) -> Result<Exp, EncapError> {
    let hdr_c = 2 + 2 + l + x;
    if 2 + l + x + p <= 4095 && blen >= hdr_c + p {
        return Ok(Exp::Complete { len: hdr_c + p });
    }
    let hdr_f = hdr_c + 3;
    if blen < hdr_f || hdr_f > 4097 {
        return Err(EncapError::ErrorSizeBuffer);
    }
    if 2 + l + p > 65535 {
        return Err(EncapError::ErrorPduLength);
    }
    let len = blen.min(4097);
    Ok(Exp::First {
        len,
        enc: len - hdr_f,
    })
}
#[derive(Debug, PartialEq, Eq, Clone, Copy)]
enum ExpF {
    Err,
    End { len: usize },
    Inter { len: usize, n: usize },
}
fn predict_frag(r: usize, blen: usize) -> ExpF {
    if r + 5 <= 4095 && blen >= r + 7 {
        return ExpF::End { len: r + 7 };
    }
    if r > 0 && blen >= 4 {
        let n = (blen - 3).min(4094).min(r);
        return ExpF::Inter { len: 3 + n, n };
    }
    ExpF::Err
}

#[derive(Clone, Debug)]
struct Reuse {
    enabled: bool,
    max: u8,
    cur: u8,
    last: Option<Label>,
}
impl Reuse {
    fn new() -> Self {
        Reuse {
            enabled: true,
            max: 0,
            cur: 0,
            last: None,
        }
    }
    fn reset(&mut self) {
        self.last = None;
    }
    fn disable(&mut self) {
        self.enabled = false;
        self.max = 0;
        self.cur = 0;
    }
    fn enable(&mut self, max: u8) {
        if !self.enabled {
            self.last = None;
        }
        self.enabled = true;
        self.max = max;
        self.cur = 0;
    }
    fn peek(&self, l: Label) -> Label {
        if self.enabled && self.last == Some(l) && (self.max == 0 || self.cur < self.max) {
            Label::ReUse
        } else {
            l
        }
    }
    fn emit(&mut self, l: Label) {
        if !self.enabled {
            return;
        }
        if self.last == Some(l) {
            if self.max == 0 {
                return;
            }
            if self.cur < self.max {
                self.cur += 1;
                return;
            }
            self.cur = 0;
        }
        match l {
            Label::Broadcast => self.last = None,
            Label::ReUse => {}
            _ => self.last = Some(l),
        }
    }
}

fn lt_code(l: &Label) -> u8 {
    match l {
        Label::SixBytesLabel(_) => 0,
        Label::ThreeBytesLabel(_) => 1,
        Label::Broadcast => 2,
        Label::ReUse => 3,
    }
}
fn label_bytes(l: &Label) -> Vec<u8> {
    match l {
        Label::SixBytesLabel(b) => b.to_vec(),
        Label::ThreeBytesLabel(b) => b.to_vec(),
        _ => vec![],
    }
}
fn ext_data(e: &Extension) -> Vec<u8> {
    match e.data() {
        ExtensionData::Data2(d) => d.to_vec(),
        ExtensionData::Data4(d) => d.to_vec(),
        ExtensionData::Data6(d) => d.to_vec(),
        ExtensionData::Data8(d) => d.to_vec(),
        ExtensionData::NoData => vec![],
        ExtensionData::MandatoryData(d) => d.clone(),
    }
}

// ---------------------------------------------------------------------------------------------
// harness core
// ---------------------------------------------------------------------------------------------
#[derive(Default, Debug, Clone)]
struct Stats {
    start_calls: u64,
    frag_calls: u64,
    complete: u64,
    first: u64,
    inter: u64,
    end: u64,
    err: u64,
    big_buf: u64, // successful calls with a buffer above 4097 bytes
    ext_pkts: u64,
    first_empty: u64,
}

struct H {
    buf: Vec<u8>,
    pat: Vec<u8>,
    pdu: Vec<u8>,
    st: Stats,
    keep: bool,
    last_pkt: Vec<u8>,
    mand: Mand,
}

type CrcFn = fn(&[u8], u16, u16, &[u8]) -> u32;

/// failure context, formatted only when an assertion fails
struct Ctx<F: Fn() -> String>(F);
impl<F: Fn() -> String> std::fmt::Display for Ctx<F> {
    fn fmt(&self, f: &mut std::fmt::Formatter<'_>) -> std::fmt::Result {
        f.write_str(&(self.0)())
    }
}

impl H {
    fn new() -> H {
        let pat: Vec<u8> = (0..MAXBUF + 16).map(pat_byte).collect();
        H {
            buf: pat.clone(),
            pat,
            pdu: (0..65536).map(pdu_byte).collect(),
            st: Stats::default(),
            keep: false,
            last_pkt: vec![],
            mand: MAND,
        }
    }

    /// one encap / encap_ext call, fully checked. Returns the status on success.
    #[allow(clippy::too_many_arguments)]
    fn start<C: CrcCalculator>(
        &mut self,
        enc: &mut Encapsulator<C>,
        m: &mut Reuse,
        crcf: CrcFn,
        plen: usize,
        frag_id: u8,
        ptype: u16,
        label: Label,
        blen: usize,
        exts: Option<&Vec<Extension>>,
    ) -> Result<EncapStatus, EncapError> {
        self.st.start_calls += 1;
        let m0 = m.clone();
        let ctx = Ctx(move || {
            format!(
                "start plen={plen} frag_id={frag_id} ptype={ptype:#06x} label={label:?} blen={blen} exts={exts:?} reuse={m0:?}"
            )
        });
        let ctx = &ctx;
        // ---- prediction
        let written = m.peek(label);
        let l = label_bytes(&written).len();
        let mut x = 0usize;
        let mut fin = false;
        let mut exp: Result<Exp, EncapError> = Ok(Exp::Err);
        let zero6 = label == Label::SixBytesLabel([0; 6]);
        match exts {
            None => {
                if zero6 {
                    exp = Err(EncapError::ErrorInvalidLabel);
                } else if (0x100..0x600).contains(&ptype) {
                    exp = Err(EncapError::ErrorProtocolType);
                }
            }
            Some(v) => {
                if v.is_empty() {
                    exp = Err(EncapError::ErrorNoExtensionFound);
                } else if ptype < 0x100 {
                    if v.last().unwrap().id() != ptype {
                        exp = Err(EncapError::ErrorFinalMandatoryExtensionHeader);
                    } else {
                        fin = true;
                    }
                } else if ptype < 0x600 {
                    exp = Err(EncapError::ErrorProtocolType);
                }
                if exp.is_ok() && zero6 {
                    exp = Err(EncapError::ErrorInvalidLabel);
                }
                if exp.is_ok() {
                    x = v.iter().map(|e| ext_data(e).len()).sum::<usize>()
                        + 2 * (v.len() - 1)
                        + if fin { 0 } else { 2 };
                }
            }
        }
        if exp.is_ok() {
            exp = predict_start(plen, l, x, blen);
        }
        // ---- call
        let pdu = &self.pdu[..plen];
        let md = EncapMetadata::new(ptype, label);
        let res = match exts {
            None => enc.encap(pdu, frag_id, md, &mut self.buf[..blen]),
            Some(v) => enc.encap_ext(pdu, frag_id, md, &mut self.buf[..blen], v.clone()),
        };
        // ---- checks
        match &res {
            Err(e) => {
                self.st.err += 1;
                assert!(
                    self.buf[..blen] == self.pat[..blen],
                    "buffer modified although an error was returned: {ctx}"
                );
                match &exp {
                    Err(x) => assert_eq!(x, e, "other error than predicted: {ctx}"),
                    Ok(x) => panic!("error {e:?} but the model emits {x:?}: {ctx}"),
                }
                return res;
            }
            Ok(_) => {}
        }
        let (ret, frag_ctx) = match res.as_ref().unwrap() {
            EncapStatus::CompletedPkt(n) => (*n as usize, None),
            EncapStatus::FragmentedPkt(n, c) => (*n as usize, Some(*c)),
        };
        assert!(ret <= blen, "returned length {ret} above the buffer: {ctx}");
        assert!(ret <= 4097, "returned length {ret} above 4097: {ctx}");
        assert!(
            self.buf[ret..] == self.pat[ret..],
            "byte at or beyond the returned length {ret} modified: {ctx}"
        );
        let pkt = &self.buf[..ret];
        let mand = if exts.is_none() {
            Mand { long: 0, plain: true }
        } else {
            self.mand
        };
        let p = match parse(pkt, &mand) {
            Ok(p) => p,
            Err(e) => panic!("emitted packet does not parse: {e}: {ctx}"),
        };
        assert!(p.gse_len <= 4095);
        assert_eq!(p.gse_len + 2, ret, "{ctx}");
        assert!(p.s, "start bit: {ctx}");
        assert_eq!(p.e, frag_ctx.is_none(), "end bit vs status: {ctx}");
        // label
        assert_eq!(p.lt, lt_code(&written), "label type bits: {ctx}");
        assert_eq!(
            &pkt[p.label.0..p.label.1],
            &label_bytes(&written)[..],
            "label bytes: {ctx}"
        );
        // type field / extensions / protocol type
        match exts {
            None => {
                assert_eq!(p.type_field, Some(ptype), "{ctx}");
                assert_eq!(p.ptype, Some(ptype), "{ctx}");
                if ptype >= 0x600 {
                    assert!(p.exts.is_empty(), "{ctx}");
                } else {
                    // a protocol type below 0x100 reads as a final mandatory extension id without data
                    assert!(p.final_mand && p.exts.len() == 1 && p.exts[0].1 == p.exts[0].2, "{ctx}");
                }
            }
            Some(v) => {
                self.st.ext_pkts += 1;
                assert_eq!(p.type_field, Some(v[0].id()), "{ctx}");
                assert_eq!(p.exts.len(), v.len(), "extension count: {ctx}");
                for (a, b) in p.exts.iter().zip(v.iter()) {
                    assert_eq!(a.0, b.id(), "{ctx}");
                    assert_eq!(&pkt[a.1..a.2], &ext_data(b)[..], "{ctx}");
                }
                assert_eq!(p.ptype, Some(ptype), "{ctx}");
                assert_eq!(p.final_mand, fin, "{ctx}");
            }
        }
        // payload position, computed from the layout and not from the parser
        let hdr = 2 + if frag_ctx.is_some() { 3 } else { 0 } + 2 + l + x;
        assert!(ret >= hdr, "{ctx}");
        let n = ret - hdr;
        assert_eq!(&pkt[hdr..], &self.pdu[..n], "payload: {ctx}");
        assert_eq!(p.payload, (hdr, ret), "{ctx}");
        match frag_ctx {
            None => {
                self.st.complete += 1;
                assert_eq!(n, plen, "complete packet carries the whole PDU: {ctx}");
                assert_eq!(exp, Ok(Exp::Complete { len: ret }), "{ctx}");
            }
            Some(c) => {
                self.st.first += 1;
                if n == 0 {
                    self.st.first_empty += 1;
                }
                assert_eq!(p.frag_id, Some(frag_id), "{ctx}");
                let tl = 2 + l + plen;
                assert!(tl <= 65535);
                assert_eq!(p.total_len, Some(tl as u16), "total length: {ctx}");
                assert!(n < plen, "first fragment carries the whole PDU: {ctx}");
                assert_eq!(c.frag_id(), frag_id, "{ctx}");
                assert_eq!(c.len_pdu_frag() as usize, n, "{ctx}");
                assert_eq!(
                    c.crc(),
                    crcf(&self.pdu[..plen], ptype, tl as u16, &label_bytes(&written)),
                    "crc in context: {ctx}"
                );
                assert_eq!(exp, Ok(Exp::First { len: ret, enc: n }), "{ctx}");
            }
        }
        if blen > 4097 {
            self.st.big_buf += 1;
        }
        m.emit(label);
        if self.keep {
            self.last_pkt.clear();
            self.last_pkt.extend_from_slice(&self.buf[..ret]);
        }
        self.buf[..ret].copy_from_slice(&self.pat[..ret]);
        res
    }

    /// one encap_frag call, fully checked
    fn frag<C: CrcCalculator>(
        &mut self,
        enc: &Encapsulator<C>,
        plen: usize,
        c: &ContextFrag,
        blen: usize,
    ) -> Result<EncapStatus, EncapError> {
        self.st.frag_calls += 1;
        let o = c.len_pdu_frag() as usize;
        assert!(o <= plen);
        let r = plen - o;
        let exp = predict_frag(r, blen);
        let res = enc.encap_frag(&self.pdu[..plen], c, &mut self.buf[..blen]);
        let ctx = Ctx(move || format!("frag plen={plen} ctx={c:?} blen={blen}"));
        let ctx = &ctx;
        let (ret, newc) = match &res {
            Err(e) => {
                self.st.err += 1;
                assert!(
                    self.buf[..blen] == self.pat[..blen],
                    "buffer modified although an error was returned: {ctx}"
                );
                assert_eq!(*e, EncapError::ErrorSizeBuffer, "{ctx}");
                assert_eq!(exp, ExpF::Err, "{ctx}");
                return res;
            }
            Ok(EncapStatus::CompletedPkt(n)) => (*n as usize, None),
            Ok(EncapStatus::FragmentedPkt(n, c)) => (*n as usize, Some(*c)),
        };
        assert!(ret <= blen, "returned length {ret} above the buffer: {ctx}");
        assert!(ret <= 4097, "{ctx}");
        assert!(
            self.buf[ret..] == self.pat[ret..],
            "byte at or beyond the returned length {ret} modified: {ctx}"
        );
        let pkt = &self.buf[..ret];
        let p = match parse(pkt, &self.mand) {
            Ok(p) => p,
            Err(e) => panic!("emitted packet does not parse: {e}: {ctx}"),
        };
        assert_eq!(p.gse_len + 2, ret, "{ctx}");
        assert!(!p.s, "{ctx}");
        assert_eq!(p.e, newc.is_none(), "{ctx}");
        assert_eq!(p.lt, 3, "{ctx}");
        assert_eq!(p.frag_id, Some(c.frag_id()), "{ctx}");
        let n = p.payload.1 - p.payload.0;
        assert_eq!(p.payload.0, 3);
        assert_eq!(&pkt[3..3 + n], &self.pdu[o..o + n], "payload: {ctx}");
        match newc {
            None => {
                self.st.end += 1;
                assert_eq!(n, r, "end packet carries the rest: {ctx}");
                assert_eq!(p.crc, Some(c.crc()), "{ctx}");
                assert_eq!(ret, 3 + n + 4);
                assert_eq!(exp, ExpF::End { len: ret }, "{ctx}");
            }
            Some(nc) => {
                self.st.inter += 1;
                assert!(n >= 1, "empty intermediate fragment: {ctx}");
                assert_eq!(ret, 3 + n);
                assert_eq!(nc.frag_id(), c.frag_id());
                assert_eq!(nc.crc(), c.crc());
                assert_eq!(nc.len_pdu_frag() as usize, o + n, "{ctx}");
                assert_eq!(exp, ExpF::Inter { len: ret, n }, "{ctx}");
            }
        }
        if blen > 4097 {
            self.st.big_buf += 1;
        }
        if self.keep {
            self.last_pkt.clear();
            self.last_pkt.extend_from_slice(&self.buf[..ret]);
        }
        self.buf[..ret].copy_from_slice(&self.pat[..ret]);
        res
    }
}

fn quick() -> bool {
    std::env::var("C06_QUICK").is_ok()
}

const PTYPES_OK: [u16; 10] = [
    0x0600, 0x0601, 0x0800, 0x86DD, 0xFFFF, 0x0000, 0x0081, 0x00FF, 0x0082, 0x8100,
];

#[derive(Clone, Copy, Debug)]
enum Mode {
    Fresh(Label),    // reset_last_label before the call
    Disabled(Label), // re-use disabled
    Auto(Label),     // the same label was emitted just before: written as re-use
}
fn modes() -> Vec<Mode> {
    vec![
        Mode::Fresh(Label::SixBytesLabel([1, 2, 3, 4, 5, 6])),
        Mode::Fresh(Label::SixBytesLabel([0, 0, 0, 0, 0, 1])),
        Mode::Fresh(Label::ThreeBytesLabel([7, 8, 9])),
        Mode::Fresh(Label::ThreeBytesLabel([0, 0, 0])),
        Mode::Fresh(Label::Broadcast),
        Mode::Fresh(Label::ReUse),
        Mode::Disabled(Label::SixBytesLabel([0xFF; 6])),
        Mode::Disabled(Label::ThreeBytesLabel([0, 0, 0])),
        Mode::Auto(Label::SixBytesLabel([9, 8, 7, 6, 5, 4])),
        Mode::Auto(Label::ThreeBytesLabel([0, 0, 0])),
    ]
}
struct ModeEnc<C: CrcCalculator> {
    enc: Encapsulator<C>,
    m: Reuse,
    mode: Mode,
    label: Label,
}
fn mode_encs<C: CrcCalculator + Clone>(h: &mut H, c: C, crcf: CrcFn) -> Vec<ModeEnc<C>> {
    modes()
        .into_iter()
        .map(|mode| {
            let mut enc = Encapsulator::new(c.clone());
            let mut m = Reuse::new();
            let label = match mode {
                Mode::Fresh(l) => l,
                Mode::Disabled(l) => {
                    enc.disable_re_use_label();
                    m.disable();
                    l
                }
                Mode::Auto(l) => {
                    // prime: the label is emitted once in full
                    let r = h.start(&mut enc, &mut m, crcf, 0, 0, 0x0800, l, 16, None);
                    assert!(matches!(r, Ok(EncapStatus::CompletedPkt(_))));
                    l
                }
            };
            ModeEnc {
                enc,
                m,
                mode,
                label,
            }
        })
        .collect()
}
impl<C: CrcCalculator> ModeEnc<C> {
    fn prepare(&mut self) {
        if let Mode::Fresh(_) = self.mode {
            self.enc.reset_last_label();
            self.m.reset();
        }
    }
    fn written_len(&self) -> usize {
        label_bytes(&self.m.peek(self.label)).len()
    }
}

// ---------------------------------------------------------------------------------------------
// A1: every PDU length 0..=65535 x 10 label modes x corner buffer sizes
// ---------------------------------------------------------------------------------------------
fn sweep_a1(lo: usize, hi: usize) {
    let mut h = H::new();
    let mut encs = mode_encs(&mut h, CheapCrc, cheap_crc);
    let step = if quick() { 7 } else { 1 };
    let mut p = lo;
    while p <= hi {
        for me in encs.iter_mut() {
            let l = me.written_len();
            let base = 4 + l + p;
            let mut bufs: Vec<usize> = vec![0, 1, 2, 3, 4, 5, 6, 7, 8, 9, 10, 11, 12, 13, 14, 15, 16];
            let dense = p <= 4300 || p % 64 == 0 || p >= 65500;
            if dense {
                for d in 0..12 {
                    bufs.push((base + d).saturating_sub(3));
                }
            } else {
                bufs.push(base - 1);
                bufs.push(base);
            }
            bufs.extend(4090..=4100);
            if p % 16 == 0 || p >= 65500 || (4080..=4100).contains(&p) {
                bufs.push(65535);
                bufs.push(MAXBUF);
            }
            for &b in &bufs {
                if b > MAXBUF {
                    continue;
                }
                me.prepare();
                let pt = PTYPES_OK[(p + b) % PTYPES_OK.len()];
                let fid = (p * 7 + b) as u8;
                let label = me.label;
                let _ = h.start(&mut me.enc, &mut me.m, cheap_crc, p, fid, pt, label, b, None);
            }
        }
        p += step;
    }
    println!("A1 [{lo}..={hi}] {:?}", h.st);
}
#[test]
fn a1_all_pdu_lengths_part1() {
    sweep_a1(0, 16383);
}
#[test]
fn a1_all_pdu_lengths_part2() {
    sweep_a1(16384, 32767);
}
#[test]
fn a1_all_pdu_lengths_part3() {
    sweep_a1(32768, 49151);
}
#[test]
fn a1_all_pdu_lengths_part4() {
    sweep_a1(49152, 65535);
}

// ---------------------------------------------------------------------------------------------
// A2: corner PDU lengths x every buffer size 0..=4300, then up to 70000 with a stride
// ---------------------------------------------------------------------------------------------
fn corner_pdu_lens() -> Vec<usize> {
    let mut v: Vec<usize> = (0..=16).collect();
    v.extend(4070..=4110);
    v.extend(8180..=8200);
    v.extend(65500..=65535);
    v
}
fn sweep_a2(part: usize, parts: usize) {
    let mut h = H::new();
    let mut encs = mode_encs(&mut h, CheapCrc, cheap_crc);
    let mut bufs: Vec<usize> = (0..=4300).collect();
    let stride = if quick() { 997 } else { 61 };
    bufs.extend((4301..=MAXBUF).step_by(stride));
    bufs.extend(65530..=65545);
    bufs.extend(MAXBUF - 3..=MAXBUF);
    for (i, p) in corner_pdu_lens().into_iter().enumerate() {
        if i % parts != part {
            continue;
        }
        for me in encs.iter_mut() {
            for &b in &bufs {
                me.prepare();
                let pt = PTYPES_OK[(p + b) % PTYPES_OK.len()];
                let fid = (p * 3 + b * 5) as u8;
                let label = me.label;
                let _ = h.start(&mut me.enc, &mut me.m, cheap_crc, p, fid, pt, label, b, None);
            }
        }
    }
    println!("A2 part {part}/{parts} {:?}", h.st);
}
#[test]
fn a2_all_buffer_sizes_part0() {
    sweep_a2(0, 3);
}
#[test]
fn a2_all_buffer_sizes_part1() {
    sweep_a2(1, 3);
}
#[test]
fn a2_all_buffer_sizes_part2() {
    sweep_a2(2, 3);
}

// ---------------------------------------------------------------------------------------------
// A3: rejected inputs (protocol types 0x0100..=0x05FF, all-zero 6-byte label, too long PDUs),
//     each followed by valid traffic on the same encapsulator
// ---------------------------------------------------------------------------------------------
#[test]
fn a3_error_paths_then_valid_traffic() {
    let mut h = H::new();
    let mut enc = Encapsulator::new(CheapCrc);
    let mut m = Reuse::new();
    let l6 = Label::SixBytesLabel([1, 1, 1, 1, 1, 1]);
    let labels = [
        l6,
        Label::ThreeBytesLabel([0, 0, 0]),
        Label::Broadcast,
        Label::ReUse,
        Label::SixBytesLabel([0; 6]),
    ];
    let mut n = 0u64;
    for pt in (0x00F0u16..=0x0110).chain(0x05F0..=0x0610).chain([0x01FF, 0x0200, 0x02FF, 0x0300, 0x03FF, 0x0400, 0x0500]) {
        for &label in &labels {
            for &p in &[0usize, 1, 100, 4093, 4094, 5000, 65529, 65530, 65532, 65533, 65534, 65535] {
                for &b in &[0usize, 3, 4, 7, 10, 13, 14, 200, 4097, 5010, 70000] {
                    let _ = h.start(&mut enc, &mut m, cheap_crc, p, n as u8, pt, label, b, None);
                    // valid traffic right after, same label: must be well formed whatever happened before
                    let _ = h.start(&mut enc, &mut m, cheap_crc, 20, 1, 0x0800, l6, 40, None);
                    n += 2;
                }
            }
        }
    }
    println!("A3 {:?}", h.st);
}

// ---------------------------------------------------------------------------------------------
// B2: one continuation step, remaining length r x every buffer size (contexts come from the crate)
// ---------------------------------------------------------------------------------------------
fn genuine_context(h: &mut H, enc: &mut Encapsulator<CheapCrc>, r: usize) -> (usize, ContextFrag) {
    // returns (pdu length, context with `r` bytes of PDU left)
    let mut m = Reuse::new();
    enc.reset_last_label();
    let o = if r + 4090 <= 65533 { (r * 13) % 4091 } else { 0 };
    if r >= 4 {
        let p = o + r;
        let st = h
            .start(enc, &mut m, cheap_crc, p, (r % 256) as u8, 0x0800, Label::Broadcast, 7 + o, None)
            .unwrap();
        match st {
            EncapStatus::FragmentedPkt(_, c) => {
                assert_eq!(c.len_pdu_frag() as usize, o);
                (p, c)
            }
            _ => panic!(),
        }
    } else {
        // reach r in 0..=3 through an intermediate fragment carrying k bytes
        let k = 5;
        let p = o + r + k;
        let st = h
            .start(enc, &mut m, cheap_crc, p, (r % 256) as u8, 0x0800, Label::Broadcast, 7 + o, None)
            .unwrap();
        let c = match st {
            EncapStatus::FragmentedPkt(_, c) => c,
            _ => panic!(),
        };
        match h.frag(enc, p, &c, 3 + k).unwrap() {
            EncapStatus::FragmentedPkt(_, c2) => {
                assert_eq!(c2.len_pdu_frag() as usize, o + k);
                (p, c2)
            }
            _ => panic!(),
        }
    }
}
fn sweep_b2(part: usize, parts: usize) {
    let mut h = H::new();
    let mut enc = Encapsulator::new(CheapCrc);
    let mut rs: Vec<usize> = (0..=4200).collect();
    rs.extend((4201..=65533).step_by(257));
    rs.extend(65520..=65533);
    let mut bufs: Vec<usize> = (0..=4300).collect();
    bufs.extend((4301..=MAXBUF).step_by(if quick() { 9973 } else { 1499 }));
    bufs.extend([65535, 65536, MAXBUF - 1, MAXBUF]);
    let step = if quick() { 5 } else { 1 };
    for (i, &r) in rs.iter().enumerate().step_by(step) {
        if i % parts != part {
            continue;
        }
        let (p, c) = genuine_context(&mut h, &mut enc, r);
        for &b in &bufs {
            let _ = h.frag(&enc, p, &c, b);
        }
    }
    println!("B2 part {part}/{parts} {:?}", h.st);
}
#[test]
fn b2_continuation_step_part0() {
    sweep_b2(0, 4);
}
#[test]
fn b2_continuation_step_part1() {
    sweep_b2(1, 4);
}
#[test]
fn b2_continuation_step_part2() {
    sweep_b2(2, 4);
}
#[test]
fn b2_continuation_step_part3() {
    sweep_b2(3, 4);
}

// ---------------------------------------------------------------------------------------------
// B1: whole chains first -> intermediates -> end, with the real CRC, reassembled by an independent
//     reassembler (and by the crate's decapsulator)
// ---------------------------------------------------------------------------------------------
struct Known;
impl MandatoryHeaderExtensionManager for Known {
    fn is_mandatory_header_id_known(&self, id: u16) -> MandatoryHeaderExt {
        let (fin, n) = MAND.get(id);
        if fin {
            MandatoryHeaderExt::Final(n as u8)
        } else {
            MandatoryHeaderExt::NonFinal(n as u8)
        }
    }
}
fn new_decap(slots: usize, storage: usize, n_storages: usize) -> Decapsulator<SimpleGseMemory, DefaultCrc, Known> {
    let mut mem = SimpleGseMemory::new(slots, storage, 0, 0);
    for _ in 0..n_storages {
        mem.provision_storage(vec![0u8; storage].into_boxed_slice()).unwrap();
    }
    Decapsulator::new(mem, DefaultCrc {}, Known)
}

/// run one whole PDU through encap(+ext) and encap_frag with the given buffer schedule; returns the packets
#[allow(clippy::too_many_arguments)]
fn run_chain(
    h: &mut H,
    enc: &mut Encapsulator<DefaultCrc>,
    m: &mut Reuse,
    plen: usize,
    frag_id: u8,
    ptype: u16,
    label: Label,
    exts: Option<&Vec<Extension>>,
    b0: usize,
    sched: &mut dyn FnMut(usize) -> usize,
) -> Option<Vec<Vec<u8>>> {
    h.keep = true;
    let written = m.peek(label);
    let mut pkts = vec![];
    let st = match h.start(enc, m, crc32_mpeg, plen, frag_id, ptype, label, b0, exts) {
        Ok(s) => s,
        Err(_) => {
            h.keep = false;
            return None;
        }
    };
    pkts.push(h.last_pkt.clone());
    let mut c = match st {
        EncapStatus::CompletedPkt(_) => {
            h.keep = false;
            return Some(pkts);
        }
        EncapStatus::FragmentedPkt(_, c) => c,
    };
    let mut i = 0usize;
    let mut errs = 0;
    loop {
        let b = if errs >= 3 { 4097 } else { sched(i) };
        i += 1;
        match h.frag(enc, plen, &c, b) {
            Err(_) => {
                errs += 1;
                assert!(errs < 5, "no progress with a 4097 byte buffer");
            }
            Ok(EncapStatus::FragmentedPkt(_, nc)) => {
                errs = 0;
                assert!(nc.len_pdu_frag() > c.len_pdu_frag());
                c = nc;
                pkts.push(h.last_pkt.clone());
            }
            Ok(EncapStatus::CompletedPkt(_)) => {
                pkts.push(h.last_pkt.clone());
                break;
            }
        }
    }
    h.keep = false;
    // independent reassembly
    let first = parse(&pkts[0], &h.mand).unwrap();
    let mut data: Vec<u8> = pkts[0][first.payload.0..first.payload.1].to_vec();
    let last = pkts.len() - 1;
    for (k, pk) in pkts.iter().enumerate().skip(1) {
        let q = parse(pk, &h.mand).unwrap();
        assert_eq!(q.frag_id, Some(frag_id));
        assert_eq!(q.e, k == last);
        data.extend_from_slice(&pk[q.payload.0..q.payload.1]);
        if k == last {
            let lb = label_bytes(&written);
            let tl = first.total_len.unwrap();
            assert_eq!(data.len(), plen);
            assert_eq!(&data[..], &h.pdu[..plen]);
            assert_eq!(tl as usize, 2 + lb.len() + plen);
            // CRC over total length, protocol type, label, PDU
            assert_eq!(q.crc, Some(crc32_mpeg(&data, ptype, tl, &lb)), "CRC of the chain");
        }
    }
    Some(pkts)
}

#[test]
fn b1_whole_chains() {
    let mut h = H::new();
    let mut chains = 0u64;
    let mut pkts_total = 0u64;
    let mut decap_ok = 0u64;
    let plens: Vec<usize> = if quick() {
        vec![5, 4090, 4096, 65529]
    } else {
        vec![
            4, 5, 11, 100, 4080, 4086, 4087, 4088, 4089, 4090, 4091, 4092, 4093, 4094, 4095, 4096, 4097,
            4098, 4100, 8183, 8184, 8185, 8190, 20000, 65526, 65527, 65529, 65530, 65532, 65533,
        ]
    };
    let labels = [
        Label::SixBytesLabel([1, 2, 3, 4, 5, 6]),
        Label::ThreeBytesLabel([0, 0, 0]),
        Label::Broadcast,
        Label::ReUse,
    ];
    let consts: Vec<usize> = vec![4, 5, 6, 7, 8, 9, 10, 11, 12, 100, 4094, 4095, 4096, 4097, 4098, 4099, 65535, 70000];
    let mut rng = Rng(0xC06C06);
    for &plen in &plens {
        for (li, &label) in labels.iter().enumerate() {
            let l = label_bytes(&label).len();
            if 2 + l + plen > 65535 {
                continue;
            }
            for &b0 in &[7 + l, 8 + l, 50, 4096, 4097, 4098, 70000] {
                let mut scheds: Vec<Box<dyn FnMut(usize) -> usize>> = vec![];
                for &cb in &consts {
                    // 1-byte steps over a 64K PDU are long: keep a few of them only
                    if plen > 30000 && cb < 100 && !(cb == 4 && b0 == 7 + l && li == 2) && !(cb == 11 && b0 == 50) {
                        continue;
                    }
                    scheds.push(Box::new(move |_| cb));
                }
                for s in 0..6u64 {
                    let mut r = Rng(rng.next() | 1);
                    let big = s % 2 == 0;
                    scheds.push(Box::new(move |_| match r.below(10) {
                        0 => r.below(8),
                        1..=3 => 4 + r.below(if big { 4200 } else { 40 }),
                        4 => 4090 + r.below(12),
                        5 => 4098 + r.below(65903),
                        _ => 500 + r.below(if big { 3600 } else { 100 }),
                    }));
                }
                for sched in scheds.iter_mut() {
                    let mut enc = Encapsulator::new(DefaultCrc {});
                    let mut m = Reuse::new();
                    let fid = (chains * 37) as u8;
                    let pt = PTYPES_OK[(chains % 5) as usize];
                    if let Some(pk) = run_chain(&mut h, &mut enc, &mut m, plen, fid, pt, label, None, b0, sched.as_mut()) {
                        chains += 1;
                        pkts_total += pk.len() as u64;
                        // crate decapsulator on the same packets (explicit re-use label has no referent: skip)
                        if label != Label::ReUse && pk.len() < 3000 {
                            let mut d = new_decap(1 + (chains as usize % 256), plen.max(1), 1);
                            for (k, p) in pk.iter().enumerate() {
                                match d.decap(p) {
                                    Ok((DecapStatus::CompletedPkt(buf, md), n)) => {
                                        assert_eq!(n, p.len());
                                        assert_eq!(k, pk.len() - 1);
                                        assert_eq!(md.pdu_len(), plen);
                                        assert_eq!(&buf[..plen], &h.pdu[..plen]);
                                        assert_eq!(md.protocol_type(), pt);
                                        assert_eq!(md.label(), label);
                                        decap_ok += 1;
                                    }
                                    Ok((DecapStatus::FragmentedPkt(_), n)) => assert_eq!(n, p.len()),
                                    other => panic!("decap of an emitted packet: {other:?} plen={plen} label={label:?} b0={b0} k={k}"),
                                }
                            }
                        }
                    }
                }
            }
        }
    }
    println!("B1 chains={chains} packets={pkts_total} decap_ok={decap_ok} {:?}", h.st);
}

// ---------------------------------------------------------------------------------------------
// C: encap_ext
// ---------------------------------------------------------------------------------------------
fn opt_ext(id: u16, seed: u8) -> Extension {
    let n = [0usize, 2, 4, 6, 8][(id >> 8) as usize - 1];
    let d: Vec<u8> = (0..n).map(|i| seed.wrapping_add(i as u8).wrapping_mul(31)).collect();
    Extension::new(id, &d).unwrap()
}
fn mand_ext(id: u16, seed: u8, mand: &Mand) -> Extension {
    let (_, n) = mand.get(id);
    let d: Vec<u8> = (0..n).map(|i| seed.wrapping_add(i as u8).wrapping_mul(17) ^ 0xA5).collect();
    Extension::new(id, &d).unwrap()
}
/// chains and the protocol type they are sent with
fn ext_chains() -> Vec<(Vec<Extension>, u16)> {
    let m = &MAND;
    let mut v: Vec<(Vec<Extension>, u16)> = vec![];
    let opt_ids = [0x0100u16, 0x01FF, 0x0200, 0x02AB, 0x0300, 0x03FF, 0x0400, 0x04CD, 0x0500, 0x05FF];
    // single optional extension, every H-LEN class, protocol types at the range edges
    for &id in &opt_ids {
        for &pt in &[0x0600u16, 0x0800, 0xFFFF] {
            v.push((vec![opt_ext(id, id as u8)], pt));
        }
    }
    // single non-final mandatory, 0..=8 data bytes (id % 9)
    for id in 0u16..=0x7D {
        v.push((vec![mand_ext(id, id as u8, m)], if id % 2 == 0 { 0x0600 } else { 0x86DD }));
    }
    // single final mandatory, 0..=8 data bytes
    for id in (0x80u16..=0xFD).chain([0xFF]) {
        v.push((vec![mand_ext(id, id as u8, m)], id));
    }
    // chains of 2..=5
    let mut rng = Rng(0xE47);
    for n in 2..=5usize {
        for k in 0..60 {
            let mut c = vec![];
            for _ in 0..n - 1 {
                if rng.below(3) == 0 {
                    c.push(mand_ext(rng.below(0x7E) as u16, rng.next() as u8, m));
                } else {
                    c.push(opt_ext(opt_ids[rng.below(opt_ids.len())], rng.next() as u8));
                }
            }
            match k % 3 {
                0 => {
                    let id = 0x80 + rng.below(0x7E) as u16;
                    c.push(mand_ext(id, rng.next() as u8, m));
                    v.push((c, id));
                }
                1 => {
                    c.push(mand_ext(rng.below(0x7E) as u16, rng.next() as u8, m));
                    v.push((c, [0x0600, 0x0800, 0xFFFF][rng.below(3)]));
                }
                _ => {
                    c.push(opt_ext(opt_ids[rng.below(opt_ids.len())], rng.next() as u8));
                    v.push((c, [0x0600, 0x0800, 0xFFFF][rng.below(3)]));
                }
            }
        }
    }
    // long chains: 16, 64, 300 x 8-byte optional extensions (header up to 3000 bytes), 409 and 410 (around 4095)
    for &n in &[16usize, 64, 300, 405, 406, 407, 408, 409, 410, 411, 500] {
        let c: Vec<Extension> = (0..n).map(|i| opt_ext(0x0500 + (i % 256) as u16, i as u8)).collect();
        v.push((c, 0x0800));
    }
    v
}

fn ext_wire_len(c: &[Extension], fin: bool) -> usize {
    c.iter().map(|e| ext_data(e).len()).sum::<usize>() + 2 * (c.len() - 1) + if fin { 0 } else { 2 }
}

fn sweep_c(part: usize, parts: usize) {
    let mut h = H::new();
    let mut encs = mode_encs(&mut h, CheapCrc, cheap_crc);
    let chains = ext_chains();
    let plens: Vec<usize> = {
        let mut v: Vec<usize> = vec![0, 1, 2, 3, 4, 5, 100, 1000];
        v.extend(4040..=4100);
        v.extend([8190, 30000]);
        v.extend(65520..=65535);
        v
    };
    let step = if quick() { 5 } else { 1 };
    for (ci, (chain, pt)) in chains.iter().enumerate().step_by(step) {
        if ci % parts != part {
            continue;
        }
        let fin = *pt < 0x100;
        let x = ext_wire_len(chain, fin);
        for &p in &plens {
            for me in encs.iter_mut() {
                let l = me.written_len();
                let base_c = 4 + l + x + p; // size of the complete packet
                let base_f = 7 + l + x; // first fragment header
                let mut bufs: Vec<usize> = (0..=24).collect();
                for d in 0..8 {
                    bufs.push((base_f + d).saturating_sub(3));
                    bufs.push((base_c + d).saturating_sub(4));
                }
                bufs.extend(4092..=4099);
                bufs.extend([200, 65535, MAXBUF]);
                for &b in &bufs {
                    if b > MAXBUF {
                        continue;
                    }
                    me.prepare();
                    let label = me.label;
                    let fid = (p + b + ci) as u8;
                    let _ = h.start(&mut me.enc, &mut me.m, cheap_crc, p, fid, *pt, label, b, Some(chain));
                }
            }
        }
    }
    println!("C part {part}/{parts} chains={} {:?}", chains.len(), h.st);
}
#[test]
fn c_ext_part0() {
    sweep_c(0, 4);
}
#[test]
fn c_ext_part1() {
    sweep_c(1, 4);
}
#[test]
fn c_ext_part2() {
    sweep_c(2, 4);
}
#[test]
fn c_ext_part3() {
    sweep_c(3, 4);
}

/// one chain x every buffer size 0..=4300 (+ stride up to 70000), a few PDU lengths
#[test]
fn c2_ext_all_buffer_sizes() {
    let mut h = H::new();
    let mut encs = mode_encs(&mut h, CheapCrc, cheap_crc);
    let m = &MAND;
    let chains: Vec<(Vec<Extension>, u16)> = vec![
        (vec![opt_ext(0x0100, 1)], 0x0600),
        (vec![opt_ext(0x05FF, 2)], 0xFFFF),
        (vec![mand_ext(0x88, 3, m)], 0x88),
        (vec![mand_ext(0x81, 3, m)], 0x81),
        (vec![mand_ext(0x08, 3, m), opt_ext(0x0300, 4), mand_ext(0xFD, 5, m)], 0xFD),
        (vec![opt_ext(0x0200, 6), mand_ext(0x11, 7, m)], 0x0800),
        ((0..200).map(|i| opt_ext(0x0500 + i as u16, i as u8)).collect(), 0x0800),
    ];
    let mut bufs: Vec<usize> = (0..=4300).collect();
    bufs.extend((4301..=MAXBUF).step_by(if quick() { 9973 } else { 499 }));
    for (chain, pt) in &chains {
        for &p in &[0usize, 1, 7, 2000, 4000, 4070, 4085, 4090, 4096, 65529, 65533] {
            for me in encs.iter_mut() {
                for &b in &bufs {
                    me.prepare();
                    let label = me.label;
                    let _ = h.start(&mut me.enc, &mut me.m, cheap_crc, p, (b % 251) as u8, *pt, label, b, Some(chain));
                }
            }
        }
    }
    println!("C2 {:?}", h.st);
}

/// rejected encap_ext calls, followed by valid traffic
#[test]
fn c3_ext_errors() {
    let mut h = H::new();
    let mut enc = Encapsulator::new(DefaultCrc {});
    let mut mo = Reuse::new();
    let m = &MAND;
    let l6 = Label::SixBytesLabel([3; 6]);
    let chains: Vec<Vec<Extension>> = vec![
        vec![],
        vec![opt_ext(0x0100, 1)],
        vec![mand_ext(0x10, 1, m)],
        vec![mand_ext(0x90, 1, m)],
        vec![mand_ext(0x90, 1, m), opt_ext(0x0500, 1)],
        vec![opt_ext(0x0500, 1), mand_ext(0x90, 1, m)],
    ];
    for chain in &chains {
        for pt in (0u16..=0x0101).chain(0x05FE..=0x0601).chain([0x0200, 0x0300, 0x0400, 0x0500, 0xFFFF]) {
            // a final id is a final id: only use chains that the reader can interpret when accepted
            for &label in &[l6, Label::SixBytesLabel([0; 6]), Label::ThreeBytesLabel([0; 3]), Label::Broadcast, Label::ReUse] {
                for &p in &[0usize, 9, 4093, 65535] {
                    for &b in &[0usize, 6, 12, 30, 4097, 70000] {
                        // skip the combinations whose acceptance would contradict the harness' id table
                        // (non-final id used as final, or final id used as non-final)
                        let last_final_id = chain.last().map(|e| e.id() >= 0x80 && e.id() < 0x100).unwrap_or(false);
                        let inner_final = chain.len() > 1 && chain[..chain.len() - 1].iter().any(|e| (0x80..0x100).contains(&e.id()));
                        let accepted_as_final = pt < 0x100 && chain.last().map(|e| e.id() == pt).unwrap_or(false);
                        if inner_final || (accepted_as_final && !last_final_id) || (!accepted_as_final && last_final_id && pt >= 0x600) {
                            // still call it, but outside of the checked wrapper: only the sentinel matters
                            let r = enc.encap_ext(&h.pdu[..p], 1, EncapMetadata::new(pt, label), &mut h.buf[..b], chain.clone());
                            match r {
                                Err(_) => assert!(h.buf[..b] == h.pat[..b]),
                                Ok(EncapStatus::CompletedPkt(n)) | Ok(EncapStatus::FragmentedPkt(n, _)) => {
                                    let n = n as usize;
                                    assert!(n <= b && n <= 4097);
                                    assert_eq!((u16::from_be_bytes([h.buf[0], h.buf[1]]) & 0xFFF) as usize + 2, n);
                                    assert!(h.buf[n..] == h.pat[n..]);
                                    h.buf[..n].copy_from_slice(&h.pat[..n]);
                                    mo.emit(label);
                                }
                            }
                            continue;
                        }
                        let _ = h.start(&mut enc, &mut mo, crc32_mpeg, p, 9, pt, label, b, Some(chain));
                        let _ = h.start(&mut enc, &mut mo, crc32_mpeg, 10, 1, 0x0800, l6, 40, None);
                    }
                }
            }
        }
    }
    println!("C3 {:?}", h.st);
}

/// mandatory extensions with long data (the header alone around / above the 4097 byte packet)
#[test]
fn c4_ext_long_mandatory_data() {
    let mut n = 0u64;
    for long in (4060usize..=4100).chain([0, 1, 100, 2000, 5000, 65535, 70000, 200000]) {
        let mut h = H::new();
        h.mand = Mand { long, plain: false };
        let mand = h.mand;
        let mut encs = mode_encs(&mut h, CheapCrc, cheap_crc);
        let chains: Vec<(Vec<Extension>, u16)> = vec![
            (vec![mand_ext(0x7E, 1, &mand)], 0x0800),
            (vec![mand_ext(0xFE, 1, &mand)], 0xFE),
            (vec![opt_ext(0x0200, 1), mand_ext(0xFE, 1, &mand)], 0xFE),
        ];
        for (chain, pt) in &chains {
            for &p in &[0usize, 1, 10, 4090, 65533] {
                for me in encs.iter_mut() {
                    for b in (0usize..=30).chain(long.saturating_sub(4)..=long + 24).chain([4090, 4095, 4096, 4097, 4098, 4200, 70000]) {
                        if b > MAXBUF {
                            continue;
                        }
                        me.prepare();
                        let label = me.label;
                        let _ = h.start(&mut me.enc, &mut me.m, cheap_crc, p, 5, *pt, label, b, Some(chain));
                        n += 1;
                    }
                }
            }
        }
        if long == 4060 || long == 200000 {
            println!("C4 long={long} {:?}", h.st);
        }
    }
    println!("C4 calls={n}");
}

/// ext chains carried through fragmentation, with the real CRC, then through the crate's decapsulator
#[test]
fn c5_ext_whole_chains() {
    let mut h = H::new();
    let chains = ext_chains();
    let mut rng = Rng(0x5EED);
    let mut done = 0u64;
    let mut decap_ok = 0u64;
    let step = if quick() { 9 } else { 1 };
    for (ci, (chain, pt)) in chains.iter().enumerate().step_by(step) {
        let fin = *pt < 0x100;
        let x = ext_wire_len(chain, fin);
        for &label in &[Label::SixBytesLabel([6, 5, 4, 3, 2, 1]), Label::ThreeBytesLabel([0; 3]), Label::Broadcast] {
            let l = label_bytes(&label).len();
            for &plen in &[0usize, 30, 4080, 4096, 9000] {
                for &b0 in &[7 + l + x, 7 + l + x + 1, 4 + l + x + plen, 4097, 70000] {
                    if b0 > MAXBUF {
                        continue;
                    }
                    let mut r = Rng(rng.next() | 1);
                    let mut sched = move |_i: usize| match r.below(6) {
                        0 => r.below(12),
                        1 => 4090 + r.below(12),
                        2 => 4100 + r.below(60000),
                        _ => 4 + r.below(3000),
                    };
                    let mut enc = Encapsulator::new(DefaultCrc {});
                    let mut m = Reuse::new();
                    let fid = (ci * 11 + plen) as u8;
                    if let Some(pk) = run_chain(&mut h, &mut enc, &mut m, plen, fid, *pt, label, Some(chain), b0, &mut sched) {
                        done += 1;
                        let mut d = new_decap(1 + ci % 256, plen.max(1), 1);
                        for (k, p) in pk.iter().enumerate() {
                            match d.decap(p) {
                                Ok((DecapStatus::CompletedPkt(buf, md), n)) => {
                                    assert_eq!(n, p.len());
                                    assert_eq!(k, pk.len() - 1);
                                    assert_eq!(md.pdu_len(), plen);
                                    assert_eq!(&buf[..plen], &h.pdu[..plen]);
                                    assert_eq!(md.protocol_type(), *pt);
                                    assert_eq!(md.label(), label);
                                    assert_eq!(md.extensions(), chain);
                                    decap_ok += 1;
                                }
                                Ok((DecapStatus::FragmentedPkt(_), n)) => assert_eq!(n, p.len()),
                                other => panic!("decap of an emitted ext packet: {other:?} chain={ci} plen={plen} label={label:?} b0={b0} k={k}"),
                            }
                        }
                    }
                }
            }
        }
    }
    println!("C5 chains_done={done} decap_ok={decap_ok} {:?}", h.st);
}

// ---------------------------------------------------------------------------------------------
// D: label re-use state machine, random operation sequences (errors, restarts, interleavings)
// ---------------------------------------------------------------------------------------------
fn random_ops(seed: u64, n_ops: usize) -> Stats {
    let mut h = H::new();
    let mut rng = Rng(seed);
    let mut enc = Encapsulator::new(CheapCrc);
    let mut m = Reuse::new();
    let labels = [
        Label::SixBytesLabel([1, 2, 3, 4, 5, 6]),
        Label::SixBytesLabel([1, 2, 3, 4, 5, 7]),
        Label::SixBytesLabel([0, 0, 0, 0, 0, 0]),
        Label::ThreeBytesLabel([0, 0, 0]),
        Label::ThreeBytesLabel([1, 2, 3]),
        Label::Broadcast,
        Label::ReUse,
    ];
    let chains = ext_chains();
    // pending fragmentations (interleaved, several frag ids, sometimes the same id restarted)
    let mut pending: Vec<(usize, ContextFrag)> = vec![];
    for _ in 0..n_ops {
        match rng.below(40) {
            0 => {
                enc.reset_last_label();
                m.reset();
            }
            1 => {
                enc.disable_re_use_label();
                m.disable();
            }
            2 => {
                enc.enable_re_use_label();
                m.enable(0);
            }
            3 | 4 => {
                let k = [0u8, 1, 2, 3, 255][rng.below(5)];
                enc.enable_re_use_label_with_max_consecutive(k);
                m.enable(k);
            }
            5 => {
                // a clone continues identically
                enc = enc.clone();
            }
            6..=19 => {
                // continuation of a pending fragmentation
                if !pending.is_empty() {
                    let i = rng.below(pending.len());
                    let (p, c) = pending[i];
                    let b = match rng.below(5) {
                        0 => rng.below(10),
                        1 => 4090 + rng.below(12),
                        2 => 4098 + rng.below(65000),
                        _ => 4 + rng.below(4200),
                    };
                    match h.frag(&enc, p, &c, b) {
                        Ok(EncapStatus::FragmentedPkt(_, nc)) => pending[i] = (p, nc),
                        Ok(EncapStatus::CompletedPkt(_)) => {
                            pending.swap_remove(i);
                        }
                        Err(_) => {}
                    }
                }
            }
            _ => {
                let label = labels[rng.below(labels.len())];
                let p = match rng.below(8) {
                    0 => rng.below(4),
                    1 => 4080 + rng.below(20),
                    2 => 65520 + rng.below(16),
                    3 => rng.below(65536),
                    _ => rng.below(300),
                };
                let b = match rng.below(8) {
                    0 => rng.below(16),
                    1 => 4090 + rng.below(12),
                    2 => 4098 + rng.below(65000),
                    3 => (p + rng.below(20)).min(MAXBUF),
                    _ => 4 + rng.below(600),
                };
                let fid = rng.below(4) as u8; // few ids: restarts of the same id happen
                let r = if rng.below(3) == 0 {
                    let (chain, pt) = &chains[rng.below(chains.len())];
                    h.start(&mut enc, &mut m, cheap_crc, p, fid, *pt, label, b, Some(chain))
                } else {
                    let pt = if rng.below(10) == 0 {
                        [0x0100u16, 0x05FF, 0x0300][rng.below(3)]
                    } else {
                        PTYPES_OK[rng.below(PTYPES_OK.len())]
                    };
                    h.start(&mut enc, &mut m, cheap_crc, p, fid, pt, label, b, None)
                };
                if let Ok(EncapStatus::FragmentedPkt(_, c)) = r {
                    if pending.len() < 8 {
                        pending.push((p, c));
                    } else {
                        let i = rng.below(pending.len());
                        pending[i] = (p, c);
                    }
                }
            }
        }
    }
    h.st
}
#[test]
fn d_random_sequences() {
    let n = if quick() { 20_000 } else { 150_000 };
    let mut tot = Stats::default();
    for seed in 1..=8u64 {
        let s = random_ops(seed.wrapping_mul(0x9E3779B97F4A7C15), n);
        tot.start_calls += s.start_calls;
        tot.frag_calls += s.frag_calls;
        tot.complete += s.complete;
        tot.first += s.first;
        tot.inter += s.inter;
        tot.end += s.end;
        tot.err += s.err;
        tot.big_buf += s.big_buf;
        tot.ext_pkts += s.ext_pkts;
    }
    println!("D {tot:?}");
}

/// re-use with a consecutive limit: exact sequence of written label kinds
#[test]
fn d2_reuse_max_consecutive_exact() {
    let mut h = H::new();
    for max in [0u8, 1, 2, 3, 5, 254, 255] {
        let mut enc = Encapsulator::new(CheapCrc);
        let mut m = Reuse::new();
        enc.enable_re_use_label_with_max_consecutive(max);
        m.enable(max);
        let l = Label::ThreeBytesLabel([0, 0, 0]);
        h.keep = true;
        let mut seq = vec![];
        for i in 0..1200usize {
            let b = if i % 3 == 0 { 70000 } else { 64 };
            h.start(&mut enc, &mut m, cheap_crc, i % 50, 0, 0x0800, l, b, None).unwrap();
            seq.push((h.last_pkt[0] >> 4) & 3);
        }
        h.keep = false;
        // independent expectation: full label, then `max` re-uses, repeated (max = 0: re-use for ever)
        for (i, &lt) in seq.iter().enumerate() {
            let full = if max == 0 { i == 0 } else { i % (max as usize + 1) == 0 };
            assert_eq!(lt, if full { 1 } else { 3 }, "max={max} i={i}");
        }
    }
    println!("D2 {:?}", h.st);
}

// ---------------------------------------------------------------------------------------------
// E: frames: packets written back to back into one buffer larger than 4097 bytes, each call being
//    given the whole remaining room; the frame is then walked by the independent reader (gse length
//    only) and by the crate's decapsulator, padding included
// ---------------------------------------------------------------------------------------------
#[test]
fn e_frames_with_padding() {
    let mut rng = Rng(0xF4A3E);
    let pdu: Vec<u8> = (0..65536).map(pdu_byte).collect();
    let n_frames = if quick() { 300 } else { 3000 };
    let mut n_pkts = 0u64;
    let mut n_pdus = 0u64;
    let labels = [
        Label::SixBytesLabel([1, 2, 3, 4, 5, 6]),
        Label::ThreeBytesLabel([0, 0, 0]),
        Label::ThreeBytesLabel([4, 5, 6]),
        Label::Broadcast,
    ];
    let mut enc = Encapsulator::new(DefaultCrc {});
    let slots = [1usize, 2, 3, 7, 16, 255, 256];
    let mut pending: Option<(usize, u16, Label, ContextFrag)> = None;
    let mut expected: std::collections::VecDeque<(usize, u16, Label)> = Default::default();
    let mut fid = 0u8;
    let mut d = new_decap(slots[0], 65536, 3);
    for f in 0..n_frames {
        if f % 400 == 0 {
            // new receiver, other slot count; a pending fragmentation is abandoned on both sides
            d = new_decap(slots[(f / 400) % slots.len()], 65536, 3);
            pending = None;
            expected.clear();
        }
        let flen = [16usize, 100, 2001, 4097, 4098, 7274, 16008, 58192 / 8, 70000][rng.below(9)];
        let mut frame = vec![0u8; flen];
        let mut off = 0usize;
        enc.reset_last_label();
        d.reset_last_label();
        let pad = if rng.below(3) == 0 { rng.below(40) } else { 0 };
        loop {
            let room = &mut frame[off..flen - pad.min(flen - off)];
            let room_len = room.len();
            let before: Vec<u8> = room.to_vec();
            let r = if let Some((p, _pt, _l, c)) = pending {
                enc.encap_frag(&pdu[..p], &c, room)
            } else {
                let p = match rng.below(6) {
                    0 => rng.below(5),
                    1 => 4080 + rng.below(20),
                    2 => rng.below(65520),
                    _ => rng.below(1500),
                };
                let label = labels[rng.below(labels.len())];
                let pt = PTYPES_OK[rng.below(5)];
                fid = fid.wrapping_add(1);
                let r = enc.encap(&pdu[..p], fid, EncapMetadata::new(pt, label), room);
                if r.is_ok() {
                    expected.push_back((p, pt, label));
                }
                if let Ok(EncapStatus::FragmentedPkt(_, c)) = &r {
                    pending = Some((p, pt, label, *c));
                }
                r
            };
            match r {
                Err(_) => {
                    assert_eq!(&frame[off..off + room_len], &before[..]);
                    break;
                }
                Ok(EncapStatus::CompletedPkt(n)) => {
                    let n = n as usize;
                    assert!(n <= room_len && n <= 4097);
                    assert_eq!(&frame[off + n..off + room_len], &before[n..]);
                    if pending.is_some() {
                        pending = None;
                    }
                    off += n;
                }
                Ok(EncapStatus::FragmentedPkt(n, c)) => {
                    let n = n as usize;
                    assert!(n <= room_len && n <= 4097);
                    assert_eq!(&frame[off + n..off + room_len], &before[n..]);
                    let (p, pt, l, _) = pending.unwrap();
                    pending = Some((p, pt, l, c));
                    off += n;
                }
            }
            n_pkts += 1;
            if off + pad >= flen {
                break;
            }
        }
        // walk with the independent reader: gse length chains exactly to `off`, then padding
        let mut w = 0usize;
        while w + 2 <= flen {
            let hd = u16::from_be_bytes([frame[w], frame[w + 1]]);
            if hd >> 12 == 0 {
                break; // padding
            }
            w += (hd & 0xFFF) as usize + 2;
            assert!(w <= off, "a packet runs past the written bytes");
        }
        assert_eq!(w, off, "frame walk stops where the writer stopped");
        assert!(frame[off..].iter().all(|&b| b == 0), "padding touched");
        // walk with the crate's decapsulator
        let mut w = 0usize;
        while w < flen {
            match d.decap(&frame[w..]) {
                Ok((DecapStatus::Padding, n)) => {
                    assert_eq!(w, off);
                    w += n;
                }
                Ok((DecapStatus::FragmentedPkt(_), n)) => w += n,
                Ok((DecapStatus::CompletedPkt(buf, md), n)) => {
                    w += n;
                    let (p, pt, l) = expected.pop_front().unwrap();
                    assert_eq!(md.pdu_len(), p);
                    assert_eq!(&buf[..p], &pdu[..p]);
                    assert_eq!(md.protocol_type(), pt);
                    assert_eq!(md.label(), l);
                    n_pdus += 1;
                    d.provision_storage(buf).unwrap();
                }
                Err((e, n)) => {
                    // the only legitimate one: fewer than 2 bytes left
                    assert!(flen - w < 2, "decap error {e:?} at {w} of {flen} (written {off})");
                    w += n;
                }
            }
        }
    }
    println!("E frames={n_frames} packets={n_pkts} pdus_received={n_pdus}");
}

// ---------------------------------------------------------------------------------------------
// A4: full square PDU length 0..=4300 x buffer size 0..=4300 (every complete / first-fragment /
//     error boundary, including the 4095 limit), four label modes
// ---------------------------------------------------------------------------------------------
fn sweep_a4(mode_idx: usize) {
    let mut h = H::new();
    let mut encs = mode_encs(&mut h, CheapCrc, cheap_crc);
    let me = &mut encs[mode_idx];
    let step = if quick() { 9 } else { 1 };
    for p in (0..=4300usize).step_by(step) {
        for b in 0..=4300usize {
            me.prepare();
            let pt = PTYPES_OK[(p ^ b) % PTYPES_OK.len()];
            let label = me.label;
            let _ = h.start(&mut me.enc, &mut me.m, cheap_crc, p, (p + b) as u8, pt, label, b, None);
        }
    }
    println!("A4 mode {:?} {:?}", me.mode, h.st);
}
#[test]
fn a4_square_six_bytes() {
    sweep_a4(0);
}
#[test]
fn a4_square_three_bytes_zero() {
    sweep_a4(3);
}
#[test]
fn a4_square_broadcast() {
    sweep_a4(4);
}
#[test]
fn a4_square_auto_reuse() {
    sweep_a4(8);
}

// ---------------------------------------------------------------------------------------------
// F: uniformly random calls (random chains built on the fly), first call and one continuation
// ---------------------------------------------------------------------------------------------
fn random_chain(rng: &mut Rng) -> (Vec<Extension>, u16) {
    let m = &MAND;
    let span = if rng.below(20) == 0 { 40 } else { 4 };
    let n = 1 + rng.below(span);
    let mut c = vec![];
    for _ in 0..n - 1 {
        if rng.below(3) == 0 {
            c.push(mand_ext(rng.below(0x7E) as u16, rng.next() as u8, m));
        } else {
            c.push(opt_ext(0x0100 + rng.below(0x500) as u16, rng.next() as u8));
        }
    }
    match rng.below(3) {
        0 => {
            let id = 0x80 + rng.below(0x7E) as u16;
            c.push(mand_ext(id, rng.next() as u8, m));
            (c, id)
        }
        1 => {
            c.push(mand_ext(rng.below(0x7E) as u16, rng.next() as u8, m));
            (c, 0x0600 + rng.below(0xFA00) as u16)
        }
        _ => {
            c.push(opt_ext(0x0100 + rng.below(0x500) as u16, rng.next() as u8));
            (c, 0x0600 + rng.below(0xFA00) as u16)
        }
    }
}
fn fuzz(seed: u64, n: usize) -> Stats {
    let mut h = H::new();
    let mut rng = Rng(seed);
    let mut enc = Encapsulator::new(CheapCrc);
    let mut m = Reuse::new();
    for _ in 0..n {
        let label = match rng.below(6) {
            0 => Label::SixBytesLabel([rng.next() as u8, 0, 0, 0, 0, (rng.below(2)) as u8]),
            1 => Label::ThreeBytesLabel([0, 0, rng.below(2) as u8]),
            2 => Label::Broadcast,
            3 => Label::ReUse,
            4 => Label::SixBytesLabel([0, 0, 0, 0, 0, rng.below(2) as u8]),
            _ => Label::ThreeBytesLabel([rng.next() as u8, 1, 2]),
        };
        let p = match rng.below(4) {
            0 => rng.below(65536),
            1 => 4000 + rng.below(200),
            2 => 65500 + rng.below(36),
            _ => rng.below(5000),
        };
        let b = match rng.below(5) {
            0 => rng.below(MAXBUF + 1),
            1 => rng.below(40),
            2 => 4080 + rng.below(30),
            3 => (p + rng.below(40)).min(MAXBUF),
            _ => rng.below(4300),
        };
        if rng.below(50) == 0 {
            enc.reset_last_label();
            m.reset();
        }
        let fid = rng.next() as u8;
        let r = if rng.below(2) == 0 {
            let (chain, pt) = random_chain(&mut rng);
            h.start(&mut enc, &mut m, cheap_crc, p, fid, pt, label, b, Some(&chain))
        } else {
            let pt = rng.next() as u16;
            h.start(&mut enc, &mut m, cheap_crc, p, fid, pt, label, b, None)
        };
        if let Ok(EncapStatus::FragmentedPkt(_, mut c)) = r {
            // up to three continuations with random buffers
            for _ in 0..3 {
                let b = match rng.below(4) {
                    0 => rng.below(MAXBUF + 1),
                    1 => rng.below(12),
                    2 => 4085 + rng.below(20),
                    _ => rng.below(4300),
                };
                match h.frag(&enc, p, &c, b) {
                    Ok(EncapStatus::FragmentedPkt(_, nc)) => c = nc,
                    Ok(EncapStatus::CompletedPkt(_)) => break,
                    Err(_) => {}
                }
            }
        }
    }
    h.st
}
fn fuzz_run(k: u64) {
    let n = if quick() { 50_000 } else { 1_000_000 };
    let s = fuzz(0xABCDEF12345u64.wrapping_mul(2 * k + 1), n);
    println!("F seed {k} {s:?}");
}
#[test]
fn f_fuzz_0() {
    fuzz_run(0);
}
#[test]
fn f_fuzz_1() {
    fuzz_run(1);
}
#[test]
fn f_fuzz_2() {
    fuzz_run(2);
}
#[test]
fn f_fuzz_3() {
    fuzz_run(3);
}
