// Harness for property C07 (concurrent reassemblies are isolated under every interleaving).
// Public API only. Differential: real Decapsulator+SimpleGseMemory against an independent model,
// plus explicit property assertions (each PDU delivered exactly once, at its own end fragment,
// intact, with its own metadata; strays never alter a reassembly in progress).
#![allow(dead_code)]
#![allow(clippy::all)]

use dvb_gse_rust::crc::DefaultCrc;
use dvb_gse_rust::gse_decap::{
    DecapError, DecapMemoryError, DecapMetadata, DecapStatus, Decapsulator, GseDecapMemory,
    SimpleGseMemory,
};
use dvb_gse_rust::gse_encap::{EncapMetadata, EncapStatus, Encapsulator};
use dvb_gse_rust::header_extension::{
    Extension, MandatoryHeaderExt, MandatoryHeaderExtensionManager,
};
use dvb_gse_rust::label::Label;

// ------------------------------------------------------------------ rng
#[derive(Clone)]
struct Rng(u64);
impl Rng {
    fn new(seed: u64) -> Self {
        Rng(seed.wrapping_mul(0x9E37_79B9_7F4A_7C15) | 1)
    }
    fn next(&mut self) -> u64 {
        let mut x = self.0;
        x ^= x << 13;
        x ^= x >> 7;
        x ^= x << 17;
        self.0 = x;
        x.wrapping_mul(0x2545_F491_4F6C_DD1D)
    }
    fn below(&mut self, n: usize) -> usize {
        ((self.next() >> 11) as usize) % n
    }
    fn range(&mut self, lo: usize, hi: usize) -> usize {
        lo + self.below(hi - lo + 1)
    }
    fn chance(&mut self, num: usize, den: usize) -> bool {
        self.below(den) < num
    }
    fn bytes(&mut self, n: usize) -> Vec<u8> {
        (0..n).map(|_| self.next() as u8).collect()
    }
}

fn scale() -> usize {
    std::env::var("HARNESS_SCALE")
        .ok()
        .and_then(|s| s.parse().ok())
        .unwrap_or(1)
}
fn base_seed() -> u64 {
    std::env::var("HARNESS_SEED")
        .ok()
        .and_then(|s| s.parse().ok())
        .unwrap_or(1)
}

// ------------------------------------------------------------------ mandatory extension manager
// ids 0x00..=0x08: non final, data length = id ; ids 0x10..=0x18: final, data length = id-0x10
// 0x81 / 0x82: final, no data ; everything else unknown
fn mh(id: u16) -> Option<(bool, usize)> {
    match id {
        0x00..=0x08 => Some((false, id as usize)),
        0x10..=0x18 => Some((true, (id - 0x10) as usize)),
        0x81 | 0x82 => Some((true, 0)),
        _ => None,
    }
}
#[derive(Clone, Copy)]
struct Mhem;
impl MandatoryHeaderExtensionManager for Mhem {
    fn is_mandatory_header_id_known(&self, id: u16) -> MandatoryHeaderExt {
        match mh(id) {
            None => MandatoryHeaderExt::Unknown,
            Some((true, n)) => MandatoryHeaderExt::Final(n as u8),
            Some((false, n)) => MandatoryHeaderExt::NonFinal(n as u8),
        }
    }
}

// ------------------------------------------------------------------ independent crc (bitwise CRC-32/MPEG-2)
fn crc_bits(crc: u32, data: &[u8]) -> u32 {
    let mut crc = crc;
    for b in data {
        crc ^= (*b as u32) << 24;
        for _ in 0..8 {
            crc = if crc & 0x8000_0000 != 0 {
                (crc << 1) ^ 0x04C1_1DB7
            } else {
                crc << 1
            };
        }
    }
    crc
}
fn gse_crc(total_len: u16, ptype: u16, label: &[u8], pdu: &[u8]) -> u32 {
    let mut c = crc_bits(0xFFFF_FFFF, &total_len.to_be_bytes());
    c = crc_bits(c, &ptype.to_be_bytes());
    c = crc_bits(c, label);
    crc_bits(c, pdu)
}

// ------------------------------------------------------------------ hand serializers
fn be16(b: &[u8]) -> u16 {
    u16::from_be_bytes([b[0], b[1]])
}
fn hdr(s: bool, e: bool, lt: u16, gse_len: usize) -> [u8; 2] {
    assert!(gse_len <= 0xFFF);
    let h: u16 = ((s as u16) << 15) | ((e as u16) << 14) | ((lt & 3) << 12) | gse_len as u16;
    h.to_be_bytes()
}
fn lt_of(l: &Label) -> u16 {
    match l {
        Label::SixBytesLabel(_) => 0,
        Label::ThreeBytesLabel(_) => 1,
        Label::Broadcast => 2,
        Label::ReUse => 3,
    }
}
fn mk_inter(id: u8, payload: &[u8]) -> Vec<u8> {
    let mut v = hdr(false, false, 3, 1 + payload.len()).to_vec();
    v.push(id);
    v.extend_from_slice(payload);
    v
}
fn mk_end(id: u8, payload: &[u8], crc: u32) -> Vec<u8> {
    let mut v = hdr(false, true, 3, 1 + payload.len() + 4).to_vec();
    v.push(id);
    v.extend_from_slice(payload);
    v.extend_from_slice(&crc.to_be_bytes());
    v
}
/// `type_field` is the protocol type or the first extension id, `tail` everything after the label
fn mk_complete(label: &Label, type_field: u16, tail: &[u8]) -> Vec<u8> {
    let lb = label.get_bytes();
    let mut v = hdr(true, true, lt_of(label), 2 + lb.len() + tail.len()).to_vec();
    v.extend_from_slice(&type_field.to_be_bytes());
    v.extend_from_slice(lb);
    v.extend_from_slice(tail);
    v
}
fn mk_first(label: &Label, id: u8, total_len: u16, type_field: u16, tail: &[u8]) -> Vec<u8> {
    let lb = label.get_bytes();
    let mut v = hdr(true, false, lt_of(label), 5 + lb.len() + tail.len()).to_vec();
    v.push(id);
    v.extend_from_slice(&total_len.to_be_bytes());
    v.extend_from_slice(&type_field.to_be_bytes());
    v.extend_from_slice(lb);
    v.extend_from_slice(tail);
    v
}
/// serialise an extension chain: returns (type_field, bytes that follow the label up to the pdu)
fn chain_bytes(exts: &[(u16, Vec<u8>)], ptype: u16) -> (u16, Vec<u8>) {
    if exts.is_empty() {
        return (ptype, vec![]);
    }
    let mut v = vec![];
    for (i, (_, d)) in exts.iter().enumerate() {
        v.extend_from_slice(d);
        if i + 1 < exts.len() {
            v.extend_from_slice(&exts[i + 1].0.to_be_bytes());
        }
    }
    let last = exts.last().unwrap().0;
    let is_final = last < 0x100 && matches!(mh(last), Some((true, _)));
    if !is_final {
        v.extend_from_slice(&ptype.to_be_bytes());
    }
    (exts[0].0, v)
}

// ------------------------------------------------------------------ the model
type MExt = (u16, Vec<u8>);
#[derive(Clone, Debug, PartialEq)]
struct MMeta {
    pdu_len: usize,
    ptype: u16,
    label: Label,
    exts: Vec<MExt>,
}
impl MMeta {
    fn to_real(&self) -> DecapMetadata {
        DecapMetadata::new(
            self.pdu_len,
            self.ptype,
            self.label,
            self.exts
                .iter()
                .map(|(i, d)| Extension::new(*i, d).unwrap())
                .collect(),
        )
    }
}
#[derive(Clone, Debug, PartialEq)]
enum MOut {
    Completed { buf_len: usize, pdu: Vec<u8>, meta: MMeta },
    Fragmented(MMeta),
    Padding,
}
#[derive(Clone, Debug)]
struct Reasm {
    id: u8,
    buf_size: usize,
    data: Vec<u8>,
    total_len: u16,
    label: Label,
    ptype: u16,
    exts: Vec<MExt>,
    reuse: bool,
}
#[derive(Clone, Debug)]
struct Model {
    slots: Vec<Option<Reasm>>,
    free: Vec<usize>,
    cap: usize,
    max_pdu: usize,
    last: Option<Label>,
}
enum WalkErr {
    TooSmall,
    Unknown,
}
fn walk(p: &[u8], first: u16) -> Result<(Vec<MExt>, u16, usize), WalkErr> {
    let mut off = 0;
    let mut t = first;
    let mut v = vec![];
    while t < 0x600 {
        let hl = ((t >> 8) & 7) as usize;
        let (n, fin) = if hl == 0 {
            match mh(t) {
                None => return Err(WalkErr::Unknown),
                Some((f, n)) => (n, f),
            }
        } else {
            ([0usize, 0, 2, 4, 6, 8][hl], false)
        };
        if p.len() < off + n {
            return Err(WalkErr::TooSmall);
        }
        v.push((t, p[off..off + n].to_vec()));
        off += n;
        if fin {
            break;
        }
        if p.len() < off + 2 {
            return Err(WalkErr::TooSmall);
        }
        t = be16(&p[off..]);
        off += 2;
    }
    Ok((v, t, off))
}
type MRes = Result<(MOut, usize), (&'static str, usize)>;
impl Model {
    fn new(slots: usize, max_pdu: usize) -> Self {
        Model {
            slots: vec![None; slots],
            free: vec![],
            cap: slots + 2,
            max_pdu,
            last: None,
        }
    }
    fn in_progress(&self) -> usize {
        self.slots.iter().filter(|s| s.is_some()).count()
    }
    /// Ok, Err("overflow"), Err("small")
    fn provision(&mut self, size: usize) -> Result<(), &'static str> {
        if self.free.len() == self.cap {
            return Err("overflow");
        }
        if size < self.max_pdu {
            return Err("small");
        }
        self.free.push(size);
        Ok(())
    }
    fn give_back(&mut self, size: usize) -> bool {
        self.provision(size).is_ok()
    }
    fn idx(&self, id: u8) -> usize {
        id as usize % self.slots.len()
    }
    fn holds(&self, id: u8) -> bool {
        matches!(&self.slots[self.idx(id)], Some(r) if r.id == id)
    }
    /// a rejected first fragment drops the pending reassembly of its own id only
    fn drop_pending(&mut self, id: u8) -> bool {
        if self.holds(id) {
            let i = self.idx(id);
            let r = self.slots[i].take().unwrap();
            return self.give_back(r.buf_size);
        }
        true
    }
    fn decap(&mut self, b: &[u8]) -> MRes {
        let bl = b.len();
        if bl < 2 {
            self.last = None;
            return Err(("SizeBuffer", bl));
        }
        let h = be16(b);
        let s = h & 0x8000 != 0;
        let e = h & 0x4000 != 0;
        let lt = ((h >> 12) & 3) as usize;
        let gl = (h & 0xFFF) as usize;
        if !s && !e && lt == 0 {
            self.last = None;
            return Ok((MOut::Padding, bl));
        }
        let pl = gl + 2;
        if bl < pl {
            self.last = None;
            return Err(("SizeBuffer", bl));
        }
        let ll = [6usize, 3, 0, 0][lt];
        match (s, e) {
            (true, true) => self.complete(b, lt, ll, gl, pl),
            (true, false) => self.first(b, lt, ll, gl, pl),
            (false, false) => self.inter(b, gl, pl),
            (false, true) => self.end(b, gl, pl),
        }
    }
    fn read_label(lt: usize, b: &[u8]) -> Label {
        match lt {
            0 => Label::SixBytesLabel(b[..6].try_into().unwrap()),
            1 => Label::ThreeBytesLabel(b[..3].try_into().unwrap()),
            2 => Label::Broadcast,
            _ => Label::ReUse,
        }
    }
    fn complete(&mut self, b: &[u8], lt: usize, ll: usize, gl: usize, pl: usize) -> MRes {
        let bl = b.len();
        if gl < ll + 2 {
            self.last = None;
            return Err(("GseLength", bl));
        }
        let tf = be16(&b[2..]);
        let label = Self::read_label(lt, &b[4..]);
        let off = 4 + ll;
        if label == Label::SixBytesLabel([0; 6]) {
            self.last = None;
            return Err(("InvalidLabel", pl));
        }
        let (exts, ptype, el) = if tf < 0x600 {
            match walk(&b[off..pl], tf) {
                Err(WalkErr::TooSmall) => {
                    self.last = None;
                    return Err(("SizePduBuffer", bl));
                }
                Err(WalkErr::Unknown) => {
                    self.last = None;
                    return Err(("UnknownMandatory", pl));
                }
                Ok(r) => r,
            }
        } else {
            (vec![], tf, 0)
        };
        let cur = match lt {
            3 => match self.last {
                Some(l) => l,
                None => return Err(("NoLabelSaved", pl)),
            },
            2 => {
                self.last = None;
                Label::Broadcast
            }
            _ => {
                self.last = Some(label);
                label
            }
        };
        let size = match self.free.pop() {
            Some(s) => s,
            None => {
                self.last = None;
                return Err(("Mem:Underflow", pl));
            }
        };
        if size + ll + el + 2 < gl {
            self.last = None;
            return if self.give_back(size) {
                Err(("SizePduBuffer", pl))
            } else {
                Err(("Mem:Overflow", pl))
            };
        }
        let n = gl - ll - el - 2;
        let meta = MMeta { pdu_len: n, ptype, label: cur, exts };
        Ok((
            MOut::Completed { buf_len: size, pdu: b[off + el..off + el + n].to_vec(), meta },
            pl,
        ))
    }
    fn first(&mut self, b: &[u8], lt: usize, ll: usize, gl: usize, pl: usize) -> MRes {
        let bl = b.len();
        if gl < ll + 5 {
            self.last = None;
            return Err(("GseLength", bl));
        }
        let id = b[2];
        let total_len = be16(&b[3..]);
        let tf = be16(&b[5..]);
        let label = Self::read_label(lt, &b[7..]);
        let off = 7 + ll;
        if label == Label::SixBytesLabel([0; 6]) {
            self.last = None;
            if !self.drop_pending(id) {
                return Err(("Mem:Overflow", pl));
            }
            return Err(("InvalidLabel", pl));
        }
        let cur = match lt {
            3 => match self.last {
                Some(l) => l,
                None => {
                    if !self.drop_pending(id) {
                        return Err(("Mem:Overflow", pl));
                    }
                    return Err(("NoLabelSaved", pl));
                }
            },
            2 => {
                self.last = None;
                Label::Broadcast
            }
            _ => {
                self.last = Some(label);
                label
            }
        };
        let (exts, ptype, el) = if tf < 0x600 {
            match walk(&b[off..pl], tf) {
                Err(WalkErr::TooSmall) => {
                    self.last = None;
                    if !self.drop_pending(id) {
                        return Err(("Mem:Overflow", bl));
                    }
                    return Err(("SizePduBuffer", bl));
                }
                Err(WalkErr::Unknown) => {
                    self.last = None;
                    if !self.drop_pending(id) {
                        return Err(("Mem:Overflow", pl));
                    }
                    return Err(("UnknownMandatory", pl));
                }
                Ok(r) => r,
            }
        } else {
            (vec![], tf, 0)
        };
        let n = gl - (5 + ll + el);
        if total_len as usize <= n {
            self.last = None;
            if !self.drop_pending(id) {
                return Err(("Mem:Overflow", bl));
            }
            return Err(("TotalLength", bl));
        }
        // claim the slot (whatever id it holds)
        let i = self.idx(id);
        let size = match self.slots[i].take() {
            Some(r) => r.buf_size,
            None => match self.free.pop() {
                Some(s) => s,
                None => {
                    self.last = None;
                    return Err(("Mem:Underflow", pl));
                }
            },
        };
        if size < n {
            self.last = None;
            return if self.give_back(size) {
                Err(("SizePduBuffer", pl))
            } else {
                Err(("Mem:Overflow", pl))
            };
        }
        let meta = MMeta { pdu_len: 0, ptype, label: cur, exts: exts.clone() };
        self.slots[i] = Some(Reasm {
            id,
            buf_size: size,
            data: b[off + el..off + el + n].to_vec(),
            total_len,
            label: cur,
            ptype,
            exts,
            reuse: lt == 3,
        });
        Ok((MOut::Fragmented(meta), pl))
    }
    fn inter(&mut self, b: &[u8], gl: usize, pl: usize) -> MRes {
        let bl = b.len();
        if gl <= 1 {
            self.last = None;
            return Err(("GseLength", bl));
        }
        let id = b[2];
        let n = gl - 1;
        if !self.holds(id) {
            return Err(("Mem:UndefinedId", pl));
        }
        let i = self.idx(id);
        let mut r = self.slots[i].take().unwrap();
        if r.buf_size - r.data.len() < n {
            return if self.give_back(r.buf_size) {
                Err(("SizePduBuffer", pl))
            } else {
                Err(("Mem:Overflow", pl))
            };
        }
        if r.data.len() + n > 0xFFFF {
            return if self.give_back(r.buf_size) {
                Err(("TotalLength", pl))
            } else {
                Err(("Mem:Overflow", pl))
            };
        }
        r.data.extend_from_slice(&b[3..3 + n]);
        let meta = MMeta { pdu_len: 0, ptype: r.ptype, label: r.label, exts: r.exts.clone() };
        self.slots[i] = Some(r);
        Ok((MOut::Fragmented(meta), pl))
    }
    fn end(&mut self, b: &[u8], gl: usize, pl: usize) -> MRes {
        let bl = b.len();
        if gl < 5 {
            self.last = None;
            return Err(("SizeBuffer", bl));
        }
        let id = b[2];
        let n = gl - 5;
        if !self.holds(id) {
            return Err(("Mem:UndefinedId", pl));
        }
        let i = self.idx(id);
        let mut r = self.slots[i].take().unwrap();
        if r.buf_size - r.data.len() < n {
            return if self.give_back(r.buf_size) {
                Err(("SizePduBuffer", pl))
            } else {
                Err(("Mem:Overflow", pl))
            };
        }
        r.data.extend_from_slice(&b[3..3 + n]);
        let crc_rx = u32::from_be_bytes(b[3 + n..3 + n + 4].try_into().unwrap());
        let lab: Vec<u8> = if r.reuse { vec![] } else { r.label.get_bytes().to_vec() };
        if r.total_len as usize != r.data.len() + 2 + lab.len() {
            return if self.give_back(r.buf_size) {
                Err(("TotalLength", pl))
            } else {
                Err(("Mem:Overflow", pl))
            };
        }
        if gse_crc(r.total_len, r.ptype, &lab, &r.data) != crc_rx {
            return if self.give_back(r.buf_size) {
                Err(("Crc", pl))
            } else {
                Err(("Mem:Overflow", pl))
            };
        }
        let meta = MMeta { pdu_len: r.data.len(), ptype: r.ptype, label: r.label, exts: r.exts };
        Ok((MOut::Completed { buf_len: r.buf_size, pdu: r.data, meta }, pl))
    }
}

// ------------------------------------------------------------------ real + model side by side
fn err_name(e: &DecapError) -> &'static str {
    match e {
        DecapError::ErrorSizeBuffer => "SizeBuffer",
        DecapError::ErrorTotalLength => "TotalLength",
        DecapError::ErrorGseLength => "GseLength",
        DecapError::ErrorSizePduBuffer => "SizePduBuffer",
        DecapError::ErrorProtocolType => "ProtocolType",
        DecapError::ErrorMemory(m) => match m {
            DecapMemoryError::StorageOverflow(_) => "Mem:Overflow",
            DecapMemoryError::StorageUnderflow => "Mem:Underflow",
            DecapMemoryError::UndefinedId => "Mem:UndefinedId",
            DecapMemoryError::BufferTooSmall(_) => "Mem:BufferTooSmall",
            DecapMemoryError::MemoryCorrupted => "Mem:Corrupted",
        },
        DecapError::ErrorCrc => "Crc",
        DecapError::ErrorInvalidLabel => "InvalidLabel",
        DecapError::ErrorNoLabelSaved => "NoLabelSaved",
        DecapError::ErrorLabelBroadcastSaved => "LabelBroadcastSaved",
        DecapError::ErrorLabelReUseSaved => "LabelReUseSaved",
        DecapError::ErrorUnkownMandatoryHeader => "UnknownMandatory",
    }
}

#[derive(Debug, Clone, PartialEq)]
enum Fed {
    Completed(Vec<u8>, DecapMetadata),
    Frag,
    Padding,
    Err(&'static str),
}

struct Rx {
    real: Decapsulator<SimpleGseMemory, DefaultCrc, Mhem>,
    model: Model,
    steps: u64,
    deliveries: u64,
    errors: u64,
}

impl Rx {
    fn new(slots: usize, max_pdu: usize) -> Self {
        Rx {
            real: Decapsulator::new(SimpleGseMemory::new(slots, max_pdu, 0, 0), DefaultCrc, Mhem),
            model: Model::new(slots, max_pdu),
            steps: 0,
            deliveries: 0,
            errors: 0,
        }
    }
    fn provision(&mut self, size: usize) -> bool {
        let r = self.real.provision_storage(vec![0xEE; size].into_boxed_slice());
        let m = self.model.provision(size);
        match (&r, &m) {
            (Ok(()), Ok(())) => true,
            (Err(DecapMemoryError::StorageOverflow(_)), Err("overflow")) => false,
            (Err(DecapMemoryError::BufferTooSmall(_)), Err("small")) => false,
            _ => panic!("provision({size}) disagrees: real {:?} model {:?}", r.is_ok(), m),
        }
    }
    /// the memory owns `owned` buffers (free + in progress) after this call, if the free list allows
    fn keep_owned(&mut self, owned: usize, size: usize) {
        while self.model.free.len() + self.model.in_progress() < owned {
            if !self.provision(size) {
                break;
            }
        }
    }
    fn top_up(&mut self, size: usize) {
        while self.model.free.len() < self.model.cap {
            assert!(self.provision(size));
        }
        assert!(!self.provision(size));
    }
    /// feed one buffer; asserts real == model; returns simplified outcome and consumed length
    fn feed(&mut self, b: &[u8]) -> (Fed, usize) {
        self.steps += 1;
        let r = self.real.decap(b);
        let m = self.model.decap(b);
        match (r, m) {
            (Ok((DecapStatus::Padding, n)), Ok((MOut::Padding, mn))) => {
                assert_eq!(n, mn, "padding length");
                (Fed::Padding, n)
            }
            (Ok((DecapStatus::FragmentedPkt(meta), n)), Ok((MOut::Fragmented(mm), mn))) => {
                assert_eq!(n, mn, "frag length");
                assert_eq!(meta, mm.to_real(), "fragment metadata");
                (Fed::Frag, n)
            }
            (
                Ok((DecapStatus::CompletedPkt(buf, meta), n)),
                Ok((MOut::Completed { buf_len, pdu, meta: mm }, mn)),
            ) => {
                self.deliveries += 1;
                assert_eq!(n, mn, "completed length");
                assert_eq!(meta, mm.to_real(), "completed metadata");
                assert_eq!(buf.len(), buf_len, "storage handed out");
                assert_eq!(meta.pdu_len(), pdu.len());
                assert!(buf[..pdu.len()] == pdu[..], "pdu content differs from model");
                (Fed::Completed(pdu, meta), n)
            }
            (Err((e, n)), Err((me, mn))) => {
                self.errors += 1;
                assert_eq!((err_name(&e), n), (me, mn), "error kind / consumed length");
                (Fed::Err(me), n)
            }
            (r, m) => panic!(
                "real and model disagree on {:02x?}..(len {}):\n real  {:?}\n model {:?}",
                &b[..b.len().min(16)],
                b.len(),
                r.map(|(s, n)| (s.to_str(), n)).map_err(|(e, n)| (err_name(&e), n)),
                m.map(|(o, n)| (format!("{:?}", o).chars().take(120).collect::<String>(), n))
            ),
        }
    }
    /// destructive comparison of the whole memory state (contexts of every id, free list in LIFO order)
    fn compare_state(mut self) {
        for id in 0..=255u8 {
            let r = self.real.memory.take_frag(id);
            if self.model.holds(id) {
                let i = self.model.idx(id);
                let m = self.model.slots[i].take().unwrap();
                let (ctx, buf) = r.unwrap_or_else(|_| panic!("real lost context of id {id}"));
                assert_eq!(ctx.frag_id, id);
                assert_eq!(ctx.pdu_len as usize, m.data.len(), "accumulated length id {id}");
                assert_eq!(ctx.total_len, m.total_len);
                assert_eq!(ctx.protocol_type, m.ptype);
                assert_eq!(ctx.label, m.label);
                assert_eq!(ctx.from_label_reuse, m.reuse);
                assert_eq!(buf.len(), m.buf_size);
                assert!(buf[..m.data.len()] == m.data[..], "accumulated data id {id}");
                let ex: Vec<Extension> =
                    m.exts.iter().map(|(i, d)| Extension::new(*i, d).unwrap()).collect();
                assert_eq!(ctx.extensions_header, ex);
            } else {
                assert!(r.is_err(), "real holds a context for id {id}, model does not");
            }
        }
        assert_eq!(self.model.in_progress(), 0);
        while let Some(sz) = self.model.free.pop() {
            let b = self.real.new_pdu().expect("real free list shorter than model");
            assert_eq!(b.len(), sz, "free list order/size");
        }
        assert!(self.real.new_pdu().is_err(), "real free list longer than model");
    }
    fn snapshot_compare(&self) {
        let c = Rx {
            real: Decapsulator::new(self.real.memory.clone(), DefaultCrc, Mhem),
            model: self.model.clone(),
            steps: 0,
            deliveries: 0,
            errors: 0,
        };
        c.compare_state();
    }
}

// ------------------------------------------------------------------ PDU generation with the real encapsulator
const OPT_IDS: [u16; 9] = [0x0100, 0x01FF, 0x0200, 0x02AB, 0x0300, 0x03FF, 0x0400, 0x0500, 0x05FF];
fn opt_len(id: u16) -> usize {
    [0usize, 0, 2, 4, 6, 8][(id >> 8) as usize]
}
const PTYPES: [u16; 7] = [0x0600, 0x0601, 0x0800, 0x86DD, 0x8100, 0xFFFE, 0xFFFF];

fn rand_label(r: &mut Rng) -> Label {
    match r.below(8) {
        0 => Label::Broadcast,
        1 => Label::ThreeBytesLabel([0, 0, 0]),
        2 => Label::ThreeBytesLabel([r.next() as u8, r.next() as u8, r.next() as u8]),
        3 => Label::SixBytesLabel([0, 0, 0, 0, 0, 1]),
        4 => Label::SixBytesLabel([1, 0, 0, 0, 0, 0]),
        5 => Label::ThreeBytesLabel([0xFF, 0xFF, 0xFF]),
        _ => {
            let mut l = [0u8; 6];
            for b in l.iter_mut() {
                *b = r.next() as u8;
            }
            l[5] |= 1;
            Label::SixBytesLabel(l)
        }
    }
}
/// random extension chain + protocol type valid for encap_ext (possibly empty chain)
fn rand_chain(r: &mut Rng) -> (Vec<MExt>, u16) {
    let mut exts: Vec<MExt> = vec![];
    let mut ptype = PTYPES[r.below(PTYPES.len())];
    if r.chance(1, 2) {
        return (exts, ptype);
    }
    let n = r.range(0, 3);
    for _ in 0..n {
        if r.chance(2, 3) {
            let id = OPT_IDS[r.below(OPT_IDS.len())];
            exts.push((id, r.bytes(opt_len(id))));
        } else {
            let id = r.range(0, 8) as u16;
            exts.push((id, r.bytes(id as usize)));
        }
    }
    if r.chance(1, 3) || exts.is_empty() {
        if r.chance(1, 2) {
            let id = 0x10 + r.range(0, 8) as u16;
            exts.push((id, r.bytes((id - 0x10) as usize)));
            ptype = id;
        } else if r.chance(1, 2) {
            let id = if r.chance(1, 2) { 0x81 } else { 0x82 };
            exts.push((id, vec![]));
            ptype = id;
        } else {
            let id = OPT_IDS[r.below(OPT_IDS.len())];
            exts.push((id, r.bytes(opt_len(id))));
        }
    }
    (exts, ptype)
}

#[derive(Clone, Debug)]
struct Inst {
    id: u8,
    data: Vec<u8>,
    meta: DecapMetadata,
    frags: Vec<Vec<u8>>,
}

/// fragment `data` with the real encapsulator. `cuts[i]` = pdu bytes wanted in fragment i (the end
/// fragment gets whatever is left, in a buffer `last_buf` long; more intermediates are produced if it
/// does not fit).
fn build(
    enc: &mut Encapsulator<DefaultCrc>,
    id: u8,
    data: &[u8],
    label: Label,
    exts: &[MExt],
    ptype: u16,
    cuts: &[usize],
    last_buf: usize,
    wire_label_len: usize,
) -> Inst {
    let real_exts: Vec<Extension> =
        exts.iter().map(|(i, d)| Extension::new(*i, d).unwrap()).collect();
    let mut ext_len: usize = exts.iter().map(|(_, d)| 2 + d.len()).sum();
    if ptype < 0x100 {
        ext_len -= 2;
    }
    let md = EncapMetadata::new(ptype, label);
    let first_len = 7 + wire_label_len + ext_len + cuts[0];
    let mut buf = vec![0u8; first_len.max(last_buf).max(16)];
    let st = if exts.is_empty() {
        enc.encap(data, id, md, &mut buf[..first_len])
    } else {
        enc.encap_ext(data, id, md, &mut buf[..first_len], real_exts.clone())
    };
    let mut frags = vec![];
    let mut ctx = match st {
        Ok(EncapStatus::FragmentedPkt(n, c)) => {
            frags.push(buf[..n as usize].to_vec());
            c
        }
        other => panic!("expected a first fragment, got {:?} (pdu {} cut {})", other, data.len(), cuts[0]),
    };
    let mut k = 1;
    loop {
        let blen = if k < cuts.len() { 3 + cuts[k] } else { last_buf };
        let mut b = vec![0u8; blen];
        match enc.encap_frag(data, &ctx, &mut b) {
            Ok(EncapStatus::FragmentedPkt(n, c)) => {
                frags.push(b[..n as usize].to_vec());
                ctx = c;
            }
            Ok(EncapStatus::CompletedPkt(n)) => {
                frags.push(b[..n as usize].to_vec());
                break;
            }
            Err(e) => panic!("encap_frag failed: {:?} (blen {blen})", e),
        }
        k += 1;
        assert!(k < 100);
    }
    let expected_label = label;
    Inst {
        id,
        data: data.to_vec(),
        meta: DecapMetadata::new(data.len(), ptype, expected_label, real_exts),
        frags,
    }
}

/// small random PDU cut in exactly `nfrag` fragments (2..=5)
fn small_inst(r: &mut Rng, enc: &mut Encapsulator<DefaultCrc>, id: u8, nfrag: usize) -> Inst {
    loop {
        let len = r.range(4 + 2 * nfrag, 70);
        let data = r.bytes(len);
        let label = rand_label(r);
        let (exts, ptype) = rand_chain(r);
        // split len into nfrag parts: first <= len-4, intermediates >= 1, last >= 0
        let mut cuts = vec![r.range(0, len - 4 - (nfrag - 2))];
        let mut left = len - cuts[0];
        for k in 1..nfrag - 1 {
            let keep = nfrag - 2 - k; // intermediates still to come
            let c = r.range(1, left - keep);
            cuts.push(c);
            left -= c;
        }
        let inst = build(enc, id, &data, label, &exts, ptype, &cuts, left + 7 + r.below(3), label.len());
        if inst.frags.len() == nfrag {
            return inst;
        }
    }
}

// ------------------------------------------------------------------ merges
fn all_merges(counts: &[usize], limit: usize) -> Option<Vec<Vec<usize>>> {
    fn rec(left: &mut Vec<usize>, cur: &mut Vec<usize>, out: &mut Vec<Vec<usize>>, limit: usize) -> bool {
        if left.iter().all(|c| *c == 0) {
            out.push(cur.clone());
            return out.len() <= limit;
        }
        for i in 0..left.len() {
            if left[i] > 0 {
                left[i] -= 1;
                cur.push(i);
                let ok = rec(left, cur, out, limit);
                cur.pop();
                left[i] += 1;
                if !ok {
                    return false;
                }
            }
        }
        true
    }
    let mut out = vec![];
    if rec(&mut counts.to_vec(), &mut vec![], &mut out, limit) {
        Some(out)
    } else {
        None
    }
}
fn random_merge(r: &mut Rng, counts: &[usize]) -> Vec<usize> {
    let mut left = counts.to_vec();
    let mut total: usize = left.iter().sum();
    let mut out = vec![];
    while total > 0 {
        let mut k = r.below(total);
        for i in 0..left.len() {
            if k < left[i] {
                left[i] -= 1;
                out.push(i);
                break;
            }
            k -= left[i];
        }
        total -= 1;
    }
    out
}

// ------------------------------------------------------------------ scenario runner
#[derive(Clone, Copy, Debug, PartialEq)]
enum Kind {
    First,
    Mid,
    Last,
    /// a first fragment of instance's id that the receiver must reject before it claims the slot
    RejFirst,
}
#[derive(Clone, Debug)]
struct Pkt {
    bytes: Vec<u8>,
    inst: usize,
    kind: Kind,
}
fn seq_of(insts: &[Inst], i: usize, upto: usize) -> Vec<Pkt> {
    let n = insts[i].frags.len();
    (0..upto.min(n))
        .map(|k| Pkt {
            bytes: insts[i].frags[k].clone(),
            inst: i,
            kind: if k == 0 {
                Kind::First
            } else if k == n - 1 {
                Kind::Last
            } else {
                Kind::Mid
            },
        })
        .collect()
}

#[derive(Clone, Copy, Debug, PartialEq)]
enum Policy {
    /// the memory owns a constant number of buffers
    Owned(usize),
    /// the free list is refilled to capacity after every packet (exactly full)
    TopUp,
}
#[derive(Clone, Debug)]
struct Cfg {
    /// number of PDUs the scenario keeps in progress at most
    pdus: usize,
    slots: usize,
    max_pdu: usize,
    storage: usize,
    policy: Policy,
}
#[derive(Default, Debug, Clone)]
struct Stats {
    runs: u64,
    packets: u64,
    deliveries: u64,
    rejected: u64,
}
impl Stats {
    fn add(&mut self, rx: &Rx) {
        self.runs += 1;
        self.packets += rx.steps;
        self.deliveries += rx.deliveries;
        self.rejected += rx.errors;
    }
}

/// Runs `seqs` merged by `order`, with `strays[p]` fed before the p-th packet of the merge
/// (strays[len] after the last). Reference semantics for the sequences:
///  - a First claims slot id%slots, evicting whatever instance is there;
///  - Mid/Last is accepted iff the slot still holds this very instance; Last then delivers it;
///  - RejFirst is rejected and clears the slot iff it holds an instance with the same id.
/// Strays are judged by the model only (and must leave every holder in place, which the following
/// packets then prove).
fn run(
    cfg: &Cfg,
    insts: &[Inst],
    seqs: &[Vec<Pkt>],
    order: &[usize],
    strays: &[Vec<Vec<u8>>],
    frames: Option<&mut Rng>,
    stats: &mut Stats,
) {
    let mut rx = Rx::new(cfg.slots, cfg.max_pdu);
    let refill = |rx: &mut Rx| match cfg.policy {
        Policy::Owned(n) => rx.keep_owned(n, cfg.storage),
        Policy::TopUp => rx.top_up(cfg.storage),
    };
    refill(&mut rx);
    let mut holder: Vec<Option<usize>> = vec![None; cfg.slots];
    let mut delivered = vec![0usize; insts.len()];
    let mut should = vec![0usize; insts.len()];
    let mut pos = vec![0usize; seqs.len()];

    // flatten into a list of (bytes, Option<Pkt ref>)
    let mut stream: Vec<(Vec<u8>, Option<Pkt>)> = vec![];
    for (p, s) in order.iter().enumerate() {
        if let Some(st) = strays.get(p) {
            for b in st {
                stream.push((b.clone(), None));
            }
        }
        stream.push((seqs[*s][pos[*s]].bytes.clone(), Some(seqs[*s][pos[*s]].clone())));
        pos[*s] += 1;
    }
    if let Some(st) = strays.get(order.len()) {
        for b in st {
            stream.push((b.clone(), None));
        }
    }

    let mut judge = |rx: &mut Rx, fed: Fed, pkt: &Option<Pkt>| {
        match pkt {
            None => {} // judged by the model inside feed()
            Some(p) => {
                let inst = &insts[p.inst];
                let idx = inst.id as usize % cfg.slots;
                match p.kind {
                    Kind::First => {
                        assert_eq!(fed, Fed::Frag, "first fragment of instance {} refused", p.inst);
                        holder[idx] = Some(p.inst);
                    }
                    Kind::RejFirst => {
                        assert!(matches!(fed, Fed::Err(_)), "RejFirst accepted: {:?}", fed);
                        if let Some(h) = holder[idx] {
                            if insts[h].id == inst.id {
                                holder[idx] = None;
                            }
                        }
                    }
                    Kind::Mid => {
                        if holder[idx] == Some(p.inst) {
                            assert_eq!(fed, Fed::Frag, "intermediate of live instance {} refused", p.inst);
                        } else {
                            assert_eq!(fed, Fed::Err("Mem:UndefinedId"), "fragment of evicted instance");
                        }
                    }
                    Kind::Last => {
                        if holder[idx] == Some(p.inst) {
                            should[p.inst] += 1;
                            holder[idx] = None;
                            match fed {
                                Fed::Completed(pdu, meta) => {
                                    assert!(pdu == inst.data, "instance {} delivered corrupted", p.inst);
                                    assert_eq!(meta, inst.meta, "instance {} wrong metadata", p.inst);
                                    delivered[p.inst] += 1;
                                }
                                other => panic!("instance {} not delivered at its end fragment: {:?}", p.inst, other),
                            }
                        } else {
                            assert_eq!(fed, Fed::Err("Mem:UndefinedId"), "end of evicted instance");
                        }
                    }
                }
            }
        }
        let _ = rx;
    };

    match frames {
        None => {
            for (b, pkt) in &stream {
                let (fed, n) = rx.feed(b);
                if pkt.is_some() {
                    assert_eq!(n, b.len(), "consumed length");
                }
                if let (None, Fed::Completed(..)) = (pkt, &fed) {}
                judge(&mut rx, fed, pkt);
                refill(&mut rx);
            }
        }
        Some(r) => {
            // group consecutive packets into frames, pad, walk with the returned lengths
            let mut i = 0;
            while i < stream.len() {
                let n = r.range(1, 5).min(stream.len() - i);
                let mut frame = vec![];
                let mut bounds = vec![];
                for k in 0..n {
                    bounds.push(frame.len());
                    frame.extend_from_slice(&stream[i + k].0);
                }
                let data_len = frame.len();
                let pad = [0usize, 1, 2, 3, 8, 64][r.below(6)];
                frame.extend(std::iter::repeat(0u8).take(pad));
                let mut off = 0;
                let mut k = 0;
                while off < frame.len() {
                    if frame.len() - off < 2 {
                        break; // a lone padding byte
                    }
                    let (fed, used) = rx.feed(&frame[off..]);
                    if off < data_len {
                        assert_eq!(off, bounds[k], "frame walk lost packet boundaries");
                        assert_eq!(used, stream[i + k].0.len(), "consumed length in frame");
                        let pkt = stream[i + k].1.clone();
                        judge(&mut rx, fed, &pkt);
                        k += 1;
                    } else {
                        assert_eq!(fed, Fed::Padding);
                        assert_eq!(used, frame.len() - off);
                    }
                    off += used;
                    refill(&mut rx);
                }
                assert_eq!(k, n, "not every packet of the frame was seen");
                i += n;
            }
        }
    }
    for i in 0..insts.len() {
        assert_eq!(delivered[i], should[i], "instance {i}: delivered {} expected {}", delivered[i], should[i]);
        assert!(delivered[i] <= 1);
    }
    stats.add(&rx);
    rx.compare_state();
}

// ------------------------------------------------------------------ strays
const N_STRAY: usize = 26;
/// `alias`: an id sharing a slot with a reassembly in progress (or any unused id when none exists)
/// `unk`: an id whose slot no instance ever uses (None when every slot is used)
/// `len_safe`: only strays whose rejection consumes exactly the packet (for frame walking)
fn stray(kind: usize, alias: u8, unk: Option<u8>, r: &mut Rng, cfg: &Cfg, len_safe: bool) -> Option<Vec<Vec<u8>>> {
    let pl = |r: &mut Rng| {
        let n = r.range(1, 12);
        r.bytes(n)
    };
    let six = Label::SixBytesLabel([9, 8, 7, 6, 5, 4]);
    let one = |v: Vec<u8>| Some(vec![v]);
    match kind {
        0 => one(mk_inter(alias, &pl(r))),
        1 => unk.map(|u| vec![mk_inter(u, &pl(r))]),
        2 => {
            let p = pl(r);
            one(mk_end(alias, &p, r.next() as u32))
        }
        3 => one(mk_end(alias, &[], r.next() as u32)),
        4 => unk.map(|u| {
            let p = pl(r);
            vec![mk_end(u, &p, 0)]
        }),
        5 => {
            let p = pl(r);
            let mut t = vec![];
            t.extend_from_slice(&p);
            one(mk_complete(&six, 0x0800, &t))
        }
        6 => {
            let (exts, ptype) = rand_chain(r);
            let (tf, mut t) = chain_bytes(&exts, ptype);
            t.extend_from_slice(&pl(r));
            one(mk_complete(&Label::Broadcast, tf, &t))
        }
        7 => one(mk_complete(&Label::SixBytesLabel([0; 6]), 0x0800, &pl(r))),
        8 => one(mk_complete(&six, 0x0042, &pl(r))),
        9 => one(mk_complete(&Label::ReUse, 0x0800, &pl(r))),
        10 => {
            if cfg.storage + 8 > 0xFFF {
                return None;
            }
            one(mk_complete(&six, 0x0800, &vec![0x55; cfg.storage + 1]))
        }
        11 => one(mk_first(&Label::SixBytesLabel([0; 6]), alias, 100, 0x0800, &pl(r))),
        12 => one(mk_first(&six, alias, 100, 0x0042, &pl(r))),
        13 => {
            if len_safe {
                return None;
            }
            let p = pl(r);
            one(mk_first(&six, alias, p.len() as u16, 0x0800, &p))
        }
        14 => {
            if len_safe {
                return None;
            }
            // a 1-byte buffer makes the receiver forget its label, then a re-use first fragment is refused
            Some(vec![vec![0x00], mk_first(&Label::ReUse, alias, 100, 0x0800, &pl(r))])
        }
        15 => {
            // valid first fragment of an id living in an unused slot: needs one spare buffer
            match (unk, cfg.policy) {
                (Some(u), Policy::TopUp) => Some(vec![mk_first(&six, u, 100, 0x0800, &pl(r))]),
                (Some(u), Policy::Owned(n)) if n > cfg.pdus => Some(vec![mk_first(&six, u, 100, 0x0800, &pl(r))]),
                _ => None,
            }
        }
        16 => {
            if len_safe {
                return None;
            }
            let mut v = mk_first(&six, alias, 100, 0x0800, &pl(r));
            v.truncate(v.len() - 1);
            one(v)
        }
        17 => {
            if len_safe {
                return None;
            }
            one(mk_inter(alias, &[]))
        }
        18 => {
            if len_safe {
                return None;
            }
            let n = r.range(0, 3);
            let mut v = hdr(false, true, 3, 1 + n).to_vec();
            v.push(alias);
            v.extend(r.bytes(n));
            one(v)
        }
        19 => {
            if len_safe {
                return None;
            }
            one(vec![0, 0, 0, 0])
        }
        20 => {
            if len_safe {
                return None;
            }
            // first fragment whose gse length cannot hold its own header
            let mut v = hdr(true, false, 0, 6).to_vec();
            v.push(alias);
            v.extend_from_slice(&[0, 50, 8, 0, 1]);
            one(v)
        }
        21 => one(mk_inter(alias, &vec![0xAA; 4094])),
        22 => {
            // extension chain running past the packet (rejected, consumes the buffer)
            if len_safe {
                return None;
            }
            one(mk_first(&six, alias, 100, 0x0500, &[1, 2, 3]))
        }
        23 => {
            // first fragment with a 3-byte all-zero label but unknown mandatory extension
            one(mk_first(&Label::ThreeBytesLabel([0; 3]), alias, 100, 0x00FF, &pl(r)))
        }
        24 => {
            // intermediate carrying other label-type bits (ignored by the receiver)
            let p = pl(r);
            let mut v = hdr(false, false, 1 + r.below(2) as u16, 1 + p.len()).to_vec();
            v.push(alias);
            v.extend_from_slice(&p);
            one(v)
        }
        25 => {
            // end with label type 00 (start=0,end=1 is not padding)
            let p = pl(r);
            let mut v = hdr(false, true, 0, 1 + p.len() + 4).to_vec();
            v.push(alias);
            v.extend_from_slice(&p);
            v.extend_from_slice(&[1, 2, 3, 4]);
            one(v)
        }
        _ => None,
    }
}

/// ids for `k` instances living in distinct slots, an alias of one of them, and an id of an unused slot
fn pick_ids(r: &mut Rng, slots: usize, k: usize) -> (Vec<u8>, Vec<u8>, Option<u8>) {
    assert!(k <= slots.min(256));
    let mut used_slots: Vec<usize> = vec![];
    let mut ids = vec![];
    while ids.len() < k {
        let id = r.below(256);
        let s = id % slots;
        if !used_slots.contains(&s) {
            used_slots.push(s);
            ids.push(id as u8);
        }
    }
    // aliases: for each id, some other id of the same slot (if any)
    let mut aliases = vec![];
    for id in &ids {
        let s = *id as usize % slots;
        let cands: Vec<usize> = (0..256).filter(|c| c % slots == s && *c != *id as usize).collect();
        if cands.is_empty() {
            // 256 slots or more: no alias exists, use an id of an unused slot instead
            let c: Vec<usize> = (0..256).filter(|c| !used_slots.contains(&(c % slots))).collect();
            aliases.push(c[r.below(c.len())] as u8);
        } else {
            aliases.push(cands[r.below(cands.len())] as u8);
        }
    }
    let free: Vec<usize> = (0..256).filter(|c| !used_slots.contains(&(c % slots))).collect();
    let unk = if free.is_empty() { None } else { Some(free[r.below(free.len())] as u8) };
    (ids, aliases, unk)
}

// ------------------------------------------------------------------ helpers for the tests
fn cfg_list(k: usize) -> Vec<Cfg> {
    let mut v = vec![];
    for slots in [k, k + 1, 7, 16, 255, 256] {
        if slots < k {
            continue;
        }
        for policy in [Policy::Owned(k), Policy::Owned(k + 2), Policy::TopUp] {
            for storage in [70usize, 128] {
                v.push(Cfg { pdus: k, slots, max_pdu: 70, storage, policy });
            }
        }
    }
    v
}
fn new_enc() -> Encapsulator<DefaultCrc> {
    let mut e = Encapsulator::new(DefaultCrc);
    e.disable_re_use_label();
    e
}
fn empty_strays(n: usize) -> Vec<Vec<Vec<u8>>> {
    vec![vec![]; n + 1]
}

/// every merge (or a sample) x every stray kind x every insertion position (or a sample)
fn isolation_case(r: &mut Rng, counts: &[usize], budget: usize, frames: bool, stats: &mut Stats) -> (usize, bool) {
    let k = counts.len();
    let cfgs = cfg_list(k);
    let total: usize = counts.iter().sum();
    let (merges, exhaustive) = match all_merges(counts, 3000) {
        Some(m) => (m, true),
        None => ((0..400).map(|_| random_merge(r, counts)).collect(), false),
    };
    let full = merges.len() * (total + 1) * N_STRAY;
    let per_merge = if full <= 5 * budget { (total + 1) * N_STRAY } else { (budget / merges.len()).max(3) };
    let all_pairs = per_merge == (total + 1) * N_STRAY;
    let mut enc = new_enc();
    let mut ci = r.below(cfgs.len());
    for (mi, order) in merges.iter().enumerate() {
        // a new set of PDUs / ids / memory every few merges
        let cfg = cfgs[ci % cfgs.len()].clone();
        ci += 1;
        let (ids, aliases, unk) = pick_ids(r, cfg.slots, k);
        let insts: Vec<Inst> = (0..k).map(|i| small_inst(r, &mut enc, ids[i], counts[i])).collect();
        let seqs: Vec<Vec<Pkt>> = (0..k).map(|i| seq_of(&insts, i, usize::MAX)).collect();
        if mi == 0 {
            // no stray at all
            run(&cfg, &insts, &seqs, order, &empty_strays(total), None, stats);
        }
        for j in 0..per_merge {
            let (kind, pos) = if all_pairs { (j % N_STRAY, j / N_STRAY) } else { (r.below(N_STRAY), r.below(total + 1)) };
            let alias = aliases[r.below(k)];
            let Some(s) = stray(kind, alias, unk, r, &cfg, frames) else { continue };
            let mut st = empty_strays(total);
            st[pos] = s;
            if frames {
                let mut fr = Rng::new(r.next());
                run(&cfg, &insts, &seqs, order, &st, Some(&mut fr), stats);
            } else {
                run(&cfg, &insts, &seqs, order, &st, None, stats);
            }
        }
        // one run with a stray at every position at once
        let mut st = empty_strays(total);
        for p in 0..=total {
            let kind = r.below(N_STRAY);
            if kind == 15 {
                continue;
            }
            if let Some(s) = stray(kind, aliases[r.below(k)], unk, r, &cfg, frames) {
                st[p] = s;
            }
        }
        if frames {
            let mut fr = Rng::new(r.next());
            run(&cfg, &insts, &seqs, order, &st, Some(&mut fr), stats);
        } else {
            run(&cfg, &insts, &seqs, order, &st, None, stats);
        }
    }
    (merges.len(), exhaustive && all_pairs)
}

#[test]
fn t1_isolation_all_interleavings_with_strays() {
    let mut r = Rng::new(base_seed() ^ 0x11);
    let budget = 120_000 * scale();
    let mut stats = Stats::default();
    let mut shapes: Vec<Vec<usize>> = vec![];
    for a in 2..=5 {
        for b in a..=5 {
            shapes.push(vec![a, b]);
        }
    }
    for s in [[2, 2, 2], [2, 3, 2], [3, 3, 3], [2, 2, 5], [4, 3, 2], [5, 5, 5], [5, 4, 3]] {
        shapes.push(s.to_vec());
    }
    for s in [[2, 2, 2, 2], [3, 2, 2, 2], [3, 3, 3, 3], [5, 5, 5, 5], [2, 3, 4, 5]] {
        shapes.push(s.to_vec());
    }
    for sh in &shapes {
        let before = stats.runs;
        let (m, exh) = isolation_case(&mut r, sh, budget, false, &mut stats);
        println!("t1 shape {:?}: {} merges ({}), {} runs", sh, m, if exh { "exhaustive merges x positions x stray kinds" } else if m < 400 || sh.iter().sum::<usize>() <= 9 && m != 400 { "exhaustive merges, sampled (position, stray kind)" } else { "sampled" }, stats.runs - before);
    }
    println!("t1 total {:?}", stats);
}

#[test]
fn t2_isolation_frame_walking_with_padding() {
    let mut r = Rng::new(base_seed() ^ 0x22);
    let budget = 40_000 * scale();
    let mut stats = Stats::default();
    for sh in [vec![2, 2], vec![3, 2], vec![3, 3], vec![5, 2], vec![2, 2, 2], vec![3, 3, 3], vec![2, 2, 2, 2], vec![4, 3, 5, 2]] {
        let before = stats.runs;
        let (m, _) = isolation_case(&mut r, &sh, budget, true, &mut stats);
        println!("t2 shape {:?}: {} merges, {} runs", sh, m, stats.runs - before);
    }
    println!("t2 total {:?}", stats);
}

/// two PDUs whose ids share a slot + bystanders: a first fragment claims the slot, evicting the other;
/// the evicted PDU's later fragments must be refused without harming the claimer nor the bystanders
#[test]
fn t3_aliasing_first_fragment_claims_slot() {
    let mut r = Rng::new(base_seed() ^ 0x33);
    let mut stats = Stats::default();
    let mut enc = new_enc();
    let shapes: Vec<Vec<usize>> = vec![
        vec![2, 2], vec![2, 3], vec![3, 3], vec![4, 4], vec![5, 5], vec![2, 2, 2], vec![3, 3, 2], vec![3, 3, 3],
        vec![2, 2, 2, 2], vec![3, 2, 3, 2], vec![5, 5, 3, 3],
    ];
    for sh in &shapes {
        let k = sh.len();
        let (merges, exh) = match all_merges(sh, 3000) {
            Some(m) => (m, true),
            None => ((0..1500 * scale()).map(|_| random_merge(&mut r, sh)).collect::<Vec<_>>(), false),
        };
        let before = stats.runs;
        for order in &merges {
            for rep in 0..3 {
                // slots: bystanders need their own slots; instance 0 and 1 alias
                let slots = [k - 1, k, 5, 16, 100, 128][r.below(6)].max(k - 1).max(1);
                let policy = [Policy::Owned(k), Policy::Owned(k - 1), Policy::TopUp][rep];
                let cfg = Cfg { pdus: k, slots, max_pdu: 70, storage: 70 + r.below(2) * 30, policy };
                // pick k-1 distinct slots, then alias instance 1 onto instance 0
                let (mut ids, aliases, unk) = pick_ids(&mut r, slots, k - 1);
                let a = aliases[0];
                if a as usize % slots != ids[0] as usize % slots {
                    continue; // no alias available (cannot happen with < 256 slots)
                }
                ids.insert(1, a);
                let insts: Vec<Inst> = (0..k).map(|i| small_inst(&mut r, &mut enc, ids[i], sh[i])).collect();
                let seqs: Vec<Vec<Pkt>> = (0..k).map(|i| seq_of(&insts, i, usize::MAX)).collect();
                let total: usize = sh.iter().sum();
                let mut st = empty_strays(total);
                if rep > 0 {
                    // strays on a third id of the shared slot, and on bystander aliases
                    for p in 0..=total {
                        if r.chance(1, 3) {
                            let kind = [0, 2, 3, 7, 8, 11, 12, 21, 23, 24, 25][r.below(11)];
                            let third = (0..256usize)
                                .filter(|c| c % slots == ids[0] as usize % slots && !ids.contains(&(*c as u8)))
                                .next();
                            let al = match third {
                                Some(t) if r.chance(1, 2) => t as u8,
                                _ => *aliases.last().unwrap(),
                            };
                            if ids.contains(&al) {
                                continue;
                            }
                            if let Some(s) = stray(kind, al, unk, &mut r, &cfg, false) {
                                st[p] = s;
                            }
                        }
                    }
                }
                run(&cfg, &insts, &seqs, order, &st, None, &mut stats);
            }
        }
        println!("t3 shape {:?}: {} merges ({}), {} runs", sh, merges.len(), if exh { "exhaustive" } else { "sampled" }, stats.runs - before);
    }
    println!("t3 total {:?}", stats);
}

fn rej_first(r: &mut Rng, id: u8) -> Vec<u8> {
    let p = r.bytes(5);
    match r.below(4) {
        0 => mk_first(&Label::SixBytesLabel([0; 6]), id, 100, 0x0800, &p),
        1 => mk_first(&Label::ThreeBytesLabel([1, 2, 3]), id, 100, 0x0099, &p),
        2 => mk_first(&Label::Broadcast, id, 5, 0x0800, &p),
        _ => mk_first(&Label::Broadcast, id, 100, 0x0400, &[1, 2]),
    }
}

/// a new first fragment on the same id (accepted or rejected) restarts / drops only that id
#[test]
fn t4_restart_same_id_only_that_id() {
    let mut r = Rng::new(base_seed() ^ 0x44);
    let mut stats = Stats::default();
    let mut enc = new_enc();
    let mut n_cases = 0u64;
    // sequence 0 = [P1 prefix j][restart][...], other sequences = bystanders
    for f1 in 2..=5usize {
        for j in 1..f1 {
            for f2 in 2..=4usize {
                for others in [vec![2usize], vec![3], vec![5], vec![2, 2], vec![3, 4], vec![2, 2, 2]] {
                    for variant in 0..3 {
                        // variant 0: accepted restart by P2 ; 1: rejected restart then P1's tail ; 2: rejected restart then P2
                        let k = 1 + others.len();
                        let slots = [k, k + 1, 9, 256][r.below(4)];
                        let policy = [Policy::Owned(k), Policy::Owned(k + 1), Policy::TopUp][r.below(3)];
                        let cfg = Cfg { pdus: k, slots, max_pdu: 70, storage: 70, policy };
                        let (ids, aliases, unk) = pick_ids(&mut r, slots, k);
                        let mut insts = vec![small_inst(&mut r, &mut enc, ids[0], f1)];
                        for (i, f) in others.iter().enumerate() {
                            insts.push(small_inst(&mut r, &mut enc, ids[i + 1], *f));
                        }
                        let p2 = insts.len();
                        insts.push(small_inst(&mut r, &mut enc, ids[0], f2));
                        let mut s0 = seq_of(&insts, 0, j);
                        match variant {
                            0 => s0.extend(seq_of(&insts, p2, usize::MAX)),
                            1 => {
                                s0.push(Pkt { bytes: rej_first(&mut r, ids[0]), inst: 0, kind: Kind::RejFirst });
                                // the tail of P1 now meets an empty slot
                                let tail: Vec<Pkt> = seq_of(&insts, 0, usize::MAX).into_iter().skip(j).collect();
                                s0.extend(tail);
                            }
                            _ => {
                                s0.push(Pkt { bytes: rej_first(&mut r, ids[0]), inst: 0, kind: Kind::RejFirst });
                                s0.extend(seq_of(&insts, p2, usize::MAX));
                            }
                        }
                        let mut seqs = vec![s0];
                        for i in 0..others.len() {
                            seqs.push(seq_of(&insts, i + 1, usize::MAX));
                        }
                        let counts: Vec<usize> = seqs.iter().map(|s| s.len()).collect();
                        let total: usize = counts.iter().sum();
                        let merges = match all_merges(&counts, 400) {
                            Some(m) => m,
                            None => (0..150).map(|_| random_merge(&mut r, &counts)).collect(),
                        };
                        for order in &merges {
                            let mut st = empty_strays(total);
                            if r.chance(1, 2) {
                                let p = r.below(total + 1);
                                let kind = [0, 2, 3, 7, 8, 11, 12, 21][r.below(8)];
                                if let Some(s) = stray(kind, aliases[r.below(k)], unk, &mut r, &cfg, false) {
                                    st[p] = s;
                                }
                            }
                            run(&cfg, &insts, &seqs, order, &st, None, &mut stats);
                        }
                        n_cases += 1;
                    }
                }
            }
        }
    }
    println!("t4 {} restart cases, total {:?}", n_cases, stats);
}

// ------------------------------------------------------------------ size corners
fn big_inst(r: &mut Rng, enc: &mut Encapsulator<DefaultCrc>, id: u8, len: usize, label: Label, with_ext: bool) -> Inst {
    let data = r.bytes(len);
    let (exts, ptype) = if with_ext {
        loop {
            let c = rand_chain(r);
            if !c.0.is_empty() {
                break c;
            }
        }
    } else {
        (vec![], PTYPES[r.below(PTYPES.len())])
    };
    let ext_len: usize = exts.iter().map(|(_, d)| 2 + d.len()).sum::<usize>() - if ptype < 0x100 { 2 } else { 0 };
    let fits_complete = len + label.len() + ext_len + 2 <= 4095;
    let mut cuts = vec![];
    let c0 = if fits_complete {
        r.range(0, len - 4)
    } else {
        [10usize, 4000, 4080, 4090, 4093, 4095, 4096, 5000, 70000][r.below(9)]
    };
    cuts.push(c0);
    let n_mid = r.below(4);
    for _ in 0..n_mid {
        cuts.push([1usize, 2, 100, 4000, 4093, 4094, 4095, 5000, 66000][r.below(9)]);
    }
    let last_buf = [4097usize, 4098, 4102, 5000, 70000][r.below(5)];
    build(enc, id, &data, label, &exts, ptype, &cuts, last_buf, label.len())
}

#[test]
fn t5_size_corners_interleaved() {
    let mut r = Rng::new(base_seed() ^ 0x55);
    let mut stats = Stats::default();
    let mut enc = new_enc();
    let labels = [Label::Broadcast, Label::ThreeBytesLabel([0, 0, 0]), Label::SixBytesLabel([0, 0, 0, 0, 0, 7])];
    let mut lens_seen = vec![];
    let mut frag_counts = vec![];
    for (li, label) in labels.iter().enumerate() {
        let max = 65535 - 2 - label.len();
        let mut lens: Vec<usize> = vec![max, max - 1, max - 2, 65533 - label.len() - 3, 8190, 8191];
        for l in 4084..=4100 {
            lens.push(l);
        }
        for (ci, len) in lens.iter().enumerate() {
            for rep in 0..(if *len > 9000 { 2 } else { 1 } * scale()) {
                let max_b = 65535 - 2 - labels[(li + 1) % 3].len();
                let len_b = [*len, 4093, 4097, 50, max_b][(ci + rep) % 5].min(max_b);
                let slots = [2usize, 3, 4, 256][(ci + li) % 4];
                let storage_kind = (ci + rep + li) % 3;
                let need = (*len).max(len_b);
                let (max_pdu, storage) = match storage_kind {
                    0 => (need, need),          // storage exactly the largest pdu
                    1 => (need, need + 1),
                    _ => (100, 70_000),         // storage larger than 65535
                };
                let policy = [Policy::Owned(3), Policy::TopUp, Policy::Owned(4)][(ci + rep) % 3];
                let cfg = Cfg { pdus: 3, slots: slots.max(3), max_pdu, storage, policy };
                let (ids, aliases, unk) = pick_ids(&mut r, cfg.slots, 3);
                let a = big_inst(&mut r, &mut enc, ids[0], *len, *label, rep % 2 == 1);
                let b = big_inst(&mut r, &mut enc, ids[1], len_b, labels[(li + 1) % 3], false);
                let nf = 2 + r.below(4);
                let c = small_inst(&mut r, &mut enc, ids[2], nf);
                frag_counts.push(a.frags.len());
                // every packet respects the 12-bit GSE length
                for f in a.frags.iter().chain(b.frags.iter()) {
                    assert!(f.len() <= 4097);
                    assert_eq!((be16(f) & 0xFFF) as usize + 2, f.len());
                }
                let insts = vec![a, b, c];
                let seqs: Vec<Vec<Pkt>> = (0..3).map(|i| seq_of(&insts, i, usize::MAX)).collect();
                let counts: Vec<usize> = seqs.iter().map(|s| s.len()).collect();
                let total: usize = counts.iter().sum();
                for m in 0..3 {
                    let order = random_merge(&mut r, &counts);
                    let mut st = empty_strays(total);
                    for _ in 0..(m * 3) {
                        let p = r.below(total + 1);
                        let kind = [0, 1, 2, 3, 4, 7, 8, 11, 12, 13, 21, 21, 25][r.below(13)];
                        if let Some(s) = stray(kind, aliases[r.below(3)], unk, &mut r, &cfg, false) {
                            st[p] = s;
                        }
                    }
                    if m == 2 {
                        let mut fr = Rng::new(r.next());
                        // only length-safe strays in frames
                        let mut st2 = empty_strays(total);
                        for _ in 0..4 {
                            let p = r.below(total + 1);
                            let kind = [0, 2, 3, 7, 8, 11, 12, 21, 25][r.below(9)];
                            if let Some(s) = stray(kind, aliases[r.below(3)], unk, &mut r, &cfg, true) {
                                st2[p] = s;
                            }
                        }
                        run(&cfg, &insts, &seqs, &order, &st2, Some(&mut fr), &mut stats);
                    } else {
                        run(&cfg, &insts, &seqs, &order, &st, None, &mut stats);
                    }
                }
                lens_seen.push(*len);
            }
        }
    }
    frag_counts.sort();
    println!(
        "t5 {} (len,label) cases, fragments per big pdu {}..{}, total {:?}",
        lens_seen.len(),
        frag_counts[0],
        frag_counts[frag_counts.len() - 1],
        stats
    );
}

/// storage smaller than one of the PDUs: that PDU fails alone, the others are delivered intact
#[test]
fn t5b_storage_smaller_than_one_pdu() {
    let mut r = Rng::new(base_seed() ^ 0x5B);
    let mut enc = new_enc();
    let mut cases = 0;
    let mut fail_at_first = 0;
    let mut fail_later = 0;
    for rep in 0..(300 * scale()) {
        let big = [200usize, 4093, 4097, 9000, 65533][rep % 5];
        let storage = [big - 1, big / 2, 100, big - 4][r.below(4)].max(80);
        let slots = r.range(3, 6);
        let mut rx = Rx::new(slots, 80);
        for _ in 0..3 {
            assert!(rx.provision(storage));
        }
        let (ids, aliases, _) = pick_ids(&mut r, slots, 3);
        let a = big_inst(&mut r, &mut enc, ids[0], big, Label::Broadcast, false);
        let nb = r.range(2, 5);
        let b = small_inst(&mut r, &mut enc, ids[1], nb);
        let nc = r.range(2, 5);
        let c = small_inst(&mut r, &mut enc, ids[2], nc);
        let insts = [a, b, c];
        let counts: Vec<usize> = insts.iter().map(|i| i.frags.len()).collect();
        let order = random_merge(&mut r, &counts);
        let mut pos = [0usize; 3];
        let mut got = [0usize; 3];
        let mut a_failed = false;
        for s in &order {
            if r.chance(1, 4) {
                rx.feed(&mk_inter(aliases[r.below(3)], &[1, 2, 3]));
            }
            let (fed, _) = rx.feed(&insts[*s].frags[pos[*s]]);
            let last = pos[*s] + 1 == insts[*s].frags.len();
            pos[*s] += 1;
            match (*s, fed) {
                (0, Fed::Err(e)) => {
                    if !a_failed {
                        assert_eq!(e, "SizePduBuffer");
                        if pos[0] == 1 { fail_at_first += 1 } else { fail_later += 1 }
                    } else {
                        assert_eq!(e, "Mem:UndefinedId");
                    }
                    a_failed = true;
                }
                (0, Fed::Frag) => assert!(!a_failed),
                (0, other) => panic!("oversized pdu: {:?}", other),
                (i, Fed::Completed(pdu, meta)) => {
                    assert!(last);
                    assert!(pdu == insts[i].data);
                    assert_eq!(meta, insts[i].meta);
                    got[i] += 1;
                    assert!(rx.provision(storage));
                }
                (_, Fed::Frag) => assert!(!last),
                (i, other) => panic!("bystander {i} disturbed: {:?}", other),
            }
        }
        assert!(a_failed);
        assert_eq!(got, [0, 1, 1]);
        rx.compare_state();
        cases += 1;
    }
    println!("t5b {cases} cases (oversized pdu refused at first fragment: {fail_at_first}, later: {fail_later})");
}

// ------------------------------------------------------------------ sender side label re-use
fn constrained_merges(counts: &[usize], limit: usize) -> Option<Vec<Vec<usize>>> {
    // merges where sequence i starts only after sequences < i have started
    let all = all_merges(counts, limit)?;
    Some(
        all.into_iter()
            .filter(|m| {
                let mut started = 0;
                for s in m {
                    if *s == started {
                        started += 1;
                    } else if *s > started {
                        return false;
                    }
                }
                true
            })
            .collect(),
    )
}
fn constrained_random(r: &mut Rng, counts: &[usize]) -> Vec<usize> {
    loop {
        let m = random_merge(r, counts);
        let mut started = 0;
        let mut ok = true;
        for s in &m {
            if *s == started {
                started += 1;
            } else if *s > started {
                ok = false;
                break;
            }
        }
        if ok {
            return m;
        }
    }
}

#[test]
fn t6_sender_label_reuse_interleaved() {
    let mut r = Rng::new(base_seed() ^ 0x66);
    let mut stats = Stats::default();
    let mut reuse_firsts = 0u64;
    let mut cases = 0u64;
    for shape in [vec![2usize, 2], vec![3, 2], vec![3, 3], vec![2, 2, 2], vec![3, 2, 4], vec![2, 3, 2, 3], vec![5, 5, 5, 5]] {
        let k = shape.len();
        for rep in 0..(30 * scale()) {
            let mut enc = Encapsulator::new(DefaultCrc);
            match rep % 3 {
                0 => {}
                1 => enc.enable_re_use_label_with_max_consecutive(1),
                _ => enc.enable_re_use_label_with_max_consecutive(2),
            }
            let pool = [
                Label::SixBytesLabel([1, 2, 3, 4, 5, 6]),
                Label::ThreeBytesLabel([0, 0, 0]),
                Label::SixBytesLabel([1, 2, 3, 4, 5, 6]),
                Label::Broadcast,
            ];
            let slots = [k, k + 3, 256][rep % 3];
            let cfg = Cfg { pdus: k, slots, max_pdu: 70, storage: 70, policy: [Policy::Owned(k + 1), Policy::TopUp][rep % 2] };
            let (ids, aliases, unk) = pick_ids(&mut r, slots, k);
            // sender order: first fragment of pdu i, then a complete packet with a re-usable label
            let mut insts = vec![];
            let mut completes: Vec<Vec<u8>> = vec![];
            for i in 0..k {
                let label = pool[r.below(if rep % 5 == 0 { 4 } else { 3 })];
                let len = r.range(16 + 2 * shape[i], 60);
                let data = r.bytes(len);
                let mut cuts = vec![r.range(0, 3)];
                for _ in 0..shape[i] - 2 {
                    cuts.push(r.range(1, 3));
                }
                let (exts, ptype) = rand_chain(&mut r);
                let inst = build(&mut enc, ids[i], &data, label, &exts, ptype, &cuts, 80, 6);
                if inst.frags[0][0] & 0x30 == 0x30 {
                    reuse_firsts += 1;
                }
                insts.push(inst);
                // complete packet emitted by the same sender right after this first fragment
                let mut cb = vec![0u8; 40];
                let cl = pool[r.below(3)];
                match enc.encap(&r.bytes(5), 0, EncapMetadata::new(0x0800, cl), &mut cb) {
                    Ok(EncapStatus::CompletedPkt(n)) => completes.push(cb[..n as usize].to_vec()),
                    o => panic!("{:?}", o),
                }
            }
            let seqs: Vec<Vec<Pkt>> = (0..k).map(|i| seq_of(&insts, i, usize::MAX)).collect();
            let counts: Vec<usize> = seqs.iter().map(|s| s.len()).collect();
            let total: usize = counts.iter().sum();
            let merges = match constrained_merges(&counts, 3000) {
                Some(m) if m.len() <= 200 => m,
                _ => (0..100).map(|_| constrained_random(&mut r, &counts)).collect(),
            };
            for order in &merges {
                let mut st = empty_strays(total);
                // the complete packet follows its first fragment immediately (keeps the sender's label order)
                let mut seen = vec![false; k];
                for (p, s) in order.iter().enumerate() {
                    if !seen[*s] {
                        seen[*s] = true;
                        st[p + 1].push(completes[*s].clone());
                    }
                }
                // label-neutral strays anywhere else
                for p in 0..=total {
                    if st[p].is_empty() && r.chance(1, 3) {
                        let kind = [0, 1, 2, 3, 4, 21, 24, 25][r.below(8)];
                        if let Some(s) = stray(kind, aliases[r.below(k)], unk, &mut r, &cfg, true) {
                            st[p] = s;
                        }
                    }
                }
                // no frame walking here: padding makes the receiver forget its label
                run(&cfg, &insts, &seqs, order, &st, None, &mut stats);
            }
            cases += 1;
        }
    }
    println!("t6 {cases} sender sessions, {reuse_firsts} first fragments carried a re-use label, total {:?}", stats);
}

// ------------------------------------------------------------------ random differential streams
struct Sender {
    enc: Encapsulator<DefaultCrc>,
    /// PDUs being sent: remaining fragments (front = next)
    active: Vec<(u8, Vec<Vec<u8>>)>,
}

fn random_raw(r: &mut Rng, m: &Model, ids: &[u8]) -> Vec<u8> {
    let id = ids[r.below(ids.len())];
    let labels = [
        Label::SixBytesLabel([0; 6]),
        Label::SixBytesLabel([0, 0, 0, 0, 0, 1]),
        Label::ThreeBytesLabel([0; 3]),
        Label::ThreeBytesLabel([7, 7, 7]),
        Label::Broadcast,
        Label::ReUse,
    ];
    let types = [0x0000u16, 0x0003, 0x0010, 0x0013, 0x0042, 0x0081, 0x00FF, 0x0100, 0x01FF, 0x0200, 0x0300, 0x0400, 0x0500, 0x05FF, 0x0600, 0x0601, 0x0800, 0xFFFF];
    let label = labels[r.below(labels.len())];
    let n = [0usize, 0, 1, 2, 3, 5, 8, 13, 30, 45][r.below(10)];
    let payload = r.bytes(n);
    // in-progress reassemblies, to craft (nearly) correct continuations
    let live: Vec<&Reasm> = m.slots.iter().flatten().collect();
    match r.below(12) {
        0 => mk_inter(id, &payload),
        1 => mk_end(id, &payload, r.next() as u32),
        2 | 3 => {
            // correct (or off by one) end for a live reassembly
            if live.is_empty() {
                return mk_inter(id, &payload);
            }
            let x = live[r.below(live.len())];
            let ll = if x.reuse { 0 } else { x.label.get_bytes().len() };
            let need = (x.total_len as usize).saturating_sub(2 + ll + x.data.len());
            let need = match r.below(6) {
                0 => need + 1,
                1 => need.saturating_sub(1),
                _ => need,
            };
            if need > 4090 {
                return mk_inter(x.id, &payload);
            }
            let p = r.bytes(need);
            let mut all = x.data.clone();
            all.extend_from_slice(&p);
            let lab: Vec<u8> = if x.reuse { vec![] } else { x.label.get_bytes().to_vec() };
            let mut crc = gse_crc(x.total_len, x.ptype, &lab, &all);
            if r.chance(1, 8) {
                crc ^= 1 << r.below(32);
            }
            let tid = if r.chance(1, 10) { id } else { x.id };
            mk_end(tid, &p, crc)
        }
        4 => {
            if live.is_empty() {
                return mk_inter(id, &payload);
            }
            let x = live[r.below(live.len())];
            mk_inter(x.id, &payload)
        }
        5 | 6 => {
            // first fragment, mostly consistent
            let (tf, mut tail) = if r.chance(1, 2) {
                let (e, p) = rand_chain(r);
                chain_bytes(&e, p)
            } else {
                (types[r.below(types.len())], vec![])
            };
            tail.extend_from_slice(&payload);
            let total = match r.below(5) {
                0 => r.below(4) as u16,
                1 => payload.len() as u16,
                _ => (payload.len() + r.range(1, 60)) as u16,
            };
            mk_first(&label, id, total, tf, &tail)
        }
        7 | 8 => {
            let (tf, mut tail) = if r.chance(1, 2) {
                let (e, p) = rand_chain(r);
                chain_bytes(&e, p)
            } else {
                (types[r.below(types.len())], vec![])
            };
            tail.extend_from_slice(&payload);
            mk_complete(&label, tf, &tail)
        }
        9 => {
            // arbitrary header, consistent buffer length
            let h = r.next() as u16;
            let gl = (h & 0xFFF) as usize % 40;
            let mut v = ((h & 0xF000) | gl as u16).to_be_bytes().to_vec();
            v.extend(r.bytes(gl));
            v
        }
        10 => {
            // truncated / too short buffers
            let mut v = mk_first(&label, id, 50, 0x0800, &payload);
            let cut = r.below(v.len());
            v.truncate(cut);
            v
        }
        _ => vec![0; r.below(5)],
    }
}

#[test]
fn t7_random_differential_streams() {
    let mut r = Rng::new(base_seed() ^ 0x77);
    let mut stats = Stats::default();
    let mut sender_delivered = 0u64;
    let sessions = 1500 * scale();
    for s in 0..sessions {
        let slots = [1usize, 2, 3, 4, 5, 8, 256][r.below(7)];
        let max_pdu = [0usize, 1, 20, 40][r.below(4)];
        let mut rx = Rx::new(slots, max_pdu);
        let ids: Vec<u8> = {
            let mut v: Vec<u8> = (0..4).map(|k| k as u8).collect();
            v.push(slots as u8);
            v.push((slots + 1) as u8);
            v.push((2 * slots % 256) as u8);
            v.push(255);
            v.push(254);
            v
        };
        let mut snd = Sender { enc: Encapsulator::new(DefaultCrc), active: vec![] };
        if s % 2 == 0 {
            snd.enc.disable_re_use_label();
        }
        let steps = r.range(20, 160);
        for step in 0..steps {
            // provisioning, sometimes generous, sometimes starving, sometimes too small
            match r.below(6) {
                0 => {
                    for _ in 0..r.range(1, slots.min(6) + 3) {
                        rx.provision(max_pdu + r.below(60));
                    }
                }
                1 => {
                    rx.provision(max_pdu.saturating_sub(1));
                }
                2 | 3 => {
                    rx.provision(max_pdu + r.below(60));
                }
                _ => {}
            }
            let from_sender = r.chance(2, 5);
            if from_sender {
                if snd.active.is_empty() || (snd.active.len() < 4 && r.chance(1, 3)) {
                    // start a new pdu on an id not in use at the sender
                    let cand: Vec<u8> = ids.iter().copied().filter(|i| !snd.active.iter().any(|a| a.0 == *i)).collect();
                    let id = cand[r.below(cand.len())];
                    let nfrag = r.range(2, 5);
                    let inst = {
                        // like small_inst but with the session's encapsulator (labels may be re-used)
                        let len = r.range(16 + 2 * nfrag, 60);
                        let data = r.bytes(len);
                        let label = [Label::SixBytesLabel([3; 6]), Label::ThreeBytesLabel([0; 3]), Label::Broadcast][r.below(3)];
                        let (exts, ptype) = rand_chain(&mut r);
                        let mut cuts = vec![r.range(0, 3)];
                        for _ in 0..nfrag - 2 {
                            cuts.push(r.range(1, 3));
                        }
                        build(&mut snd.enc, id, &data, label, &exts, ptype, &cuts, 80, 6)
                    };
                    snd.active.push((id, inst.frags));
                }
                let k = r.below(snd.active.len());
                let pkt = snd.active[k].1.remove(0);
                if snd.active[k].1.is_empty() {
                    snd.active.remove(k);
                }
                let (fed, _) = rx.feed(&pkt);
                if let Fed::Completed(..) = fed {
                    sender_delivered += 1;
                }
            } else {
                let raw = random_raw(&mut r, &rx.model, &ids);
                if raw.len() > 4097 {
                    continue;
                }
                rx.feed(&raw);
            }
            if step % 16 == 15 {
                rx.snapshot_compare();
            }
        }
        stats.add(&rx);
        rx.compare_state();
    }
    println!("t7 {sessions} sessions, {sender_delivered} encapsulator-made PDUs delivered amid noise, total {:?}", stats);
}

// ------------------------------------------------------------------ every memory size 1..=256
#[test]
fn t8_every_slot_count() {
    let mut r = Rng::new(base_seed() ^ 0x88);
    let mut stats = Stats::default();
    let mut enc = new_enc();
    for slots in (1..=256usize).chain([257, 300, 1000]) {
        for rep in 0..(2 * scale()) {
            let k = [1usize, 2, 3, 4][r.below(4)].min(slots);
            let policy = [Policy::Owned(k), Policy::TopUp, Policy::Owned(slots + 2)][(slots + rep) % 3];
            let cfg = Cfg { pdus: k, slots, max_pdu: 70, storage: 70 + r.below(10), policy };
            let (ids, aliases, unk) = pick_ids(&mut r, slots, k);
            let shape: Vec<usize> = (0..k).map(|_| r.range(2, 5)).collect();
            let insts: Vec<Inst> = (0..k).map(|i| small_inst(&mut r, &mut enc, ids[i], shape[i])).collect();
            let seqs: Vec<Vec<Pkt>> = (0..k).map(|i| seq_of(&insts, i, usize::MAX)).collect();
            let total: usize = shape.iter().sum();
            for _ in 0..6 {
                let order = random_merge(&mut r, &shape);
                let mut st = empty_strays(total);
                for p in 0..=total {
                    if r.chance(1, 2) {
                        let mut kind = r.below(N_STRAY);
                        if kind == 15 {
                            kind = 0;
                        }
                        if let Some(s) = stray(kind, aliases[r.below(k)], unk, &mut r, &cfg, false) {
                            st[p] = s;
                        }
                    }
                }
                run(&cfg, &insts, &seqs, &order, &st, None, &mut stats);
            }
        }
    }
    println!("t8 slots 1..=256, 257, 300, 1000, total {:?}", stats);
}

// ------------------------------------------------------------------ hand-fragmented PDUs (sizes the encapsulator never fragments)
fn hand_inst(r: &mut Rng, id: u8, len: usize, nfrag: usize) -> Inst {
    assert!(nfrag >= 2 && len + 2 >= nfrag);
    let data = r.bytes(len);
    let label = loop {
        let l = rand_label(r);
        if l != Label::ReUse {
            break l;
        }
    };
    let (exts, ptype) = rand_chain(r);
    let mids = nfrag - 2;
    let c0 = r.range(0, len - mids);
    let mut cuts = vec![c0];
    let mut left = len - c0;
    for k in 0..mids {
        let keep = mids - 1 - k;
        let c = r.range(1, left - keep);
        cuts.push(c);
        left -= c;
    }
    cuts.push(left);
    let total_len = (len + 2 + label.get_bytes().len()) as u16;
    let (tf, mut tail) = chain_bytes(&exts, ptype);
    let mut off = cuts[0];
    tail.extend_from_slice(&data[..off]);
    let mut frags = vec![mk_first(&label, id, total_len, tf, &tail)];
    for k in 1..nfrag - 1 {
        frags.push(mk_inter(id, &data[off..off + cuts[k]]));
        off += cuts[k];
    }
    frags.push(mk_end(id, &data[off..], gse_crc(total_len, ptype, label.get_bytes(), &data)));
    let real_exts: Vec<Extension> = exts.iter().map(|(i, d)| Extension::new(*i, d).unwrap()).collect();
    Inst { id, data, meta: DecapMetadata::new(len, ptype, label, real_exts), frags }
}

#[test]
fn t9_hand_fragmented_tiny_and_odd_pdus() {
    let mut r = Rng::new(base_seed() ^ 0x99);
    let mut stats = Stats::default();
    let mut cases = 0u64;
    let shapes: Vec<Vec<usize>> = vec![vec![2, 2], vec![2, 3], vec![3, 3], vec![2, 5], vec![4, 4], vec![2, 2, 2], vec![3, 2, 4], vec![2, 2, 2, 2]];
    for sh in &shapes {
        let k = sh.len();
        let total: usize = sh.iter().sum();
        let merges = all_merges(sh, 3000).unwrap();
        for order in &merges {
            for rep in 0..(4 * scale()) {
                let slots = [k, k + 1, 31, 256][rep % 4];
                let policy = [Policy::Owned(k), Policy::TopUp, Policy::Owned(k + 2)][r.below(3)];
                let cfg = Cfg { pdus: k, slots, max_pdu: 16, storage: 16 + r.below(3), policy };
                let (ids, aliases, unk) = pick_ids(&mut r, slots, k);
                let insts: Vec<Inst> = (0..k)
                    .map(|i| {
                        let len = (sh[i] - 2).max(r.below(8)).max(if r.chance(1, 4) { 0 } else { sh[i] - 2 });
                        hand_inst(&mut r, ids[i], len.min(16), sh[i])
                    })
                    .collect();
                let seqs: Vec<Vec<Pkt>> = (0..k).map(|i| seq_of(&insts, i, usize::MAX)).collect();
                let mut st = empty_strays(total);
                for p in 0..=total {
                    if r.chance(1, 3) {
                        let kind = r.below(N_STRAY);
                        if kind == 15 || kind == 10 {
                            continue;
                        }
                        if let Some(s) = stray(kind, aliases[r.below(k)], unk, &mut r, &cfg, rep % 2 == 1) {
                            st[p] = s;
                        }
                    }
                }
                if rep % 2 == 1 {
                    let mut fr = Rng::new(r.next());
                    run(&cfg, &insts, &seqs, order, &st, Some(&mut fr), &mut stats);
                } else {
                    run(&cfg, &insts, &seqs, order, &st, None, &mut stats);
                }
                cases += 1;
            }
        }
    }
    println!("t9 {cases} cases (pdu sizes 0..=16 cut by hand, zero-length first/end fragments), total {:?}", stats);
}

// ------------------------------------------------------------------ documented borderline behaviours (these tests PASS:
// they pin down what the code does today; whether it is acceptable depends on how the property is read)

/// B1. A first fragment of an aliasing id that is refused AFTER it obtained the slot (its payload does not fit
/// the storage buffer it stole) leaves the slot empty: the older reassembly of the other id is gone although
/// the packet was rejected. (The five rejections that happen before `new_frag` leave it in place.)
#[test]
fn borderline_b1_oversized_aliasing_first_fragment() {
    let slots = 4;
    let mut rx = Rx::new(slots, 32);
    assert!(rx.provision(32));
    assert!(rx.provision(32));
    let mut r = Rng::new(5);
    let victim = hand_inst(&mut r, 1, 20, 3);
    assert_eq!(rx.feed(&victim.frags[0]).0, Fed::Frag);
    assert_eq!(rx.feed(&victim.frags[1]).0, Fed::Frag);
    // id 5 shares slot 1 (5 % 4 == 1); 33 payload bytes do not fit the 32-byte storage
    let big = mk_first(&Label::Broadcast, 5, 200, 0x0800, &[0xAB; 33]);
    assert_eq!(rx.feed(&big).0, Fed::Err("SizePduBuffer"));
    // the victim's reassembly has disappeared
    assert_eq!(rx.feed(&victim.frags[2]).0, Fed::Err("Mem:UndefinedId"));
}

/// B2. A stray intermediate packet with an empty payload (gse_len == 1) or an end packet shorter than a CRC is
/// rejected with the whole buffer consumed: a frame walker loses the packets that follow in the same frame.
#[test]
fn borderline_b2_degenerate_stray_swallows_frame() {
    let mut rx = Rx::new(4, 32);
    assert!(rx.provision(32));
    let mut r = Rng::new(6);
    let v = hand_inst(&mut r, 1, 20, 2);
    assert_eq!(rx.feed(&v.frags[0]).0, Fed::Frag);
    let mut frame = mk_inter(9, &[]);
    frame.extend_from_slice(&v.frags[1]);
    let (fed, used) = rx.feed(&frame);
    assert_eq!(fed, Fed::Err("GseLength"));
    assert_eq!(used, frame.len()); // not 3: the end fragment of id 1 behind it is skipped
    // fed on its own, the end fragment still completes the PDU: the reassembly itself was not touched
    assert!(matches!(rx.feed(&v.frags[1]).0, Fed::Completed(..)));
}

// ------------------------------------------------------------------ exhaustive short packet sequences (model checking)
/// every sequence of length <= depth over an alphabet made of the fragments of two PDUs whose ids share a slot,
/// a third PDU in its own slot, rejected first fragments on each id, a complete packet and a stray end:
/// real and model must agree at every step and on the final memory state.
#[test]
fn t10_exhaustive_short_sequences() {
    let mut r = Rng::new(base_seed() ^ 0xAA);
    let depth = if cfg!(debug_assertions) { 5 } else { 6 };
    let slots = 2usize;
    let a = hand_inst(&mut r, 1, 9, 3);
    let b = hand_inst(&mut r, 3, 7, 3); // 3 % 2 == 1 % 2
    let c = hand_inst(&mut r, 2, 5, 2);
    let mut alphabet: Vec<Vec<u8>> = vec![];
    alphabet.extend(a.frags.iter().cloned());
    alphabet.extend(b.frags.iter().cloned());
    alphabet.extend(c.frags.iter().cloned());
    alphabet.push(mk_first(&Label::SixBytesLabel([0; 6]), 1, 50, 0x0800, &[1, 2, 3]));
    alphabet.push(mk_first(&Label::Broadcast, 3, 50, 0x0077, &[1, 2, 3]));
    alphabet.push(mk_complete(&Label::ThreeBytesLabel([0; 3]), 0x0800, &[9, 9]));
    alphabet.push(mk_end(5, &[1], 0));
    let n = alphabet.len();
    let mut count = 0u64;
    let mut deliveries = 0u64;
    let mut idx = vec![0usize; depth];
    'outer: loop {
        for owned in [2usize, 4] {
            let mut rx = Rx::new(slots, 9);
            rx.keep_owned(owned, 9);
            let mut done = [false; 3];
            for (step, k) in idx.iter().enumerate() {
                let (fed, _) = rx.feed(&alphabet[*k]);
                if let Fed::Completed(pdu, meta) = fed {
                    deliveries += 1;
                    // whatever is delivered by an end fragment is exactly one of the three PDUs, once
                    for (j, inst) in [&a, &b, &c].iter().enumerate() {
                        if alphabet[*k][2] == inst.id && alphabet[*k][0] & 0xC0 == 0x40 {
                            assert!(pdu == inst.data && meta == inst.meta, "wrong delivery at step {step} of {:?}", idx);
                            let _ = done[j];
                            done[j] = true;
                        }
                    }
                }
                rx.keep_owned(owned, 9);
            }
            rx.compare_state();
            count += 1;
        }
        // next index vector
        let mut p = depth;
        loop {
            if p == 0 {
                break 'outer;
            }
            p -= 1;
            idx[p] += 1;
            if idx[p] < n {
                break;
            }
            idx[p] = 0;
        }
    }
    println!("t10 alphabet {n}, depth {depth}: {count} sequences, {deliveries} deliveries");
}
