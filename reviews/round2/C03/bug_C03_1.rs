// C03 counter-example: a 29-bit corruption burst confined to CRC-protected bytes
// (protocol type + first payload bytes) of a first fragment that carries a header
// extension and a 6-byte (or 3-byte) label is NOT detected: the reassembled PDU is
// delivered with a wrong protocol type and wrong payload bytes.
//
// Run: CARGO_NET_OFFLINE=true cargo test --offline --test bug_C03_1
// (Cargo.toml: [[test]] name = "bug_C03_1" path = "out/bug_C03_1.rs")

use dvb_gse_rust::crc::DefaultCrc;
use dvb_gse_rust::gse_decap::{DecapStatus, Decapsulator, GseDecapMemory, SimpleGseMemory};
use dvb_gse_rust::gse_encap::{ContextFrag, EncapMetadata, EncapStatus, Encapsulator};
use dvb_gse_rust::header_extension::{Extension, SimpleMandatoryExtensionHeaderManager};
use dvb_gse_rust::label::Label;

/// Builds the fragment train of `pdu` with the public encapsulation API.
fn train(pdu: &[u8], label: Label, pt: u16, ext: Extension, first: usize, next: usize) -> Vec<Vec<u8>> {
    let mut enc = Encapsulator::new(DefaultCrc {});
    let mut out = vec![];
    let mut buf = vec![0u8; first];
    let mut ctx: ContextFrag = match enc
        .encap_ext(pdu, 7, EncapMetadata::new(pt, label), &mut buf, vec![ext])
        .unwrap()
    {
        EncapStatus::FragmentedPkt(n, c) => {
            out.push(buf[..n as usize].to_vec());
            c
        }
        _ => panic!("expected a first fragment"),
    };
    loop {
        let mut buf = vec![0u8; next];
        match enc.encap_frag(pdu, &ctx, &mut buf).unwrap() {
            EncapStatus::FragmentedPkt(n, c) => {
                out.push(buf[..n as usize].to_vec());
                ctx = c;
            }
            EncapStatus::CompletedPkt(n) => {
                out.push(buf[..n as usize].to_vec());
                return out;
            }
        }
    }
}

fn decap_all(pkts: &[Vec<u8>]) -> Vec<(Vec<u8>, u16, Label)> {
    let mut mem = SimpleGseMemory::new(4, 4096, 0, 0);
    for _ in 0..4 {
        mem.provision_storage(vec![0u8; 4096].into_boxed_slice()).unwrap();
    }
    let mut dec = Decapsulator::new(mem, DefaultCrc {}, SimpleMandatoryExtensionHeaderManager {});
    let mut delivered = vec![];
    for p in pkts {
        if let Ok((DecapStatus::CompletedPkt(b, m), _)) = dec.decap(p) {
            delivered.push((b[..m.pdu_len()].to_vec(), m.protocol_type(), m.label()));
        }
    }
    delivered
}

fn check(label: Label, pt_mask: u16, pdu_mask: [u8; 4], first_bit_in_pt: usize, span_bits: usize) {
    let pdu: Vec<u8> = (0..60u8).map(|i| i.wrapping_mul(37).wrapping_add(11)).collect();
    let pt = 0x0800u16;
    // optional extension, H-LEN 3 => 4 data bytes
    let ext = Extension::new(0x0301, &[0xA1, 0xA2, 0xA3, 0xA4]).unwrap();
    let pkts = train(&pdu, label, pt, ext, 40, 30);
    assert!(pkts.len() >= 3);

    // clean train: delivered as sent
    let clean = decap_all(&pkts);
    assert_eq!(clean, vec![(pdu.clone(), pt, label)]);

    // layout of the first fragment:
    // [0..2] fixed header | [2] frag id | [3..5] total length | [5..7] extension id |
    // label | 4 extension data bytes | [ptoff..ptoff+2] protocol type | payload
    let l = label.len();
    let ptoff = 2 + 1 + 2 + 2 + l + 4;
    assert_eq!(&pkts[0][ptoff..ptoff + 2], &pt.to_be_bytes());
    assert_eq!(&pkts[0][ptoff + 2..ptoff + 6], &pdu[..4]);

    // the burst: contiguous on the wire, <= 32 bits from its first to its last flipped bit,
    // confined to the protocol type and the payload (both CRC-protected).
    let mut bad = pkts.clone();
    let m = pt_mask.to_be_bytes();
    bad[0][ptoff] ^= m[0];
    bad[0][ptoff + 1] ^= m[1];
    for i in 0..4 {
        bad[0][ptoff + 2 + i] ^= pdu_mask[i];
    }
    // measure the burst span on the wire
    let mut bits = vec![];
    for (i, (a, b)) in pkts[0].iter().zip(bad[0].iter()).enumerate() {
        for k in 0..8 {
            if (a ^ b) & (0x80 >> k) != 0 {
                bits.push(i * 8 + k);
            }
        }
    }
    let span = bits.last().unwrap() - bits[0] + 1;
    assert_eq!(bits[0], ptoff * 8 + first_bit_in_pt);
    assert_eq!(span, span_bits);
    assert!(span <= 32);

    let got = decap_all(&bad);
    // C03 demands: a burst of <= 32 bits confined to CRC-protected bytes is detected, nothing is delivered.
    assert!(
        got.is_empty(),
        "corrupted train was delivered: protocol type {:#06x} (sent {:#06x}), first payload bytes {:02x?} (sent {:02x?})",
        got[0].1,
        pt,
        &got[0].0[..4],
        &pdu[..4]
    );
}

#[test]
fn bug_c03_1_six_byte_label_29_bit_burst() {
    // flips the 3 low bits of the protocol type and 26 bits of payload: 29-bit burst
    check(Label::SixBytesLabel([1, 2, 3, 4, 5, 6]), 0x0007, [0xe8, 0x65, 0x05, 0xc0], 13, 29);
}

#[test]
fn bug_c03_1_three_byte_label_32_bit_burst() {
    check(Label::ThreeBytesLabel([9, 8, 7]), 0x01af, [0xe0, 0x6a, 0x7a, 0x00], 7, 32);
}

/// every undetected pattern found by solving the CRC equations (7 in total, independent of the PDU)
#[test]
fn bug_c03_1_all_undetected_patterns() {
    let three = Label::ThreeBytesLabel([0, 0, 0]);
    let six = Label::SixBytesLabel([0xDE, 0xAD, 0xBE, 0xEF, 0x00, 0x01]);
    let pats: [(Label, u16, u32, usize, usize); 7] = [
        (three, 0x568e, 0xa8158000, 1, 32),
        (three, 0x2b47, 0x540ac000, 2, 32),
        (three, 0x0a6d, 0xb17b5000, 4, 32),
        (three, 0x01af, 0xe06a7a00, 7, 32),
        (six, 0xe6a1, 0xef360000, 0, 31),
        (six, 0x3e7b, 0xe33fc000, 2, 32),
        (six, 0x0007, 0xe86505c0, 13, 29),
    ];
    let mut delivered = 0;
    for (label, a, b, s, span) in pats {
        let r = std::panic::catch_unwind(|| check(label, a, b.to_be_bytes(), s, span));
        if r.is_err() {
            delivered += 1;
        }
    }
    assert_eq!(delivered, 0, "{} of 7 corrupted trains were delivered", delivered);
}

#[test]
fn control_broadcast_label_same_bursts_are_detected() {
    // with a broadcast label protocol type and payload are adjacent in the CRC input as well:
    // the same patterns are detected (this passes)
    let pdu: Vec<u8> = (0..60u8).map(|i| i.wrapping_mul(37).wrapping_add(11)).collect();
    let ext = Extension::new(0x0301, &[0xA1, 0xA2, 0xA3, 0xA4]).unwrap();
    let pkts = train(&pdu, Label::Broadcast, 0x0800, ext, 40, 30);
    let ptoff = 2 + 1 + 2 + 2 + 4;
    for (pm, dm) in [(0x0007u16, [0xe8u8, 0x65, 0x05, 0xc0]), (0x01af, [0xe0, 0x6a, 0x7a, 0x00])] {
        let mut bad = pkts.clone();
        bad[0][ptoff] ^= pm.to_be_bytes()[0];
        bad[0][ptoff + 1] ^= pm.to_be_bytes()[1];
        for i in 0..4 {
            bad[0][ptoff + 2 + i] ^= dm[i];
        }
        assert!(decap_all(&bad).is_empty());
    }
}
