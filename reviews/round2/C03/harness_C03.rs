// C03 model-based / differential harness (public API only).
//
// Oracle: an independent re-implementation of the C03 statement, evaluated on the bytes
// actually handed to `decap`:
//   * per frag id it remembers the most recent *well-formed* first fragment (a malformed first
//     fragment whose frag id is readable clears the entry) and appends the payload of every later
//     intermediate / end fragment with that id, whether or not the decapsulator accepted it;
//   * a delivery at an end fragment is legitimate only if the concatenation has exactly the
//     announced length and its CRC-32 (own bitwise implementation) equals the trailer, and the
//     bytes / protocol type / label / extensions reported are those of that first fragment.
//   * with "ample" memory (256 slots, storages of 70000 bytes, free list never empty) the oracle
//     also predicts *when* a delivery must happen (iff), so that the harness is not vacuous.
// Packets that cannot be delimited (buffer shorter than the GSE length, GSE length shorter than the
// fixed fields of the packet type) are noise for the oracle: see the note in the report.
//
// Run: CARGO_NET_OFFLINE=true cargo test --offline --test harness_C03 [--release]
#![allow(dead_code)]
#![allow(clippy::all)]

use dvb_gse_rust::crc::DefaultCrc;
use dvb_gse_rust::gse_decap::{
    DecapError, DecapMemoryError, DecapStatus, Decapsulator, GseDecapMemory, SimpleGseMemory,
};
use dvb_gse_rust::gse_encap::{ContextFrag, EncapMetadata, EncapStatus, Encapsulator};
use dvb_gse_rust::header_extension::{
    Extension, ExtensionData, MandatoryHeaderExt, MandatoryHeaderExtensionManager,
};
use dvb_gse_rust::label::Label;
use std::sync::atomic::{AtomicU64, Ordering};

// ---------------------------------------------------------------------------------------------
// small utilities
// ---------------------------------------------------------------------------------------------
pub struct Rng(u64);
impl Rng {
    pub fn new(seed: u64) -> Self {
        Rng(seed.wrapping_mul(0x9E37_79B9_7F4A_7C15) | 1)
    }
    pub fn next(&mut self) -> u64 {
        let mut x = self.0;
        x ^= x >> 12;
        x ^= x << 25;
        x ^= x >> 27;
        self.0 = x;
        x.wrapping_mul(0x2545_F491_4F6C_DD1D)
    }
    pub fn below(&mut self, n: usize) -> usize {
        (self.next() % n as u64) as usize
    }
    pub fn bytes(&mut self, n: usize) -> Vec<u8> {
        (0..n).map(|_| self.next() as u8).collect()
    }
    pub fn chance(&mut self, num: usize, den: usize) -> bool {
        self.below(den) < num
    }
}

fn scale() -> usize {
    std::env::var("C03_SCALE").ok().and_then(|s| s.parse().ok()).unwrap_or(1)
}

/// bitwise CRC-32 (poly 0x04C11DB7, init 0xFFFFFFFF, MSB first, no final xor): independent of src/crc.rs
fn crc_bitwise_byte(mut crc: u32, b: u8) -> u32 {
    for k in 0..8 {
        let inbit = ((b >> (7 - k)) & 1) as u32;
        let top = (crc >> 31) & 1;
        crc <<= 1;
        if top ^ inbit == 1 {
            crc ^= 0x04C1_1DB7;
        }
    }
    crc
}
/// table derived at run time from the bitwise definition above (not from src/crc.rs)
fn crc_table() -> &'static [u32; 256] {
    static T: std::sync::OnceLock<[u32; 256]> = std::sync::OnceLock::new();
    T.get_or_init(|| {
        let mut t = [0u32; 256];
        for i in 0..256 {
            t[i] = crc_bitwise_byte(0, i as u8);
        }
        t
    })
}
fn crc_ref(parts: &[&[u8]]) -> u32 {
    let t = crc_table();
    let mut crc: u32 = 0xFFFF_FFFF;
    for p in parts {
        for &b in p.iter() {
            crc = (crc << 8) ^ t[((crc >> 24) as u8 ^ b) as usize];
        }
    }
    crc
}
#[test]
fn t00_crc_reference_is_consistent() {
    // table version == bitwise version, and the check value of CRC-32/MPEG-2
    let mut rng = Rng::new(1);
    for n in 0..200 {
        let d = rng.bytes(n);
        let mut c = 0xFFFF_FFFFu32;
        for &b in &d {
            c = crc_bitwise_byte(c, b);
        }
        assert_eq!(c, crc_ref(&[&d]));
    }
    assert_eq!(crc_ref(&[b"123456789"]), 0x0376_E6E7);
}

// ---------------------------------------------------------------------------------------------
// mandatory extension table shared by the decapsulator under test and by the oracle
// ids 0x00..=0x08: non final, id data bytes; 0x10..=0x18: final, (id-0x10) data bytes;
// 0x81 / 0x82: final without data; everything else unknown.
// ---------------------------------------------------------------------------------------------
#[derive(Clone, Copy)]
pub struct TestMgr;
#[derive(Clone, Copy, PartialEq, Debug)]
enum Mand {
    Final(usize),
    NonFinal(usize),
    Unknown,
}
fn mand_table(id: u16) -> Mand {
    match id {
        0x00..=0x08 => Mand::NonFinal(id as usize),
        0x10..=0x18 => Mand::Final(id as usize - 0x10),
        0x81 | 0x82 => Mand::Final(0),
        _ => Mand::Unknown,
    }
}
impl MandatoryHeaderExtensionManager for TestMgr {
    fn is_mandatory_header_id_known(&self, id: u16) -> MandatoryHeaderExt {
        match mand_table(id) {
            Mand::Final(n) => MandatoryHeaderExt::Final(n as u8),
            Mand::NonFinal(n) => MandatoryHeaderExt::NonFinal(n as u8),
            Mand::Unknown => MandatoryHeaderExt::Unknown,
        }
    }
}

// ---------------------------------------------------------------------------------------------
// oracle parser
// ---------------------------------------------------------------------------------------------
type Exts = Vec<(u16, Vec<u8>)>;

#[derive(Debug, Clone)]
struct FirstP {
    id: u8,
    tl: u16,
    pt: u16,
    lt: u8, // 0: 6 bytes, 1: 3 bytes, 2: broadcast, 3: re-use
    label: Vec<u8>,
    exts: Exts,
    payload: Vec<u8>,
    well_formed: bool,
    why: &'static str,
}
#[derive(Debug, Clone)]
enum P {
    Short,
    Padding,
    Trunc,
    Runt,
    Complete { lt: u8 },
    First(FirstP),
    Inter { id: u8, payload: Vec<u8> },
    End { id: u8, payload: Vec<u8>, crc: u32 },
}

fn label_len(lt: u8) -> usize {
    match lt {
        0 => 6,
        1 => 3,
        _ => 0,
    }
}

/// walks an extension chain. Ok((exts, final protocol type, consumed bytes))
fn walk_exts(bytes: &[u8], first_id: u16) -> Result<(Exts, u16, usize), &'static str> {
    let mut exts = vec![];
    let mut id = first_id;
    let mut off = 0usize;
    while id < 0x0600 {
        if id < 0x0100 {
            match mand_table(id) {
                Mand::Unknown => return Err("unknown mandatory"),
                Mand::Final(n) => {
                    if bytes.len() < off + n {
                        return Err("ext too small");
                    }
                    exts.push((id, bytes[off..off + n].to_vec()));
                    off += n;
                    return Ok((exts, id, off));
                }
                Mand::NonFinal(n) => {
                    if bytes.len() < off + n {
                        return Err("ext too small");
                    }
                    exts.push((id, bytes[off..off + n].to_vec()));
                    off += n;
                }
            }
        } else {
            let n = [0usize, 2, 4, 6, 8][(id >> 8) as usize - 1];
            if bytes.len() < off + n {
                return Err("ext too small");
            }
            exts.push((id, bytes[off..off + n].to_vec()));
            off += n;
        }
        if bytes.len() < off + 2 {
            return Err("ext too small");
        }
        id = u16::from_be_bytes([bytes[off], bytes[off + 1]]);
        off += 2;
    }
    Ok((exts, id, off))
}

/// returns the parsed packet and the packet length announced by the header (0 when unknown)
fn oparse(buf: &[u8]) -> (P, usize) {
    if buf.len() < 2 {
        return (P::Short, 0);
    }
    let s = buf[0] & 0x80 != 0;
    let e = buf[0] & 0x40 != 0;
    let lt = (buf[0] >> 4) & 3;
    if !s && !e && lt == 0 {
        return (P::Padding, 0);
    }
    let gse_len = (((buf[0] & 0x0F) as usize) << 8) | buf[1] as usize;
    let pkt_len = gse_len + 2;
    if buf.len() < pkt_len {
        return (P::Trunc, pkt_len);
    }
    let body = &buf[2..pkt_len];
    let ll = label_len(lt);
    match (s, e) {
        (true, true) => {
            if gse_len < 2 + ll {
                return (P::Runt, pkt_len);
            }
            (P::Complete { lt }, pkt_len)
        }
        (true, false) => {
            if gse_len < 1 + 2 + 2 + ll {
                return (P::Runt, pkt_len);
            }
            let id = body[0];
            let tl = u16::from_be_bytes([body[1], body[2]]);
            let ptf = u16::from_be_bytes([body[3], body[4]]);
            let label = body[5..5 + ll].to_vec();
            let rest = &body[5 + ll..];
            let mut f = FirstP {
                id,
                tl,
                pt: ptf,
                lt,
                label: label.clone(),
                exts: vec![],
                payload: vec![],
                well_formed: false,
                why: "",
            };
            if lt == 0 && label.iter().all(|&b| b == 0) {
                f.why = "zero label";
                return (P::First(f), pkt_len);
            }
            let mut consumed = 0;
            if ptf < 0x0600 {
                match walk_exts(rest, ptf) {
                    Err(w) => {
                        f.why = w;
                        return (P::First(f), pkt_len);
                    }
                    Ok((exts, pt, c)) => {
                        f.exts = exts;
                        f.pt = pt;
                        consumed = c;
                    }
                }
            }
            f.payload = rest[consumed..].to_vec();
            if (tl as usize) <= f.payload.len() {
                f.why = "total length";
                return (P::First(f), pkt_len);
            }
            f.well_formed = true;
            (P::First(f), pkt_len)
        }
        (false, false) => {
            if gse_len < 2 {
                return (P::Runt, pkt_len);
            }
            (P::Inter { id: body[0], payload: body[1..].to_vec() }, pkt_len)
        }
        (false, true) => {
            if gse_len < 5 {
                return (P::Runt, pkt_len);
            }
            let n = body.len();
            let crc = u32::from_be_bytes([body[n - 4], body[n - 3], body[n - 2], body[n - 1]]);
            (P::End { id: body[0], payload: body[1..n - 4].to_vec(), crc }, pkt_len)
        }
    }
}

// ---------------------------------------------------------------------------------------------
// oracle state + runner
// ---------------------------------------------------------------------------------------------
#[derive(Debug, Clone)]
struct Reasm {
    tl: u16,
    pt: u16,
    crc_label: Vec<u8>,
    label: Label,
    exts: Exts,
    data: Vec<u8>,
}

#[derive(Clone, Copy, Debug)]
pub struct Cfg {
    pub slots: usize,
    pub max_pdu_size: usize,
    pub storage: usize,
    pub nstor: usize,
    /// give delivered / returned buffers back to the memory
    pub recycle: bool,
    pub ample: bool,
}
impl Cfg {
    pub fn ample_with(storage: usize) -> Self {
        Cfg { slots: 256, max_pdu_size: 0, storage, nstor: 2, recycle: true, ample: true }
    }
    pub fn ample() -> Self {
        Cfg { slots: 256, max_pdu_size: 0, storage: 70000, nstor: 2, recycle: true, ample: true }
    }
}

#[derive(Default, Debug, Clone)]
pub struct Stats {
    pub packets: u64,
    pub deliveries: u64,
    pub end_rejected: u64,
    pub errors: u64,
}

pub static G_RUNS: AtomicU64 = AtomicU64::new(0);
pub static G_PACKETS: AtomicU64 = AtomicU64::new(0);
pub static G_DELIV: AtomicU64 = AtomicU64::new(0);
pub static G_REJ: AtomicU64 = AtomicU64::new(0);

pub struct Delivery {
    pub id: u8,
    pub pdu: Vec<u8>,
    pub pt: u16,
    pub label: Label,
}

pub struct Runner {
    dec: Decapsulator<SimpleGseMemory, DefaultCrc, TestMgr>,
    cfg: Cfg,
    re: Vec<Option<Reasm>>,
    lbl_track: Option<Label>,
    pub stats: Stats,
    pub deliveries: Vec<Delivery>,
    trace: Vec<String>,
    pub keep_trace: bool,
}

fn ext_list(m: &[Extension]) -> Exts {
    m.iter()
        .map(|e| {
            let d: Vec<u8> = match e.data() {
                ExtensionData::Data2(d) => d.to_vec(),
                ExtensionData::Data4(d) => d.to_vec(),
                ExtensionData::Data6(d) => d.to_vec(),
                ExtensionData::Data8(d) => d.to_vec(),
                ExtensionData::NoData => vec![],
                ExtensionData::MandatoryData(d) => d.clone(),
            };
            (e.id(), d)
        })
        .collect()
}

fn wire_label(lt: u8, bytes: &[u8]) -> Label {
    match lt {
        0 => Label::SixBytesLabel(bytes.try_into().unwrap()),
        1 => Label::ThreeBytesLabel(bytes.try_into().unwrap()),
        2 => Label::Broadcast,
        _ => Label::ReUse,
    }
}

impl Runner {
    pub fn new(cfg: Cfg) -> Self {
        let mut mem = SimpleGseMemory::new(cfg.slots, cfg.max_pdu_size, 0, 0);
        for i in 0..cfg.nstor {
            // stale, non zero content: a delivery must never expose it inside pdu_len
            let b = vec![0xEEu8 ^ i as u8; cfg.storage].into_boxed_slice();
            mem.provision_storage(b).unwrap();
        }
        Runner {
            dec: Decapsulator::new(mem, DefaultCrc {}, TestMgr),
            cfg,
            re: vec![None; 256],
            lbl_track: None,
            stats: Stats::default(),
            deliveries: vec![],
            trace: vec![],
            keep_trace: false,
        }
    }

    pub fn reset_last_label(&mut self) {
        self.dec.reset_last_label();
    }

    pub fn provision(&mut self, size: usize) -> bool {
        self.dec.provision_storage(vec![0x77u8; size].into_boxed_slice()).is_ok()
    }

    fn fail(&self, msg: String, buf: &[u8]) -> ! {
        let head = &buf[..buf.len().min(48)];
        panic!(
            "C03 HARNESS VIOLATION: {}\n cfg={:?}\n packet(head)={:02x?}\n trace tail={:#?}",
            msg,
            self.cfg,
            head,
            &self.trace[self.trace.len().saturating_sub(12)..]
        );
    }

    fn give_back(&mut self, b: Box<[u8]>) {
        if self.cfg.recycle {
            let _ = self.dec.provision_storage(b);
        }
    }

    /// feeds one buffer, checks the outcome against the oracle, returns the consumed length
    pub fn feed(&mut self, buf: &[u8]) -> usize {
        self.stats.packets += 1;
        let (p, pkt_len) = oparse(buf);
        let res = self.dec.decap(buf);
        if self.keep_trace {
            let r = match &res {
                Ok((s, n)) => format!("Ok({}, {})", s.to_str(), n),
                Err((e, n)) => format!("Err({:?}, {})", e, n),
            };
            let ps = match &p {
                P::First(f) => format!(
                    "First id={} tl={} pt={:#x} lt={} pay={} wf={} {}",
                    f.id, f.tl, f.pt, f.lt, f.payload.len(), f.well_formed, f.why
                ),
                P::Inter { id, payload } => format!("Inter id={} pay={}", id, payload.len()),
                P::End { id, payload, crc } => format!("End id={} pay={} crc={:#x}", id, payload.len(), crc),
                o => format!("{:?}", o),
            };
            self.trace.push(format!("{} -> {}", ps, r));
        }
        // consumed length sanity: never 0 unless the buffer is empty, never beyond the buffer
        let consumed = match &res {
            Ok((_, n)) => *n,
            Err((_, n)) => *n,
        };
        if consumed > buf.len() || (consumed == 0 && !buf.is_empty()) {
            self.fail(format!("consumed length {} out of range (buffer {})", consumed, buf.len()), buf);
        }
        if let Ok((_, n)) = &res {
            match p {
                P::Padding => {}
                _ => {
                    if *n != pkt_len {
                        self.fail(format!("accepted packet consumed {} instead of {}", n, pkt_len), buf);
                    }
                }
            }
        }

        match p {
            P::Short | P::Padding | P::Trunc | P::Runt => {
                if let Ok((DecapStatus::CompletedPkt(..), _)) | Ok((DecapStatus::FragmentedPkt(..), _)) = &res {
                    self.fail("undelimitable packet accepted".into(), buf);
                }
                if let (P::Padding, Ok((st, _))) = (&p, &res) {
                    if *st != DecapStatus::Padding {
                        self.fail("padding not reported as padding".into(), buf);
                    }
                }
            }
            P::Complete { lt } => match res {
                Ok((DecapStatus::CompletedPkt(b, m), _)) => {
                    match lt {
                        0 | 1 => self.lbl_track = Some(m.label()),
                        2 => self.lbl_track = None,
                        _ => {
                            if Some(m.label()) != self.lbl_track {
                                self.fail("re-use label resolved to an unexpected label (complete)".into(), buf);
                            }
                        }
                    }
                    self.give_back(b);
                }
                Ok(_) => self.fail("complete packet: unexpected status".into(), buf),
                Err(_) => self.stats.errors += 1,
            },
            P::First(f) => {
                let accepted = match &res {
                    Ok((DecapStatus::FragmentedPkt(m), _)) => Some(m.clone()),
                    Ok(_) => self.fail("first fragment: unexpected status".into(), buf),
                    Err(_) => None,
                };
                if !f.well_formed {
                    if accepted.is_some() {
                        self.fail(format!("malformed first fragment accepted ({})", f.why), buf);
                    }
                    self.re[f.id as usize] = None;
                } else if f.lt == 3 {
                    // re-use: whether it is resolvable is the receiver's label policy; take its word,
                    // but the label must be the one of the last accepted label-carrying packet
                    match accepted {
                        Some(m) => {
                            if Some(m.label()) != self.lbl_track {
                                self.fail("re-use label resolved to an unexpected label (first)".into(), buf);
                            }
                            self.re[f.id as usize] = Some(Reasm {
                                tl: f.tl,
                                pt: f.pt,
                                crc_label: vec![],
                                label: m.label(),
                                exts: f.exts.clone(),
                                data: f.payload.clone(),
                            });
                        }
                        None => self.re[f.id as usize] = None,
                    }
                } else {
                    let label = wire_label(f.lt, &f.label);
                    if let Some(m) = &accepted {
                        if m.label() != label || m.protocol_type() != f.pt || ext_list(m.extensions()) != f.exts {
                            self.fail("first fragment metadata differ from the wire".into(), buf);
                        }
                        match f.lt {
                            2 => self.lbl_track = None,
                            _ => self.lbl_track = Some(label),
                        }
                    } else if self.cfg.ample {
                        self.fail("ample memory: well-formed first fragment rejected".into(), buf);
                    }
                    self.re[f.id as usize] = Some(Reasm {
                        tl: f.tl,
                        pt: f.pt,
                        crc_label: f.label.clone(),
                        label,
                        exts: f.exts.clone(),
                        data: f.payload.clone(),
                    });
                }
                if let Err((DecapError::ErrorMemory(_), _)) = &res {
                    self.stats.errors += 1;
                }
                if self.cfg.ample && res.is_ok() {
                    // keep the free list non empty
                    let sz = self.cfg.storage;
                    let _ = self.provision(sz);
                }
            }
            P::Inter { id, payload } => {
                if let Some(r) = self.re[id as usize].as_mut() {
                    r.data.extend_from_slice(&payload);
                }
                match res {
                    Ok((DecapStatus::FragmentedPkt(_), _)) => {
                        if self.re[id as usize].is_none() {
                            // the decapsulator holds a context the oracle does not know: only a
                            // violation if it ever delivers, which is checked at the end fragment
                        }
                    }
                    Ok(_) => self.fail("intermediate fragment: unexpected status".into(), buf),
                    Err(_) => {
                        self.stats.errors += 1;
                        if self.cfg.ample {
                            if let Some(r) = &self.re[id as usize] {
                                if r.data.len() <= 65535 {
                                    self.fail("ample memory: intermediate fragment of a live reassembly rejected".into(), buf);
                                }
                            }
                        }
                    }
                }
            }
            P::End { id, payload, crc } => {
                let r = self.re[id as usize].take();
                let verdict: Option<Reasm> = r.and_then(|mut r| {
                    r.data.extend_from_slice(&payload);
                    let want = r.tl as usize;
                    let have = r.data.len() + 2 + r.crc_label.len();
                    if want != have {
                        return None;
                    }
                    let c = crc_ref(&[&r.tl.to_be_bytes(), &r.pt.to_be_bytes(), &r.crc_label, &r.data]);
                    if c != crc {
                        return None;
                    }
                    Some(r)
                });
                match res {
                    Ok((DecapStatus::CompletedPkt(b, m), _)) => {
                        self.stats.deliveries += 1;
                        let Some(r) = verdict else {
                            self.fail(
                                format!(
                                    "PDU delivered at an end fragment (id {}) although length/CRC over the received fragments do not verify; pdu_len={} pt={:#x} label={:?}",
                                    id, m.pdu_len(), m.protocol_type(), m.label()
                                ),
                                buf,
                            )
                        };
                        if m.pdu_len() != r.data.len() || b.len() < m.pdu_len() || b[..m.pdu_len()] != r.data[..] {
                            self.fail("delivered bytes differ from the concatenation of the received payloads".into(), buf);
                        }
                        if m.protocol_type() != r.pt || m.label() != r.label || ext_list(m.extensions()) != r.exts {
                            self.fail("delivered metadata differ from the first fragment".into(), buf);
                        }
                        self.deliveries.push(Delivery { id, pdu: r.data.clone(), pt: r.pt, label: r.label });
                        self.give_back(b);
                    }
                    Ok(_) => self.fail("end fragment: unexpected status".into(), buf),
                    Err((e, _)) => {
                        self.stats.end_rejected += 1;
                        if self.cfg.ample && verdict.is_some() {
                            self.fail(format!("ample memory: verified PDU not delivered ({:?})", e), buf);
                        }
                        if let DecapError::ErrorMemory(DecapMemoryError::StorageOverflow(_)) = e {}
                    }
                }
            }
        }
        consumed
    }

    /// one packet per buffer
    pub fn feed_all(&mut self, pkts: &[Vec<u8>]) {
        for p in pkts {
            self.feed(p);
        }
    }

    /// walks a frame using the lengths returned by decap
    pub fn feed_frame(&mut self, frame: &[u8]) {
        let mut off = 0;
        while off < frame.len() {
            let n = self.feed(&frame[off..]);
            off += n.max(1);
        }
    }

    pub fn finish(&self) {
        G_RUNS.fetch_add(1, Ordering::Relaxed);
        G_PACKETS.fetch_add(self.stats.packets, Ordering::Relaxed);
        G_DELIV.fetch_add(self.stats.deliveries, Ordering::Relaxed);
        G_REJ.fetch_add(self.stats.end_rejected, Ordering::Relaxed);
    }
}

// ---------------------------------------------------------------------------------------------
// generators: trains built with the public encapsulation API, hand-built packets, faults
// ---------------------------------------------------------------------------------------------

#[derive(Clone, Debug)]
pub struct Train {
    pub pkts: Vec<Vec<u8>>,
    pub pdu: Vec<u8>,
    pub pt: u16,
    pub label: Label,
    /// number of prelude packets (complete packets sent before the first fragment)
    pub prelude: usize,
    /// per packet: ranges of CRC-protected bytes (total length, protocol type, label, payload, CRC)
    pub protected: Vec<Vec<(usize, usize)>>,
    pub has_ext: bool,
}

/// Encapsulates `pdu` with encap / encap_ext + encap_frag, buffer sizes taken round robin from `sizes`.
/// `reuse`: a complete packet with the same label is emitted first so that the first fragment carries
/// a re-use label. Returns None if the PDU went out as one complete packet.
pub fn build_train(
    pdu: &[u8],
    id: u8,
    pt: u16,
    label: Label,
    exts: &[Extension],
    sizes: &[usize],
    reuse: bool,
) -> Option<Train> {
    let mut enc = Encapsulator::new(DefaultCrc {});
    let mut pkts = vec![];
    let mut protected = vec![];
    let mut prelude = 0;
    let mut wire_label_len = label.len();
    if reuse && label.len() > 0 {
        let mut b = vec![0u8; 64];
        match enc.encap(b"pre", 0, EncapMetadata::new(0x0800, label), &mut b) {
            Ok(EncapStatus::CompletedPkt(n)) => {
                pkts.push(b[..n as usize].to_vec());
                protected.push(vec![]);
                prelude = 1;
                wire_label_len = 0;
            }
            o => panic!("prelude {:?}", o),
        }
    }
    let mut k = 0usize;
    let mut buf = vec![0u8; sizes[k % sizes.len()]];
    k += 1;
    let md = EncapMetadata::new(pt, label);
    let st = if exts.is_empty() {
        enc.encap(pdu, id, md, &mut buf)
    } else {
        enc.encap_ext(pdu, id, md, &mut buf, exts.to_vec())
    };
    let mut ctx: ContextFrag = match st {
        Ok(EncapStatus::FragmentedPkt(n, c)) => {
            let n = n as usize;
            pkts.push(buf[..n].to_vec());
            // protected ranges of the first fragment
            let mut pr = vec![(3usize, 5usize)]; // total length
            if exts.is_empty() {
                pr.push((5, n)); // protocol type, label, payload: contiguous
            } else {
                let first_payload = c.len_pdu_frag() as usize;
                let pay_start = n - first_payload;
                pr.push((7, 7 + wire_label_len)); // label
                let final_mand = pt < 0x100;
                if final_mand {
                    if exts.len() == 1 {
                        pr.push((5, 7)); // the final mandatory extension id is the protocol type
                    }
                    pr.push((pay_start, n));
                } else {
                    if wire_label_len == 0 {
                        pr.push((pay_start - 2, n)); // final protocol type + payload
                    } else {
                        // protocol type and payload are adjacent on the wire but NOT in the CRC input
                        // (the label sits between them): bursts across this boundary are the subject of
                        // bug_C03_1 and are excluded from the strong check here
                        pr.push((pay_start - 2, pay_start));
                        pr.push((pay_start, n));
                    }
                }
            }
            protected.push(pr);
            c
        }
        Ok(EncapStatus::CompletedPkt(_)) => return None,
        Err(_) => return None,
    };
    let mut guard = 0;
    loop {
        guard += 1;
        assert!(guard < 100000, "encap_frag does not terminate");
        let mut buf = vec![0u8; sizes[k % sizes.len()]];
        k += 1;
        match enc.encap_frag(pdu, &ctx, &mut buf) {
            Ok(EncapStatus::FragmentedPkt(n, c)) => {
                let n = n as usize;
                pkts.push(buf[..n].to_vec());
                protected.push(vec![(3, n)]);
                ctx = c;
            }
            Ok(EncapStatus::CompletedPkt(n)) => {
                let n = n as usize;
                pkts.push(buf[..n].to_vec());
                protected.push(vec![(3, n)]);
                break;
            }
            Err(_) => {
                // buffer too small for this step: retry with the next size
                continue;
            }
        }
    }
    Some(Train { pkts, pdu: pdu.to_vec(), pt, label, prelude, protected, has_ext: !exts.is_empty() })
}

// ----- hand-built packets ---------------------------------------------------------------------
pub fn mk_pkt(s: bool, e: bool, lt: u8, body: &[u8]) -> Vec<u8> {
    assert!(body.len() <= 0xFFF);
    let mut v = vec![0u8; 2];
    v[0] = ((s as u8) << 7) | ((e as u8) << 6) | ((lt & 3) << 4) | ((body.len() >> 8) as u8);
    v[1] = body.len() as u8;
    v.extend_from_slice(body);
    v
}

/// `chain`: bytes placed between label and payload (extension data, next ids, final protocol type)
pub fn mk_first(lt: u8, id: u8, tl: u16, ptf: u16, label: &[u8], chain: &[u8], payload: &[u8]) -> Vec<u8> {
    let mut b = vec![id];
    b.extend_from_slice(&tl.to_be_bytes());
    b.extend_from_slice(&ptf.to_be_bytes());
    b.extend_from_slice(label);
    b.extend_from_slice(chain);
    b.extend_from_slice(payload);
    mk_pkt(true, false, lt, &b)
}
pub fn mk_inter(lt: u8, id: u8, payload: &[u8]) -> Vec<u8> {
    let mut b = vec![id];
    b.extend_from_slice(payload);
    mk_pkt(false, false, lt, &b)
}
pub fn mk_end(lt: u8, id: u8, payload: &[u8], crc: u32) -> Vec<u8> {
    let mut b = vec![id];
    b.extend_from_slice(payload);
    b.extend_from_slice(&crc.to_be_bytes());
    mk_pkt(false, true, lt, &b)
}
pub fn mk_complete(lt: u8, ptf: u16, label: &[u8], chain: &[u8], payload: &[u8]) -> Vec<u8> {
    let mut b = vec![];
    b.extend_from_slice(&ptf.to_be_bytes());
    b.extend_from_slice(label);
    b.extend_from_slice(chain);
    b.extend_from_slice(payload);
    mk_pkt(true, true, lt, &b)
}

/// serialises an extension chain the way the wire wants it: (field replacing the protocol type, chain bytes)
pub fn mk_chain(exts: &[(u16, Vec<u8>)], final_pt: Option<u16>) -> (u16, Vec<u8>) {
    if exts.is_empty() {
        return (final_pt.unwrap(), vec![]);
    }
    let mut out = vec![];
    for (i, (_, d)) in exts.iter().enumerate() {
        out.extend_from_slice(d);
        if i + 1 < exts.len() {
            out.extend_from_slice(&exts[i + 1].0.to_be_bytes());
        }
    }
    if let Some(pt) = final_pt {
        out.extend_from_slice(&pt.to_be_bytes());
    }
    (exts[0].0, out)
}

/// random extension chain accepted by the test manager: (exts, final pt option, resulting protocol type)
pub fn rand_chain(rng: &mut Rng, pt: u16) -> (Vec<(u16, Vec<u8>)>, Option<u16>, u16) {
    let n = rng.below(4);
    let mut exts = vec![];
    for _ in 0..n {
        if rng.chance(1, 3) {
            let k = rng.below(9) as u16; // non final mandatory, k data bytes
            exts.push((k, rng.bytes(k as usize)));
        } else {
            let h = 1 + rng.below(5) as u16;
            let id = (h << 8) | rng.below(256) as u16;
            exts.push((id, rng.bytes([0usize, 2, 4, 6, 8][h as usize - 1])));
        }
    }
    if rng.chance(1, 4) {
        let k = rng.below(9) as u16;
        let id = 0x10 + k;
        exts.push((id, rng.bytes(k as usize)));
        return (exts, None, id);
    }
    (exts, Some(pt), pt)
}

// ----- faults -----------------------------------------------------------------------------------
pub fn flip_bit(p: &mut [u8], bit: usize) {
    p[bit / 8] ^= 0x80 >> (bit % 8);
}
/// xor `pattern` (its `len` low bits, MSB first) starting at bit `start`
pub fn xor_burst(p: &mut [u8], start: usize, len: usize, pattern: u32) {
    for i in 0..len {
        if (pattern >> (len - 1 - i)) & 1 == 1 && start + i < p.len() * 8 {
            flip_bit(p, start + i);
        }
    }
}
pub fn within(ranges: &[(usize, usize)], first_bit: usize, last_bit: usize) -> bool {
    ranges.iter().any(|&(a, b)| first_bit >= a * 8 && last_bit < b * 8)
}

pub fn label_of(kind: usize, rng: &mut Rng) -> Label {
    match kind % 7 {
        0 => Label::Broadcast,
        1 => Label::ThreeBytesLabel([0, 0, 0]),
        2 => Label::ThreeBytesLabel([rng.next() as u8, rng.next() as u8, rng.next() as u8]),
        3 => Label::SixBytesLabel([0, 0, 0, 0, 0, 1]),
        4 => Label::SixBytesLabel([0xFF; 6]),
        5 => Label::SixBytesLabel([1, 0, 0, 0, 0, 0]),
        _ => {
            let mut b = [0u8; 6];
            for x in b.iter_mut() {
                *x = rng.next() as u8;
            }
            if b == [0; 6] {
                b[3] = 1;
            }
            Label::SixBytesLabel(b)
        }
    }
}

pub const PTYPES: [u16; 8] = [0x0600, 0x0601, 0x0800, 0x86DD, 0xFFFF, 0x0700, 0x8100, 0x0F00];
// ---------------------------------------------------------------------------------------------
// tests
// ---------------------------------------------------------------------------------------------

pub static C_CLEAN: AtomicU64 = AtomicU64::new(0);
pub static C_SEQ: AtomicU64 = AtomicU64::new(0);
pub static C_BIT: AtomicU64 = AtomicU64::new(0);
pub static C_BURST: AtomicU64 = AtomicU64::new(0);
pub static C_TRUNC: AtomicU64 = AtomicU64::new(0);
pub static C_FIELD: AtomicU64 = AtomicU64::new(0);
pub static C_STRONG: AtomicU64 = AtomicU64::new(0);

fn inc(c: &AtomicU64) {
    c.fetch_add(1, Ordering::Relaxed);
}

fn report(name: &str) {
    eprintln!(
        "[{}] runs={} packets={} deliveries={} end-rejections={} | clean={} drop/dup/swap={} bitflips={} bursts={} truncations={} field-replacements={} strong(no-delivery)-checks={}",
        name,
        G_RUNS.load(Ordering::Relaxed),
        G_PACKETS.load(Ordering::Relaxed),
        G_DELIV.load(Ordering::Relaxed),
        G_REJ.load(Ordering::Relaxed),
        C_CLEAN.load(Ordering::Relaxed),
        C_SEQ.load(Ordering::Relaxed),
        C_BIT.load(Ordering::Relaxed),
        C_BURST.load(Ordering::Relaxed),
        C_TRUNC.load(Ordering::Relaxed),
        C_FIELD.load(Ordering::Relaxed),
        C_STRONG.load(Ordering::Relaxed),
    );
}

/// runs a packet sequence (one packet per buffer); returns the number of fragmented deliveries
fn run_seq(cfg: Cfg, pkts: &[Vec<u8>]) -> usize {
    let mut r = Runner::new(cfg);
    r.feed_all(pkts);
    r.finish();
    r.deliveries.len()
}

fn run_seq_expect_none(cfg: Cfg, pkts: &[Vec<u8>], what: &str) {
    let mut r = Runner::new(cfg);
    r.keep_trace = false;
    r.feed_all(pkts);
    r.finish();
    inc(&C_STRONG);
    if !r.deliveries.is_empty() {
        let mut r2 = Runner::new(cfg);
        r2.keep_trace = true;
        r2.feed_all(pkts);
        panic!(
            "C03 HARNESS VIOLATION (strong check): {} yet a PDU was delivered\n cfg={:?}\n pkts={:02x?}\n trace={:#?}",
            what, cfg, pkts, r2.trace
        );
    }
}

fn clean_check(cfg: Cfg, t: &Train) {
    let mut r = Runner::new(cfg);
    r.feed_all(&t.pkts);
    r.finish();
    inc(&C_CLEAN);
    assert_eq!(r.deliveries.len(), 1, "clean train not delivered exactly once: {:?}", cfg);
    let d = &r.deliveries[0];
    assert_eq!(d.pdu, t.pdu);
    assert_eq!(d.pt, t.pt);
    assert_eq!(d.label, t.label);
}

fn small_exts(kind: usize) -> (Vec<Extension>, Option<u16>) {
    // (extensions, protocol type override for a final mandatory extension)
    match kind {
        0 => (vec![], None),
        1 => (vec![Extension::new(0x0203, &[0xD1, 0xD2]).unwrap()], None),
        2 => (
            vec![
                Extension::new(0x0003, &[1, 2, 3]).unwrap(),
                Extension::new(0x0155, &[]).unwrap(),
                Extension::new(0x0501, &[8, 7, 6, 5, 4, 3, 2, 1]).unwrap(),
            ],
            None,
        ),
        3 => (vec![Extension::new(0x0012, &[0xF1, 0xF2]).unwrap()], Some(0x0012)),
        4 => (vec![Extension::new(0x0400, &[1, 2, 3, 4, 5, 6]).unwrap(), Extension::new(0x0081, &[]).unwrap()], Some(0x0081)),
        _ => (vec![Extension::new(0x0000, &[]).unwrap(), Extension::new(0x0308, &[9, 9, 9, 9]).unwrap()], None),
    }
}

/// all single faults on one train, evaluated under `cfg`
fn single_faults(cfg: Cfg, t: &Train, rng: &mut Rng, exhaustive_tl: bool) {
    clean_check(cfg, t);
    let n = t.pkts.len();
    let pre = t.prelude;
    // drop
    for i in pre..n {
        let mut s = t.pkts.clone();
        s.remove(i);
        inc(&C_SEQ);
        run_seq_expect_none(cfg, &s, "a fragment was dropped");
    }
    // duplicate packet i, inserted at every later position
    for i in pre..n {
        for j in i + 1..=n {
            let mut s = t.pkts.clone();
            s.insert(j, t.pkts[i].clone());
            inc(&C_SEQ);
            let d = run_seq(cfg, &s);
            // a duplicated intermediate/end payload can never verify; a duplicated first fragment directly
            // after itself restarts the same reassembly (legitimate by the statement)
            let payload_dup_harmless = i == pre && j == pre + 1;
            if j == n {
                // the copy arrives after the end fragment: the train itself is intact
                assert_eq!(d, 1);
            } else if !payload_dup_harmless && i != n - 1 {
                // duplicated first (later) or intermediate fragment
                assert_eq!(d, 0, "duplicate of fragment {} at {} delivered", i, j);
                inc(&C_STRONG);
            }
            if i == n - 1 {
                // duplicated end fragment: exactly the original delivery, the copy finds no context
                assert_eq!(d, 1);
            }
        }
    }
    // swap
    for i in pre..n {
        for j in i + 1..n {
            let mut s = t.pkts.clone();
            s.swap(i, j);
            inc(&C_SEQ);
            if s[i] == s[j] {
                continue;
            }
            run_seq_expect_none(cfg, &s, "two fragments were swapped");
        }
    }
    // every single bit
    for i in pre..n {
        for bit in 0..t.pkts[i].len() * 8 {
            let mut s = t.pkts.clone();
            flip_bit(&mut s[i], bit);
            inc(&C_BIT);
            if within(&t.protected[i], bit, bit) {
                run_seq_expect_none(cfg, &s, "one CRC-protected bit was flipped");
            } else {
                run_seq(cfg, &s);
            }
        }
    }
    // bursts: every start bit, every length 2..=32, all-ones + two random patterns with both ends set
    for i in pre..n {
        let nbits = t.pkts[i].len() * 8;
        for start in 0..nbits {
            for len in 2..=32usize {
                if start + len > nbits {
                    break;
                }
                for k in 0..3 {
                    let pat: u32 = if k == 0 {
                        if len == 32 { u32::MAX } else { (1u32 << len) - 1 }
                    } else {
                        let r = rng.next() as u32;
                        let m = if len == 32 { u32::MAX } else { (1u32 << len) - 1 };
                        (r & m) | 1 | (1u32 << (len - 1))
                    };
                    let mut s = t.pkts.clone();
                    xor_burst(&mut s[i], start, len, pat);
                    inc(&C_BURST);
                    if within(&t.protected[i], start, start + len - 1) {
                        run_seq_expect_none(cfg, &s, "a burst <= 32 bits hit CRC-protected bytes only");
                    } else {
                        run_seq(cfg, &s);
                    }
                }
            }
        }
    }
    // truncation at every byte
    for i in pre..n {
        for cut in 0..t.pkts[i].len() {
            let mut s = t.pkts.clone();
            s[i].truncate(cut);
            inc(&C_TRUNC);
            run_seq_expect_none(cfg, &s, "a fragment was truncated");
        }
    }
    // frag id: every value, every packet
    for i in pre..n {
        for v in 0..=255u8 {
            if v == t.pkts[i][2] {
                continue;
            }
            let mut s = t.pkts.clone();
            s[i][2] = v;
            inc(&C_FIELD);
            run_seq_expect_none(cfg, &s, "a frag id was replaced");
        }
    }
    // total length: every value (or a sample)
    {
        let orig = u16::from_be_bytes([t.pkts[pre][3], t.pkts[pre][4]]);
        let vals: Vec<u16> = if exhaustive_tl {
            (0..=u16::MAX).collect()
        } else {
            let mut v: Vec<u16> = (0..300).map(|_| rng.next() as u16).collect();
            for d in 1..=12u16 {
                v.push(orig.wrapping_add(d));
                v.push(orig.wrapping_sub(d));
            }
            v.extend_from_slice(&[0, 1, 2, 0xFFFF, 0xFFFE, 0x8000]);
            v
        };
        for v in vals {
            if v == orig {
                continue;
            }
            let mut s = t.pkts.clone();
            s[pre][3..5].copy_from_slice(&v.to_be_bytes());
            inc(&C_FIELD);
            run_seq_expect_none(cfg, &s, "the total length was replaced");
        }
    }
    // CRC: sample + neighbours + structured values
    {
        let last = &t.pkts[n - 1];
        let l = last.len();
        let orig = u32::from_be_bytes(last[l - 4..].try_into().unwrap());
        let mut vals: Vec<u32> = (0..400).map(|_| rng.next() as u32).collect();
        for d in 1..=16u32 {
            vals.push(orig.wrapping_add(d));
            vals.push(orig.wrapping_sub(d));
            vals.push(orig ^ (1 << d));
        }
        vals.extend_from_slice(&[0, u32::MAX, !orig, orig.swap_bytes(), orig.rotate_left(8)]);
        for v in vals {
            if v == orig {
                continue;
            }
            let mut s = t.pkts.clone();
            s[n - 1][l - 4..].copy_from_slice(&v.to_be_bytes());
            inc(&C_FIELD);
            run_seq_expect_none(cfg, &s, "the CRC trailer was replaced");
        }
    }
}

fn small_trains(label_kind: usize, rng: &mut Rng) -> Vec<Train> {
    let mut out = vec![];
    let pdu_lens = [1usize, 2, 9, 33];
    let size_sets: [&[usize]; 3] = [&[44, 12, 15], &[40], &[46, 9, 70]];
    for (pi, &pl) in pdu_lens.iter().enumerate() {
        for (si, sizes) in size_sets.iter().enumerate() {
            for ek in 0..6 {
                // thin the cartesian product deterministically
                if (pi + si + ek) % 2 == 1 && pl != 9 {
                    continue;
                }
                let (exts, ptov) = small_exts(ek);
                let pt = ptov.unwrap_or(PTYPES[(pi + si + ek) % PTYPES.len()]);
                let label = label_of(label_kind, rng);
                for reuse in [false, true] {
                    if reuse && label.len() == 0 {
                        continue;
                    }
                    let pdu = rng.bytes(pl);
                    // choose first buffers small enough to force fragmentation
                    let hdr = 2 + 1 + 2 + 2 + if reuse { 0 } else { label.len() } + exts.iter().map(|e| e.len()).sum::<usize>();
                    let mut sz: Vec<usize> = sizes.to_vec();
                    sz[0] = hdr + (pl / 3);
                    if let Some(t) = build_train(&pdu, (7 * pi + si) as u8, pt, label, &exts, &sz, reuse) {
                        out.push(t);
                    }
                }
            }
        }
    }
    out
}

fn single_fault_suite(label_kind: usize) {
    let mut rng = Rng::new(0xC03 + label_kind as u64);
    let trains = small_trains(label_kind, &mut rng);
    assert!(trains.len() >= 10, "too few trains: {}", trains.len());
    let sc = scale();
    for (k, t) in trains.iter().enumerate() {
        // the whole fault catalogue on a subset (cost), the cheap part on all
        if k % (2 / sc.min(2)).max(1) != 0 {
            clean_check(Cfg::ample_with(256), t);
            continue;
        }
        single_faults(Cfg::ample_with(256), t, &mut rng, k == 0);
        // constrained memories: one slot, storage exactly the PDU, nothing spare
        let exact = Cfg { slots: 1, max_pdu_size: t.pdu.len(), storage: t.pdu.len().max(if t.prelude > 0 { 3 } else { 0 }), nstor: 1, recycle: true, ample: false };
        if k % 8 == 0 {
            single_faults(exact, t, &mut rng, false);
        } else {
            clean_check(exact, t);
        }
    }
    report(&format!("single faults, label kind {}", label_kind));
}

#[test]
fn t01_single_faults_broadcast() {
    single_fault_suite(0);
}
#[test]
fn t01_single_faults_3b_zero() {
    single_fault_suite(1);
}
#[test]
fn t01_single_faults_3b() {
    single_fault_suite(2);
}
#[test]
fn t01_single_faults_6b_low() {
    single_fault_suite(3);
}
#[test]
fn t01_single_faults_6b_ff() {
    single_fault_suite(4);
}
#[test]
fn t01_single_faults_6b_high() {
    single_fault_suite(5);
}
#[test]
fn t01_single_faults_6b_random() {
    single_fault_suite(6);
}

// ---------------------------------------------------------------------------------------------
// double faults on encap-built trains
// ---------------------------------------------------------------------------------------------
fn apply_random_fault(s: &mut Vec<Vec<u8>>, pre: usize, rng: &mut Rng) {
    if s.len() <= pre {
        return;
    }
    let n = s.len();
    let i = pre + rng.below(n - pre);
    match rng.below(9) {
        0 => {
            s.remove(i);
        }
        1 => {
            let j = i + 1 + rng.below(n - i);
            let c = s[i].clone();
            s.insert(j, c);
        }
        2 => {
            let j = pre + rng.below(n - pre);
            s.swap(i, j);
        }
        3 => {
            if !s[i].is_empty() {
                let b = rng.below(s[i].len() * 8);
                flip_bit(&mut s[i], b);
            }
        }
        4 => {
            if !s[i].is_empty() {
                let len = 2 + rng.below(31);
                let start = rng.below(s[i].len() * 8);
                let m = if len == 32 { u32::MAX } else { (1u32 << len) - 1 };
                let pat = ((rng.next() as u32) & m) | 1 | (1 << (len - 1));
                xor_burst(&mut s[i], start, len, pat);
            }
        }
        5 => {
            let cut = rng.below(s[i].len() + 1);
            s[i].truncate(cut);
        }
        6 => {
            if s[i].len() > 2 {
                s[i][2] = rng.next() as u8;
            }
        }
        7 => {
            // total length of whatever packet (only meaningful on a first fragment)
            if s[i].len() > 4 {
                let v = (rng.next() as u16).to_be_bytes();
                s[i][3..5].copy_from_slice(&v);
            }
        }
        _ => {
            let l = s[i].len();
            if l >= 4 {
                let v = (rng.next() as u32).to_be_bytes();
                s[i][l - 4..].copy_from_slice(&v);
            }
        }
    }
}

fn double_fault_suite(label_kind: usize, iters: usize) {
    let mut rng = Rng::new(0xD0B1E + label_kind as u64);
    let trains = small_trains(label_kind, &mut rng);
    let mut n_cases = 0u64;
    for t in &trains {
        let exact = Cfg { slots: 2, max_pdu_size: 0, storage: t.pdu.len().max(3), nstor: 2, recycle: true, ample: false };
        for it in 0..iters {
            let mut s = t.pkts.clone();
            apply_random_fault(&mut s, t.prelude, &mut rng);
            apply_random_fault(&mut s, t.prelude, &mut rng);
            if it % 5 == 0 {
                apply_random_fault(&mut s, t.prelude, &mut rng);
            }
            run_seq(if it % 3 == 0 { exact } else { Cfg::ample_with(512) }, &s);
            n_cases += 1;
        }
    }
    eprintln!("[double faults, label kind {}] trains={} cases={}", label_kind, trains.len(), n_cases);
}

#[test]
fn t02_double_faults() {
    let handles: Vec<_> = (0..7)
        .map(|k| std::thread::spawn(move || double_fault_suite(k, 6000 * scale())))
        .collect();
    for h in handles {
        h.join().unwrap();
    }
    report("double faults");
}

// ---------------------------------------------------------------------------------------------
// arbitrary sequences of syntactically valid (and some invalid) fragments, spliced trains
// ---------------------------------------------------------------------------------------------
#[derive(Clone)]
struct Shadow {
    tl: u16,
    pt: u16,
    crc_label: Vec<u8>,
    data: Vec<u8>,
}
impl Shadow {
    fn want(&self) -> isize {
        self.tl as isize - 2 - self.crc_label.len() as isize
    }
    fn crc_with(&self, extra: &[u8]) -> u32 {
        crc_ref(&[&self.tl.to_be_bytes(), &self.pt.to_be_bytes(), &self.crc_label, &self.data, extra])
    }
}

struct SeqGen {
    rng: Rng,
    ids: Vec<u8>,
    cur: Vec<Option<Shadow>>,
    ghosts: Vec<Vec<Shadow>>,
    max_pay: usize,
    /// only emit packets the walker can delimit (no runt / truncated / cut-short extension chain)
    delimited_only: bool,
}

impl SeqGen {
    fn new(seed: u64, ids: Vec<u8>, max_pay: usize) -> Self {
        SeqGen { rng: Rng::new(seed), ids, cur: vec![None; 256], ghosts: vec![vec![]; 256], max_pay, delimited_only: false }
    }
    fn pick_id(&mut self) -> u8 {
        self.ids[self.rng.below(self.ids.len())]
    }
    fn pay_len(&mut self) -> usize {
        match self.rng.below(10) {
            0 => 0,
            1 => 1,
            2 => self.max_pay,
            _ => self.rng.below(self.max_pay + 1),
        }
    }
    fn rand_label(&mut self) -> (u8, Vec<u8>) {
        match self.rng.below(8) {
            0 => (2, vec![]),
            1 => (3, vec![]),
            2 => (1, vec![0, 0, 0]),
            3 | 4 => (1, self.rng.bytes(3)),
            5 => (0, vec![0, 0, 0, 0, 0, 1]),
            _ => {
                let mut b = self.rng.bytes(6);
                if b.iter().all(|&x| x == 0) {
                    b[0] = 1;
                }
                (0, b)
            }
        }
    }
    fn rand_pt(&mut self) -> u16 {
        match self.rng.below(6) {
            0 => 0x0600,
            1 => 0x0601,
            2 => 0xFFFF,
            _ => 0x0600 + (self.rng.next() as u16 % (0xFFFF - 0x0600)),
        }
    }

    fn supersede(&mut self, id: u8, new: Option<Shadow>) {
        if let Some(old) = self.cur[id as usize].take() {
            let g = &mut self.ghosts[id as usize];
            g.push(old);
            if g.len() > 4 {
                g.remove(0);
            }
        }
        self.cur[id as usize] = new;
    }

    /// next buffer to feed (one packet, possibly followed by trailing bytes)
    fn next_pkt(&mut self) -> Vec<u8> {
        let id = self.pick_id();
        let mut ev = self.rng.below(100);
        if self.delimited_only {
            while (89..=97).contains(&ev) {
                ev = self.rng.below(100);
            }
        }
        match ev {
            0..=21 => {
                // well formed first fragment
                let (lt, label) = self.rand_label();
                let pt = self.rand_pt();
                let (exts, fpt, rpt) = if self.rng.chance(1, 3) { rand_chain(&mut self.rng, pt) } else { (vec![], Some(pt), pt) };
                let (ptf, chain) = mk_chain(&exts, fpt);
                let p = self.pay_len();
                let payload = self.rng.bytes(p);
                let rest = match self.rng.below(6) {
                    0 => 0, // the end fragment will carry no payload
                    1 => 1,
                    _ => 1 + self.rng.below(3 * self.max_pay + 1),
                };
                let mut tl = (p + rest + 2 + label.len()).min(65535) as u16;
                if self.rng.chance(1, 12) {
                    tl = tl.wrapping_add(self.rng.below(5) as u16).wrapping_sub(2);
                }
                if self.rng.chance(1, 40) {
                    tl = [0xFFFFu16, 0xFFFE, 0x8000][self.rng.below(3)];
                }
                let sh = if (tl as usize) > p {
                    Some(Shadow { tl, pt: rpt, crc_label: label.clone(), data: payload.clone() })
                } else {
                    None
                };
                self.supersede(id, sh);
                mk_first(lt, id, tl, ptf, &label, &chain, &payload)
            }
            22..=27 => {
                // malformed first fragment whose frag id is readable: must supersede, never be accepted
                let p = self.pay_len().max(2);
                let payload = self.rng.bytes(p);
                let tl = (p + 20) as u16;
                self.supersede(id, None);
                let mut variant = self.rng.below(4);
                if self.delimited_only && (variant == 2 || (variant == 3 && self.rng.chance(3, 4))) {
                    variant = 1;
                }
                match variant {
                    0 => mk_first(0, id, tl, 0x0800, &[0; 6], &[], &payload),
                    1 => mk_first(2, id, tl, 0x0050, &[], &[], &payload), // unknown mandatory extension
                    2 => mk_first(2, id, tl, 0x0500, &[], &[1, 2, 3], &[]), // extension data cut short
                    _ => mk_first(1, id, (p as u16).saturating_sub(self.rng.below(2) as u16), 0x0800, &[1, 2, 3], &[], &payload),
                }
            }
            28..=49 => {
                // intermediate fragment
                let p = 1 + self.rng.below(self.max_pay.max(1));
                let payload = self.rng.bytes(p);
                if let Some(c) = self.cur[id as usize].as_mut() {
                    c.data.extend_from_slice(&payload);
                }
                let lt = [1u8, 2, 3][self.rng.below(3)];
                mk_inter(lt, id, &payload)
            }
            50..=66 => {
                // end fragment that completes the current reassembly (if the length still allows it)
                let lt = self.rng.below(4) as u8;
                let c = self.cur[id as usize].take();
                match c {
                    Some(c) if c.want() >= c.data.len() as isize && (c.want() as usize - c.data.len()) <= 4090 => {
                        let rest = self.rng.bytes(c.want() as usize - c.data.len());
                        let crc = c.crc_with(&rest);
                        mk_end(lt, id, &rest, crc)
                    }
                    Some(c) => {
                        let nb = self.rng.below(8);
                        let rest = self.rng.bytes(nb);
                        let crc = c.crc_with(&rest);
                        mk_end(lt, id, &rest, crc) // CRC right, length wrong
                    }
                    None => {
                        let b = self.rng.bytes(3);
                        mk_end(lt, id, &b, self.rng.next() as u32)
                    }
                }
            }
            67..=74 => {
                // tempting end fragment: verifies for a superseded (ghost) reassembly of this id
                let lt = 3;
                let g = self.ghosts[id as usize].last().cloned();
                self.cur[id as usize] = None;
                match g {
                    Some(g) if g.want() >= g.data.len() as isize && (g.want() as usize - g.data.len()) <= 4090 => {
                        let rest = self.rng.bytes(g.want() as usize - g.data.len());
                        let crc = g.crc_with(&rest);
                        mk_end(lt, id, &rest, crc)
                    }
                    _ => {
                        let b = self.rng.bytes(2);
                        mk_end(lt, id, &b, 0)
                    }
                }
            }
            75..=78 => {
                // end fragment with a wrong CRC / random length
                let p = self.rng.below(self.max_pay + 1);
                self.cur[id as usize] = None;
                let b = self.rng.bytes(p);
                mk_end(3, id, &b, self.rng.next() as u32)
            }
            79..=88 => {
                // complete packet (moves the re-use label and the free list)
                let (lt, label) = self.rand_label();
                let pt = self.rand_pt();
                let p = self.pay_len();
                let b = self.rng.bytes(p);
                mk_complete(lt, pt, &label, &[], &b)
            }
            89..=90 => vec![0, 0, 0, 0], // padding
            91..=92 => {
                // runt packets of each type
                match self.rng.below(4) {
                    0 => mk_pkt(true, false, 2, &[id, 0, 9]),
                    1 => mk_pkt(false, false, 3, &[id]),
                    2 => mk_pkt(false, true, 3, &[id, 1, 2, 3]),
                    _ => mk_pkt(true, true, 0, &[8, 0, 1, 2]),
                }
            }
            93..=94 => {
                // truncated buffer: header announces more than is there
                let b = self.rng.bytes(10);
                let mut p = mk_inter(3, id, &b);
                p.truncate(3 + self.rng.below(8));
                p
            }
            95..=97 => {
                // duplicate well formed first fragment with the same content twice in a row is produced
                // by emitting a first fragment now and remembering nothing: covered by 0..=21; here:
                // a first fragment with trailing garbage after the packet (buffer longer than the packet)
                let payload = self.rng.bytes(5);
                let tl = (5 + 7 + 2) as u16;
                self.supersede(id, Some(Shadow { tl, pt: 0x0800, crc_label: vec![], data: payload.clone() }));
                let mut p = mk_first(2, id, tl, 0x0800, &[], &[], &payload);
                p.extend_from_slice(&self.rng.bytes(6));
                p
            }
            _ => {
                // intermediate with label type 00 in the header of an END packet (S=0,E=1,LT=0 is a valid end)
                let c = self.cur[id as usize].take();
                match c {
                    Some(c) if c.want() >= c.data.len() as isize && (c.want() as usize - c.data.len()) <= 4090 => {
                        let rest = self.rng.bytes(c.want() as usize - c.data.len());
                        let crc = c.crc_with(&rest);
                        mk_end(0, id, &rest, crc)
                    }
                    _ => mk_end(0, id, &[], 0),
                }
            }
        }
    }
}

fn random_cfg(rng: &mut Rng, max_total: usize) -> (Cfg, Vec<u8>) {
    let slots = [1usize, 2, 3, 4, 7, 16, 255, 256][rng.below(8)];
    // ids that collide modulo the slot count, plus the extremes
    let mut ids = vec![0u8, 1, 255];
    ids.push((slots % 256) as u8);
    ids.push(((2 * slots) % 256) as u8);
    ids.push(((slots + 1) % 256) as u8);
    if rng.chance(1, 4) {
        return (Cfg::ample_with(max_total), ids);
    }
    let storage = [0usize, 1, 8, 40, 100, max_total][rng.below(6)];
    let nstor = match rng.below(4) {
        0 => 0,
        1 => 1,
        2 => slots.min(6),
        _ => (slots + 2).min(12),
    };
    let cfg = Cfg {
        slots,
        max_pdu_size: if rng.chance(1, 2) { 0 } else { storage },
        storage,
        nstor,
        recycle: rng.chance(3, 4),
        ample: false,
    };
    (cfg, ids)
}

fn random_sequences(seed: u64, n_seq: usize, len: usize) {
    let mut rng = Rng::new(seed);
    let mut total_deliv = 0u64;
    let mut total_pkts = 0u64;
    for s in 0..n_seq {
        let max_pay = [4usize, 12, 40][rng.below(3)];
        let (cfg, ids) = random_cfg(&mut rng, len * 41 + 64);
        let mut g = SeqGen::new(seed ^ (s as u64) << 20, ids, max_pay);
        let mut r = Runner::new(cfg);
        for k in 0..len {
            let p = g.next_pkt();
            r.feed(&p);
            if !cfg.ample {
                match rng.below(40) {
                    0 => {
                        r.provision(cfg.storage);
                    }
                    1 => {
                        r.provision(cfg.storage + rng.below(70000));
                    }
                    2 => r.reset_last_label(),
                    _ => {}
                }
            } else if k % 17 == 0 {
                r.reset_last_label();
            }
        }
        r.finish();
        total_deliv += r.stats.deliveries;
        total_pkts += r.stats.packets;
    }
    eprintln!("[random sequences seed {:#x}] sequences={} packets={} verified deliveries={}", seed, n_seq, total_pkts, total_deliv);
}

#[test]
fn t03_random_fragment_sequences() {
    let handles: Vec<_> = (0..8u64)
        .map(|k| std::thread::spawn(move || random_sequences(0x5EED_0000 + k, 6000 * scale(), 60)))
        .collect();
    for h in handles {
        h.join().unwrap();
    }
    report("random sequences");
}

// ---------------------------------------------------------------------------------------------
// frame walking: several packets + padding in one buffer, lengths returned by decap drive the walk
// ---------------------------------------------------------------------------------------------
fn frames(seed: u64, n_frames: usize) {
    let mut rng = Rng::new(seed);
    let mut pk = 0u64;
    let mut dl = 0u64;
    for f in 0..n_frames {
        let max_pay = [6usize, 30, 400, 2000][rng.below(4)];
        let (mut cfg, ids) = random_cfg(&mut rng, 70000);
        if !cfg.ample && rng.chance(1, 2) {
            cfg.storage = 80 * (max_pay + 1);
            cfg.max_pdu_size = 0;
            cfg.nstor = cfg.nstor.max(2).min(cfg.slots + 2);
        }
        let mut g = SeqGen::new(seed.wrapping_add(f as u64 * 7919), ids, max_pay);
        g.delimited_only = f % 4 != 0;
        let mut r = Runner::new(cfg);
        // 1..4 frames per runner so that reassemblies span frames
        for _ in 0..1 + rng.below(4) {
            let mut frame = vec![];
            let target = [200usize, 1500, 4097, 4098, 8000, 16000][rng.below(6)];
            while frame.len() < target {
                let mut p = g.next_pkt();
                // a truncated / garbage-suffixed packet inside a frame shifts the walk: keep them,
                // the oracle follows the decapsulator's own steps
                frame.append(&mut p);
            }
            // padding at the end of the frame
            let pad = rng.below(12);
            frame.extend(std::iter::repeat(0u8).take(pad));
            if rng.chance(1, 8) {
                // corrupt the frame somewhere
                let len = 1 + rng.below(32);
                let start = rng.below(frame.len() * 8 - 32);
                xor_burst(&mut frame, start, len, rng.next() as u32 | 1);
            }
            if rng.chance(1, 12) {
                let cut = rng.below(frame.len());
                frame.truncate(cut);
            }
            r.feed_frame(&frame);
            r.reset_last_label();
        }
        r.finish();
        pk += r.stats.packets;
        dl += r.stats.deliveries;
    }
    eprintln!("[frames seed {:#x}] frames-runs={} packets={} verified deliveries={}", seed, n_frames, pk, dl);
}

#[test]
fn t04_frame_walking() {
    let handles: Vec<_> =
        (0..8u64).map(|k| std::thread::spawn(move || frames(0xF4A3_0000 + k, 1500 * scale()))).collect();
    for h in handles {
        h.join().unwrap();
    }
    report("frames");
}

/// encap-built trains laid out back to back in frames (no fault): every PDU must come out, in order
#[test]
fn t04b_encap_trains_in_frames() {
    let mut rng = Rng::new(0xABCD);
    let mut delivered = 0;
    for it in 0..300 * scale() {
        let mut r = Runner::new(Cfg::ample_with(70000));
        let mut frame = vec![];
        let mut expect = vec![];
        for k in 0..1 + rng.below(5) {
            let pl = [0usize, 1, 50, 4093, 4094, 4095, 4096, 4097, 9000][rng.below(9)];
            let pdu = rng.bytes(pl);
            let label = label_of(rng.below(7), &mut rng);
            let sizes = [[4097usize, 4097, 4097], [5000, 300, 4097], [64, 4097, 70], [1000, 1000, 1000]][rng.below(4)];
            let pt = PTYPES[rng.below(8)];
            if let Some(t) = build_train(&pdu, (it + k) as u8, pt, label, &[], &sizes, false) {
                for p in &t.pkts {
                    frame.extend_from_slice(p);
                }
                expect.push(pdu);
            }
        }
        frame.extend_from_slice(&[0u8; 5]);
        r.feed_frame(&frame);
        r.finish();
        assert_eq!(r.deliveries.len(), expect.len());
        for (d, e) in r.deliveries.iter().zip(expect.iter()) {
            assert_eq!(&d.pdu, e);
        }
        delivered += expect.len();
    }
    eprintln!("[encap trains in frames] fragmented PDUs delivered and compared: {}", delivered);
}

// ---------------------------------------------------------------------------------------------
// size corners: 4093..4097, 65533..65535, fragment buffers above 4097, storages around the PDU / 65535
// ---------------------------------------------------------------------------------------------
fn big_faults(cfg: Cfg, t: &Train, rng: &mut Rng, expect_clean_delivery: bool, light: bool) -> u64 {
    let mut cases = 0u64;
    let n = t.pkts.len();
    let pre = t.prelude;
    let d = run_seq(cfg, &t.pkts);
    if expect_clean_delivery {
        assert_eq!(d, 1, "clean big train not delivered: {:?} pdu {}", cfg, t.pdu.len());
    } else {
        assert_eq!(d, 0);
    }
    cases += 1;
    for i in pre..n {
        let mut s = t.pkts.clone();
        s.remove(i);
        run_seq_expect_none(cfg, &s, "a fragment was dropped (big)");
        cases += 1;
        if i + 1 < n {
            let mut s = t.pkts.clone();
            s.swap(i, i + 1);
            if s[i] != s[i + 1] {
                run_seq_expect_none(cfg, &s, "two fragments were swapped (big)");
            }
            let mut s = t.pkts.clone();
            s.insert(i + 1, t.pkts[i].clone());
            let d = run_seq(cfg, &s);
            if i != pre {
                assert_eq!(d, 0, "duplicated fragment delivered (big)");
            }
            cases += 2;
        }
        // bit flips: all header bits, the first and last 8 bytes, a random sample
        let nbits = t.pkts[i].len() * 8;
        let mut bits: Vec<usize> = (0..(13 * 8).min(nbits)).step_by(if light { 3 } else { 1 }).collect();
        bits.extend((nbits.saturating_sub(64)..nbits).step_by(if light { 5 } else { 1 }));
        for _ in 0..(if light { 8 } else { 40 }) {
            bits.push(rng.below(nbits));
        }
        for b in bits {
            let mut s = t.pkts.clone();
            flip_bit(&mut s[i], b);
            if within(&t.protected[i], b, b) {
                run_seq_expect_none(cfg, &s, "one CRC-protected bit was flipped (big)");
            } else {
                run_seq(cfg, &s);
            }
            cases += 1;
        }
        for _ in 0..(if light { 12 } else { 60 }) {
            let len = 2 + rng.below(31);
            let start = rng.below(nbits - len);
            let m = if len == 32 { u32::MAX } else { (1u32 << len) - 1 };
            let pat = ((rng.next() as u32) & m) | 1 | (1 << (len - 1));
            let mut s = t.pkts.clone();
            xor_burst(&mut s[i], start, len, pat);
            if within(&t.protected[i], start, start + len - 1) {
                run_seq_expect_none(cfg, &s, "burst in CRC-protected bytes (big)");
            } else {
                run_seq(cfg, &s);
            }
            cases += 1;
        }
        // truncations: around both ends and a sample
        let l = t.pkts[i].len();
        let mut cuts: Vec<usize> = (0..l.min(if light { 6 } else { 16 })).collect();
        cuts.extend(l.saturating_sub(if light { 3 } else { 8 })..l);
        for _ in 0..(if light { 2 } else { 10 }) {
            cuts.push(rng.below(l));
        }
        for c in cuts {
            let mut s = t.pkts.clone();
            s[i].truncate(c);
            run_seq_expect_none(cfg, &s, "a fragment was truncated (big)");
            cases += 1;
        }
    }
    cases
}

fn big_suite(label_kind: usize) {
    let mut rng = Rng::new(0xB16 + label_kind as u64);
    let mut cases = 0u64;
    let mut trains = 0;
    let label = label_of(label_kind, &mut rng);
    let l = label.len();
    let maxp = 65535 - 2 - l;
    let lens = [4085usize, 4086, 4087, 4088, 4089, 4090, 4091, 4092, 4093, 4094, 4095, 4096, 4097, 4098, 8190, maxp - 2, maxp - 1, maxp];
    let size_sets: [&[usize]; 5] = [&[4097], &[5000], &[70000], &[4097, 100, 16, 4000], &[3000, 65536]];
    for &pl in &lens {
        for (si, sizes) in size_sets.iter().enumerate() {
            let pdu = rng.bytes(pl);
            let reuse = l > 0 && si % 2 == 1;
            let exts = if si == 3 { small_exts(2).0 } else { vec![] };
            let Some(t) = build_train(&pdu, 0xFE, PTYPES[si], label, &exts, sizes, reuse) else { continue };
            trains += 1;
            for p in &t.pkts {
                assert!(p.len() <= 4097, "encap emitted a packet of {} bytes", p.len());
            }
            let full = pl >= maxp - 2 && si > 1;
            let cfgs = [
                (Cfg::ample_with(70000), true),
                (Cfg { slots: 1, max_pdu_size: pl, storage: pl.max(3), nstor: 1, recycle: true, ample: false }, true),
                (Cfg { slots: 3, max_pdu_size: 0, storage: 65535, nstor: 2, recycle: true, ample: false }, true),
                (Cfg { slots: 2, max_pdu_size: 0, storage: 65536, nstor: 4, recycle: false, ample: false }, true),
                (Cfg { slots: 256, max_pdu_size: 0, storage: 100000, nstor: 1, recycle: true, ample: false }, true),
                (Cfg { slots: 1, max_pdu_size: 0, storage: pl - 1, nstor: 3, recycle: true, ample: false }, false),
                (Cfg { slots: 1, max_pdu_size: 0, storage: pl / 2, nstor: 3, recycle: true, ample: false }, false),
            ];
            for (ci, (cfg, ok)) in cfgs.iter().enumerate() {
                if (pl > 9000 && !(full && (ci == 0 || ci == 2 || ci == 5))) || (ci >= 5 && t.prelude > 0 && pl < 4) {
                    // cheap path: clean run only
                    let d = run_seq(*cfg, &t.pkts);
                    assert_eq!(d, *ok as usize, "{:?} pdu {}", cfg, pl);
                    cases += 1;
                    continue;
                }
                cases += big_faults(*cfg, &t, &mut rng, *ok, pl > 9000 || ci > 2);
            }
        }
    }
    eprintln!("[size corners, label kind {}] trains={} cases={}", label_kind, trains, cases);
}

#[test]
fn t05_size_corners() {
    let handles: Vec<_> = [0usize, 1, 2, 4, 6].into_iter().map(|k| std::thread::spawn(move || big_suite(k))).collect();
    for h in handles {
        h.join().unwrap();
    }
    report("size corners");
}

/// hand-built reassemblies that exceed the 16-bit counters: storages above 65535 bytes, many full-size
/// intermediate fragments, total length 0xFFFF; nothing may be delivered unless length and CRC verify
#[test]
fn t05b_oversized_reassemblies() {
    let mut rng = Rng::new(0x0E5);
    let mut cases = 0;
    for storage in [65535usize, 65536, 69999, 70000, 140000, 300000] {
        for tl in [0xFFFFu16, 0xFFFE, 4, 2, 3, 9, 40, 5000, 8000, 0x8000] {
            for n_inter in [14usize, 15, 16, 17, 32, 33] {
                for lt in [2u8, 1, 0] {
                    let cfg = Cfg { slots: 1, max_pdu_size: 0, storage, nstor: 1, recycle: true, ample: false };
                    let mut r = Runner::new(cfg);
                    let label = match lt { 0 => vec![1u8; 6], 1 => vec![0u8; 3], _ => vec![] };
                    let first = rng.bytes(1);
                    let mut sh = Shadow { tl, pt: 0x0800, crc_label: label.clone(), data: first.clone() };
                    r.feed(&mk_first(lt, 9, tl, 0x0800, &label, &[], &first));
                    for _ in 0..n_inter {
                        let p = rng.bytes(4094);
                        sh.data.extend_from_slice(&p);
                        r.feed(&mk_inter(3, 9, &p));
                    }
                    // end fragments whose CRC is right for the accumulated bytes, and for the bytes modulo 65536
                    // length of the end payload: the one that makes the reassembled length equal to the
                    // announced one modulo 65536 when that is possible, a random one otherwise
                    let wrap = 65536 + tl as isize - 2 - label.len() as isize - sh.data.len() as isize;
                    let nrest = if (0..=4090).contains(&wrap) { wrap as usize } else { rng.below(4091) };
                    let rest = rng.bytes(nrest);
                    let crc = sh.crc_with(&rest);
                    r.feed(&mk_end(3, 9, &rest, crc));
                    let mut wrapped = sh.clone();
                    let keep = wrapped.data.len() % 65536;
                    wrapped.data.truncate(keep);
                    r.feed(&mk_first(lt, 9, tl, 0x0800, &label, &[], &first));
                    for c in sh.data[1..].chunks(4094) {
                        r.feed(&mk_inter(3, 9, c));
                    }
                    let fit = tl as isize - 2 - label.len() as isize - keep as isize;
                    let rest2 = if (0..=4090).contains(&fit) { rng.bytes(fit as usize) } else { rest.clone() };
                    let crc = wrapped.crc_with(&rest2);
                    r.feed(&mk_end(3, 9, &rest2, crc));
                    r.finish();
                    cases += 1;
                }
            }
        }
    }
    eprintln!("[oversized reassemblies] cases={}", cases);
}

// ---------------------------------------------------------------------------------------------
// memory corners: 1..=256 slots, colliding ids, free list empty / exactly full, error then valid traffic
// ---------------------------------------------------------------------------------------------
#[test]
fn t06_slots_and_free_list() {
    let mut rng = Rng::new(0x5107);
    let mut cases = 0u64;
    let mut delivered = 0u64;
    for slots in 1..=256usize {
        for variant in 0..6 {
            let nstor = match variant {
                0 => 0,
                1 => 1,
                2 => 2,
                3 => slots,
                4 => slots + 2, // exactly full
                _ => slots + 1,
            };
            let cfg = Cfg { slots, max_pdu_size: 16, storage: 64, nstor, recycle: variant % 2 == 0, ample: false };
            let mut r = Runner::new(cfg);
            let a = rng.next() as u8;
            let b = if rng.chance(1, 2) { (a as usize + slots) as u8 } else { rng.next() as u8 };
            let c = (a as usize + 2 * slots) as u8;
            let ta = build_train(&rng.bytes(40), a, 0x0800, label_of(rng.below(7), &mut rng), &[], &[30, 20, 64], false).unwrap();
            let tb = build_train(&rng.bytes(33), b, 0x86DD, label_of(rng.below(7), &mut rng), &[], &[28, 16, 64], false).unwrap();
            let tc = build_train(&rng.bytes(64), c, 0x0700, Label::Broadcast, &[], &[24, 24, 64], false).unwrap();
            // interleave the three trains in a random merge order
            let mut idx = [0usize; 3];
            let ts = [&ta, &tb, &tc];
            loop {
                let live: Vec<usize> = (0..3).filter(|&k| idx[k] < ts[k].pkts.len()).collect();
                if live.is_empty() {
                    break;
                }
                let k = live[rng.below(live.len())];
                r.feed(&ts[k].pkts[idx[k]]);
                idx[k] += 1;
                if rng.chance(1, 10) {
                    r.provision(64 + rng.below(3) * 70000);
                }
            }
            // error path, then valid traffic on the same ids: must verify like any other
            let mut bad = ta.pkts.clone();
            let l = bad.len();
            bad[l - 1][3] ^= 0x10;
            r.feed_all(&bad);
            r.provision(64);
            r.provision(64);
            let before = r.deliveries.len();
            r.feed_all(&ta.pkts);
            if slots >= 1 {
                assert_eq!(r.deliveries.len(), before + 1, "valid train after an error path not delivered: {:?}", cfg);
            }
            r.finish();
            delivered += r.deliveries.len() as u64;
            cases += 1;
        }
    }
    eprintln!("[slots and free list] memories={} verified deliveries={}", cases, delivered);
    report("slots");
}

/// restarts: a new first fragment on a busy frag id, at every point of the older train, with
/// the remaining fragments of BOTH trains following in every merge order that keeps per-train order
#[test]
fn t07_restarts_and_splices() {
    let mut rng = Rng::new(0x7E57);
    let mut cases = 0u64;
    for round in 0..40 * scale() {
        // same length, same label, same protocol type: the most tempting splice
        let same_meta = round % 2 == 0;
        let la = label_of(rng.below(7), &mut rng);
        let lb = if same_meta { la } else { label_of(rng.below(7), &mut rng) };
        let pa = rng.bytes(30);
        let mut pb = rng.bytes(30);
        if round % 4 == 0 {
            // B differs from A in one payload byte only
            pb = pa.clone();
            pb[17] ^= 1;
        }
        let ta = build_train(&pa, 5, 0x0800, la, &[], &[20 + la.len(), 12, 12, 64], false).unwrap();
        let tb = build_train(&pb, 5, if same_meta { 0x0800 } else { 0x0801 }, lb, &[], &[20 + lb.len(), 12, 12, 64], false).unwrap();
        // all merges of A and B preserving internal order (lengths are 4 or 5 packets: <= 252 merges)
        let (na, nb) = (ta.pkts.len(), tb.pkts.len());
        let total = na + nb;
        for mask in 0u32..(1 << total) {
            if mask.count_ones() as usize != na {
                continue;
            }
            let (mut ia, mut ib) = (0, 0);
            let mut s = vec![];
            for k in 0..total {
                if mask >> k & 1 == 1 {
                    s.push(ta.pkts[ia].clone());
                    ia += 1;
                } else {
                    s.push(tb.pkts[ib].clone());
                    ib += 1;
                }
            }
            for cfg in [Cfg::ample_with(256), Cfg { slots: 1, max_pdu_size: 30, storage: 30, nstor: 1, recycle: true, ample: false }] {
                let mut r = Runner::new(cfg);
                r.feed_all(&s);
                r.finish();
                // whatever is delivered was verified by the oracle; additionally it can only be A or B
                for d in &r.deliveries {
                    assert!(d.pdu == pa || d.pdu == pb, "a PDU that was never sent was delivered");
                }
                cases += 1;
            }
        }
    }
    eprintln!("[restarts and splices] merge orders run: {}", cases);
}
