//! Model-based differential harness for property C17
//! "The bundled fragment memory honours the memory-trait contract".
//!
//! Public API only.  The reference model is a bag of free buffers plus at most one saved
//! (context, buffer) per slot.  Every operation on the real `SimpleGseMemory` is mirrored on
//! the model and the results are compared: error kind, identity of the buffer handed back
//! (address + length + contents), equality of the context, and -- through a clone of the real
//! memory that is drained with the public operations -- the complete state of the memory.
//!
//! Stages (all `#[test]`):
//!   1. c17_exhaustive       all op sequences up to a bounded depth, 1..4 slots, sizes below/at/above,
//!                           aliasing / non-aliasing frag ids, free list empty / nearly full / full
//!   2. c17_random_long      long random sequences, 1..256 slots, PDU sizes 0,1,4093..4097,65533..65536,70000
//!   3. c17_capacity_corner  free list exactly full for every slot count 1..=256, refusal order, hand back
//!   4. c17_through_decap    the memory driven by the real Decapsulator (wrapper memory implementing the trait)
//!                           with fragmented traffic, aliasing frag ids, drops, corruptions, too small storage
//!
//! How to run (the file is an integration test, public API only):
//!   ln -s ../out/harness_C17.rs tests/harness_C17.rs
//!   CARGO_NET_OFFLINE=true cargo test --offline [--release] --test harness_C17 -- --nocapture
//!
//! Depth / volume: env C17_DEPTH (default 5 release, 4 debug), C17_SLOTS_MAX (default 4, exhaustive stage only),
//! C17_SEEDS (default 6 release / 2 debug), C17_THREADS (default 6).
#![allow(clippy::all)]

use dvb_gse_rust::crc::DefaultCrc;
use dvb_gse_rust::gse_decap::{
    DecapContext, DecapError, DecapMemoryError, DecapStatus, Decapsulator, GseDecapMemory,
    SimpleGseMemory,
};
use dvb_gse_rust::gse_decap::gse_decap_memory::MemoryContext;
use dvb_gse_rust::gse_encap::{EncapMetadata, EncapStatus, Encapsulator};
use dvb_gse_rust::header_extension::{Extension, SimpleMandatoryExtensionHeaderManager};
use dvb_gse_rust::label::Label;
use std::sync::Mutex;

/// The bundled memory keeps `slots + 2` free buffers at most (`SimpleGseMemory::MIN_MARGIN`).
const MARGIN: usize = 2;

// ---------------------------------------------------------------------------------------------
// statistics
// ---------------------------------------------------------------------------------------------
#[derive(Default, Clone, Debug)]
struct Stats {
    sequences: u64,
    ops: u64,
    state_checks: u64,
    prov_ok: u64,
    prov_overflow: u64,
    prov_overflow_and_small: u64,
    prov_too_small: u64,
    pdu_ok: u64,
    pdu_underflow: u64,
    frag_reuse_same_id: u64,
    frag_reuse_alias_id: u64,
    frag_from_free: u64,
    frag_underflow: u64,
    take_hit: u64,
    take_miss_empty: u64,
    take_miss_alias: u64,
    save_ok: u64,
    save_refused_same_id: u64,
    save_refused_alias: u64,
    non_lifo: u64,
    zero_len_buffers: u64,
    big_buffers: u64, // > 65535 bytes
}

impl Stats {
    fn add(&mut self, o: &Stats) {
        self.sequences += o.sequences;
        self.ops += o.ops;
        self.state_checks += o.state_checks;
        self.prov_ok += o.prov_ok;
        self.prov_overflow += o.prov_overflow;
        self.prov_overflow_and_small += o.prov_overflow_and_small;
        self.prov_too_small += o.prov_too_small;
        self.pdu_ok += o.pdu_ok;
        self.pdu_underflow += o.pdu_underflow;
        self.frag_reuse_same_id += o.frag_reuse_same_id;
        self.frag_reuse_alias_id += o.frag_reuse_alias_id;
        self.frag_from_free += o.frag_from_free;
        self.frag_underflow += o.frag_underflow;
        self.take_hit += o.take_hit;
        self.take_miss_empty += o.take_miss_empty;
        self.take_miss_alias += o.take_miss_alias;
        self.save_ok += o.save_ok;
        self.save_refused_same_id += o.save_refused_same_id;
        self.save_refused_alias += o.save_refused_alias;
        self.non_lifo += o.non_lifo;
        self.zero_len_buffers += o.zero_len_buffers;
        self.big_buffers += o.big_buffers;
    }
}

// ---------------------------------------------------------------------------------------------
// model
// ---------------------------------------------------------------------------------------------
#[derive(Clone, Debug)]
struct Entry {
    ptr: usize,
    content: Vec<u8>,
}

impl Entry {
    fn of(b: &[u8]) -> Entry {
        Entry { ptr: b.as_ptr() as usize, content: b.to_vec() }
    }
    /// same allocation (zero length boxes have no allocation: only the length can be compared)
    fn same_buffer(&self, b: &[u8]) -> bool {
        self.content.len() == b.len() && (b.is_empty() || self.ptr == b.as_ptr() as usize)
    }
}

struct Model {
    n: usize,
    p: usize,
    cap: usize,
    free: Vec<Entry>,
    slots: Vec<Option<(DecapContext, Entry)>>,
}

/// The real memory + the model, every operation cross checked.
struct Checked {
    real: SimpleGseMemory,
    model: Model,
    stats: Stats,
    /// complete state comparison after every operation
    auto_check: bool,
    /// byte budget above which the automatic state comparison is only done every 16th op / on errors
    ops_since_check: usize,
    trace: Vec<String>,
    trace_on: bool,
}

impl Checked {
    fn create(n: usize, p: usize, d: usize, f: usize) -> Checked {
        Checked {
            real: SimpleGseMemory::new(n, p, d, f),
            model: Model { n, p, cap: n + MARGIN, free: vec![], slots: vec![None; n] },
            stats: Stats::default(),
            auto_check: false,
            ops_since_check: 0,
            trace: vec![],
            trace_on: false,
        }
    }

    fn fail(&self, msg: String) -> ! {
        panic!(
            "C17 VIOLATION (slots={}, pdu_size={}): {}\nsequence: {}\ntrace: {:#?}\nreal: {:?}",
            self.model.n, self.model.p, msg, CURRENT.with(|c| format!("{:?}", c.borrow())), self.trace, self.real
        );
    }

    fn log(&mut self, s: String) {
        if self.trace_on {
            self.trace.push(s);
        }
    }

    fn bytes_in_memory(&self) -> usize {
        self.model.free.iter().map(|e| e.content.len()).sum::<usize>()
            + self.model.slots.iter().flatten().map(|(_, e)| e.content.len()).sum::<usize>()
    }

    fn after_op(&mut self, was_error: bool) {
        self.stats.ops += 1;
        if !self.auto_check {
            return;
        }
        self.ops_since_check += 1;
        // small memories: after every operation; large ones: amortised (<= 32 KiB copied per operation),
        // a divergence between memory and model is persistent and is caught by the next comparison
        let bytes = self.bytes_in_memory();
        if bytes <= 16 * 1024 || (was_error && bytes <= 256 * 1024) || self.ops_since_check * 32 * 1024 >= bytes {
            self.check_state();
        }
    }

    /// Remove from the model's bag the entry that is the buffer `b`.
    fn take_free_matching(&mut self, b: &[u8]) -> Entry {
        let len = self.model.free.len();
        let pos = (0..len).rev().find(|&i| self.model.free[i].same_buffer(b));
        let Some(pos) = pos else {
            self.fail(format!(
                "a buffer (ptr {:#x}, len {}) that is not one of the free buffers was handed out",
                b.as_ptr() as usize,
                b.len()
            ));
        };
        if pos != len - 1 {
            self.stats.non_lifo += 1;
        }
        let e = self.model.free.remove(pos);
        if e.content != b {
            self.fail(format!("contents of a free buffer (len {}) were modified by the memory", b.len()));
        }
        e
    }

    fn provision(&mut self, storage: Box<[u8]>) -> Result<(), DecapMemoryError> {
        let before = Entry::of(&storage);
        if storage.is_empty() {
            self.stats.zero_len_buffers += 1;
        }
        if storage.len() > 65535 {
            self.stats.big_buffers += 1;
        }
        let full = self.model.free.len() == self.model.cap;
        let small = storage.len() < self.model.p;
        self.log(format!("provision(len {})", storage.len()));
        let r = self.real.provision_storage(storage);
        match (&r, full, small) {
            (Ok(()), false, false) => {
                self.model.free.push(before);
                self.stats.prov_ok += 1;
            }
            (Err(DecapMemoryError::StorageOverflow(b)), true, _) => {
                if !before.same_buffer(b) || before.content != **b {
                    self.fail("StorageOverflow did not hand the same buffer back".into());
                }
                if small {
                    self.stats.prov_overflow_and_small += 1;
                } else {
                    self.stats.prov_overflow += 1;
                }
            }
            (Err(DecapMemoryError::BufferTooSmall(b)), false, true) => {
                if !before.same_buffer(b) || before.content != **b {
                    self.fail("BufferTooSmall did not hand the same buffer back".into());
                }
                self.stats.prov_too_small += 1;
            }
            _ => self.fail(format!(
                "provision_storage(len {}) with free list full={} and too small={} answered {:?}",
                before.content.len(),
                full,
                small,
                r.as_ref().map_err(err_name)
            )),
        }
        self.after_op(r.is_err());
        r
    }

    fn pdu(&mut self) -> Result<Box<[u8]>, DecapMemoryError> {
        self.log("new_pdu".into());
        let r = self.real.new_pdu();
        match &r {
            Ok(b) => {
                self.take_free_matching(b);
                self.stats.pdu_ok += 1;
            }
            Err(DecapMemoryError::StorageUnderflow) => {
                if !self.model.free.is_empty() {
                    self.fail(format!("new_pdu underflows while {} buffers are free", self.model.free.len()));
                }
                self.stats.pdu_underflow += 1;
            }
            Err(e) => self.fail(format!("new_pdu answered {}", err_name(e))),
        }
        self.after_op(r.is_err());
        r
    }

    fn frag(&mut self, context: DecapContext) -> Result<MemoryContext, DecapMemoryError> {
        let idx = context.frag_id as usize % self.model.n;
        let ctx_in = context.clone();
        self.log(format!("new_frag(id {})", context.frag_id));
        let r = self.real.new_frag(context);
        match self.model.slots[idx].take() {
            Some((old, e)) => match &r {
                Ok((c, b)) => {
                    if *c != ctx_in {
                        self.fail("new_frag returned another context than the one given".into());
                    }
                    if !e.same_buffer(b) {
                        self.fail("new_frag over an occupied slot did not reuse the buffer of the slot".into());
                    }
                    if e.content != **b {
                        self.fail("new_frag modified the contents of the reused buffer".into());
                    }
                    if old.frag_id == ctx_in.frag_id {
                        self.stats.frag_reuse_same_id += 1;
                    } else {
                        self.stats.frag_reuse_alias_id += 1;
                    }
                }
                Err(e) => self.fail(format!("new_frag over an occupied slot failed with {}", err_name(e))),
            },
            None => match &r {
                Ok((c, b)) => {
                    if *c != ctx_in {
                        self.fail("new_frag returned another context than the one given".into());
                    }
                    self.take_free_matching(b);
                    self.stats.frag_from_free += 1;
                }
                Err(DecapMemoryError::StorageUnderflow) => {
                    if !self.model.free.is_empty() {
                        self.fail("new_frag underflows while buffers are free".into());
                    }
                    self.stats.frag_underflow += 1;
                }
                Err(e) => self.fail(format!("new_frag on an empty slot answered {}", err_name(e))),
            },
        }
        self.after_op(r.is_err());
        r
    }

    fn take(&mut self, frag_id: u8) -> Result<MemoryContext, DecapMemoryError> {
        let idx = frag_id as usize % self.model.n;
        let hit = matches!(&self.model.slots[idx], Some((c, _)) if c.frag_id == frag_id);
        self.log(format!("take_frag(id {})", frag_id));
        let r = self.real.take_frag(frag_id);
        if hit {
            let (c, e) = self.model.slots[idx].take().unwrap();
            match &r {
                Ok((rc, rb)) => {
                    if *rc != c {
                        self.fail(format!("take_frag({}) returned a context that is not the one last saved", frag_id));
                    }
                    if !e.same_buffer(rb) {
                        self.fail(format!("take_frag({}) returned a buffer that is not the one last saved", frag_id));
                    }
                    if e.content != **rb {
                        self.fail(format!("take_frag({}): buffer contents modified by the memory", frag_id));
                    }
                    self.stats.take_hit += 1;
                }
                Err(e) => self.fail(format!("take_frag({}) of a saved id answered {}", frag_id, err_name(e))),
            }
        } else {
            match &r {
                Err(DecapMemoryError::UndefinedId) => {
                    if self.model.slots[idx].is_some() {
                        self.stats.take_miss_alias += 1;
                    } else {
                        self.stats.take_miss_empty += 1;
                    }
                }
                Ok(_) => self.fail(format!("take_frag({}) returned a context although this id is not saved", frag_id)),
                Err(e) => self.fail(format!("take_frag({}) of an unknown id answered {}", frag_id, err_name(e))),
            }
        }
        self.after_op(r.is_err());
        r
    }

    fn save(&mut self, context: MemoryContext) -> Result<(), DecapMemoryError> {
        let idx = context.0.frag_id as usize % self.model.n;
        let e = Entry::of(&context.1);
        let ctx = context.0.clone();
        self.log(format!("save_frag(id {}, len {})", ctx.frag_id, e.content.len()));
        let r = self.real.save_frag(context);
        let occupant: Option<u8> = self.model.slots[idx].as_ref().map(|(c, _)| c.frag_id);
        match (occupant, &r) {
            (None, Ok(())) => {
                self.model.slots[idx] = Some((ctx, e));
                self.stats.save_ok += 1;
            }
            (Some(old), Err(DecapMemoryError::MemoryCorrupted)) => {
                if old == ctx.frag_id {
                    self.stats.save_refused_same_id += 1;
                } else {
                    self.stats.save_refused_alias += 1;
                }
            }
            (occ, _) => self.fail(format!(
                "save_frag(id {}) into a slot occupied={} answered {:?}",
                ctx.frag_id,
                occ.is_some(),
                r.as_ref().map_err(err_name)
            )),
        }
        self.after_op(r.is_err());
        r
    }

    /// Complete comparison of the state of the real memory with the model, on a clone that is drained
    /// with the public operations.
    fn check_state(&mut self) {
        self.stats.state_checks += 1;
        self.ops_since_check = 0;
        let mut c = self.real.clone();
        for slot in self.model.slots.iter() {
            if let Some((ctx, e)) = slot {
                match c.take_frag(ctx.frag_id) {
                    Ok((rc, rb)) => {
                        if rc != *ctx {
                            self.fail(format!("state: slot of id {} holds another context", ctx.frag_id));
                        }
                        if *rb != *e.content {
                            self.fail(format!("state: buffer saved under id {} has other contents", ctx.frag_id));
                        }
                    }
                    Err(e) => self.fail(format!("state: id {} is saved in the model, memory says {}", ctx.frag_id, err_name(&e))),
                }
            }
        }
        let mut real_free: Vec<Box<[u8]>> = vec![];
        while let Ok(b) = c.new_pdu() {
            real_free.push(b);
            if real_free.len() > self.model.cap + 8 {
                break;
            }
        }
        if real_free.len() != self.model.free.len() {
            self.fail(format!(
                "state: {} free buffers in the memory, {} expected",
                real_free.len(),
                self.model.free.len()
            ));
        }
        let in_order = real_free.iter().zip(self.model.free.iter().rev()).all(|(a, b)| **a == *b.content);
        if !in_order {
            // bag comparison
            let mut a: Vec<Vec<u8>> = real_free.iter().map(|b| b.to_vec()).collect();
            let mut b: Vec<Vec<u8>> = self.model.free.iter().map(|e| e.content.clone()).collect();
            a.sort();
            b.sort();
            if a != b {
                self.fail("state: the free buffers are not the expected ones".into());
            }
        }
        let empty = SimpleGseMemory::new(self.model.n, self.model.p, 0, 0);
        if c != empty {
            self.fail(format!("state: the memory holds something the model does not: {:?}", c));
        }
    }
}

fn err_name(e: &DecapMemoryError) -> String {
    match e {
        DecapMemoryError::StorageOverflow(b) => format!("StorageOverflow(len {})", b.len()),
        DecapMemoryError::BufferTooSmall(b) => format!("BufferTooSmall(len {})", b.len()),
        DecapMemoryError::StorageUnderflow => "StorageUnderflow".into(),
        DecapMemoryError::UndefinedId => "UndefinedId".into(),
        DecapMemoryError::MemoryCorrupted => "MemoryCorrupted".into(),
    }
}

/// The checked memory is itself a memory: the Decapsulator can drive it.
impl GseDecapMemory for Checked {
    fn new(max_frag_id: usize, max_pdu_size: usize, max_delay: usize, max_pdu_frag: usize) -> Self {
        let mut c = Checked::create(max_frag_id, max_pdu_size, max_delay, max_pdu_frag);
        c.auto_check = true;
        c
    }
    fn provision_storage(&mut self, storage: Box<[u8]>) -> Result<(), DecapMemoryError> {
        self.provision(storage)
    }
    fn new_pdu(&mut self) -> Result<Box<[u8]>, DecapMemoryError> {
        self.pdu()
    }
    fn new_frag(&mut self, context: DecapContext) -> Result<MemoryContext, DecapMemoryError> {
        self.frag(context)
    }
    fn take_frag(&mut self, frag_id: u8) -> Result<MemoryContext, DecapMemoryError> {
        self.take(frag_id)
    }
    fn save_frag(&mut self, context: MemoryContext) -> Result<(), DecapMemoryError> {
        self.save(context)
    }
}

// ---------------------------------------------------------------------------------------------
// helpers: rng, contexts, buffers
// ---------------------------------------------------------------------------------------------
struct Rng(u64);
impl Rng {
    fn new(seed: u64) -> Rng {
        Rng(seed.wrapping_mul(0x9E3779B97F4A7C15) ^ 0xD1B54A32D192ED03)
    }
    fn next(&mut self) -> u64 {
        let mut x = self.0;
        x ^= x >> 12;
        x ^= x << 25;
        x ^= x >> 27;
        self.0 = x;
        x.wrapping_mul(0x2545F4914F6CDD1D)
    }
    fn below(&mut self, n: usize) -> usize {
        (self.next() % n as u64) as usize
    }
    fn pick<T: Clone>(&mut self, v: &[T]) -> T {
        v[self.below(v.len())].clone()
    }
    fn chance(&mut self, pct: usize) -> bool {
        self.below(100) < pct
    }
}

fn labels() -> Vec<Label> {
    vec![
        Label::SixBytesLabel([1, 2, 3, 4, 5, 6]),
        Label::SixBytesLabel([0, 0, 0, 0, 0, 1]),
        Label::SixBytesLabel([0; 6]),
        Label::ThreeBytesLabel([0, 0, 0]),
        Label::ThreeBytesLabel([9, 8, 7]),
        Label::Broadcast,
        Label::ReUse,
    ]
}
const PTYPES: [u16; 10] = [0x0000, 0x0081, 0x00FF, 0x0100, 0x0101, 0x05FF, 0x0600, 0x0601, 0x0800, 0xFFFF];
const LENS: [u16; 12] = [0, 1, 2, 4093, 4094, 4095, 4096, 4097, 65533, 65534, 65535, 1000];

fn extension_chains() -> Vec<Vec<Extension>> {
    let mut v: Vec<Vec<Extension>> = vec![vec![]];
    // every H-LEN class of optional extension
    let opt = [
        Extension::new(0x0100, &[]).unwrap(),
        Extension::new(0x01AB, &[]).unwrap(),
        Extension::new(0x0200, &[1, 2]).unwrap(),
        Extension::new(0x0300, &[1, 2, 3, 4]).unwrap(),
        Extension::new(0x0400, &[1, 2, 3, 4, 5, 6]).unwrap(),
        Extension::new(0x05FF, &[1, 2, 3, 4, 5, 6, 7, 8]).unwrap(),
    ];
    for e in opt.iter() {
        v.push(vec![e.clone()]);
    }
    // mandatory extensions with 0..8 data bytes
    for l in 0..=8usize {
        let data: Vec<u8> = (0..l as u8).collect();
        let m = Extension::new(0x0000 + l as u16, &data).unwrap();
        v.push(vec![m.clone()]);
        v.push(vec![opt[l % opt.len()].clone(), m.clone()]);
        v.push(vec![m, Extension::new(0x00FF, &data).unwrap()]);
    }
    v
}

fn mk_ctx(frag_id: u8, k: usize, chains: &[Vec<Extension>], labels: &[Label]) -> DecapContext {
    DecapContext::new(
        labels[k % labels.len()],
        PTYPES[(k / 3) % PTYPES.len()],
        frag_id,
        LENS[(k / 5) % LENS.len()].wrapping_add((k as u16).wrapping_mul(3)),
        LENS[(k / 7) % LENS.len()],
        k % 2 == 1,
        chains[k % chains.len()].clone(),
    )
}

fn fresh(len: usize, tag: usize) -> Box<[u8]> {
    let mut v = vec![0u8; len];
    // cheap but position dependent pattern
    let t = (tag as u32).wrapping_mul(2654435761);
    for (i, b) in v.iter_mut().enumerate() {
        *b = (t >> 11) as u8 ^ (i as u8).wrapping_mul(31) ^ ((i >> 8) as u8).wrapping_mul(7) ^ 0xA5;
    }
    v.into_boxed_slice()
}

/// what the decapsulator does to a buffer it owns: write into it
fn scribble(b: &mut [u8], k: usize) {
    let x = (k as u8) | 1;
    if b.len() <= 512 {
        for v in b.iter_mut() {
            *v = v.wrapping_add(x);
        }
    } else {
        let l = b.len();
        for i in [0, 1, l / 2, l - 2, l - 1] {
            b[i] = b[i].wrapping_add(x);
        }
        for v in b[..64].iter_mut() {
            *v ^= x;
        }
    }
}

static TOTAL: Mutex<Vec<(String, Stats)>> = Mutex::new(Vec::new());

thread_local! {
    /// (prefill, sequence) being replayed by the exhaustive stage, for failure messages
    static CURRENT: std::cell::RefCell<(usize, Vec<Op>)> = std::cell::RefCell::new((0, Vec::new()));
}

fn report(stage: &str, s: &Stats) {
    println!("[C17 {stage}] {:#?}", s);
    TOTAL.lock().unwrap().push((stage.to_string(), s.clone()));
}

fn env_usize(name: &str, default: usize) -> usize {
    std::env::var(name).ok().and_then(|v| v.parse().ok()).unwrap_or(default)
}

// ---------------------------------------------------------------------------------------------
// stage 1: exhaustive bounded depth
// ---------------------------------------------------------------------------------------------
#[derive(Clone, Copy, Debug, PartialEq)]
enum Op {
    ProvBelow,
    ProvAt,
    ProvAbove,
    ProvHand,
    NewPdu,
    NewFrag(u8),
    Take(u8),
    SaveTop,
    SaveAs(u8),
}

struct Hand {
    items: Vec<(Option<DecapContext>, Box<[u8]>)>,
}

struct World<'a> {
    m: Checked,
    hand: Hand,
    k: usize,
    chains: &'a [Vec<Extension>],
    labels: &'a [Label],
}

impl<'a> World<'a> {
    fn new(n: usize, p: usize, chains: &'a [Vec<Extension>], labels: &'a [Label]) -> World<'a> {
        World { m: Checked::create(n, p, 0, 0), hand: Hand { items: vec![] }, k: 0, chains, labels }
    }

    fn receive(&mut self, ctx: Option<DecapContext>, mut b: Box<[u8]>) {
        self.k += 1;
        scribble(&mut b, self.k);
        self.hand.items.push((ctx, b));
    }

    fn provision(&mut self, b: Box<[u8]>) {
        match self.m.provision(b) {
            Ok(()) => {}
            Err(DecapMemoryError::StorageOverflow(b)) | Err(DecapMemoryError::BufferTooSmall(b)) => self.receive(None, b),
            Err(_) => unreachable!(),
        }
    }

    fn apply(&mut self, op: Op) {
        self.k += 1;
        let p = self.m.model.p;
        match op {
            Op::ProvBelow => {
                let b = fresh(p - 1, self.k);
                self.provision(b)
            }
            Op::ProvAt => {
                let b = fresh(p, self.k);
                self.provision(b)
            }
            Op::ProvAbove => {
                let b = fresh(p + 1, self.k);
                self.provision(b)
            }
            Op::ProvHand => {
                let (_, b) = self.hand.items.pop().unwrap();
                self.provision(b)
            }
            Op::NewPdu => {
                if let Ok(b) = self.m.pdu() {
                    self.receive(None, b)
                }
            }
            Op::NewFrag(id) => {
                let ctx = mk_ctx(id, self.k, self.chains, self.labels);
                if let Ok((c, b)) = self.m.frag(ctx) {
                    self.receive(Some(c), b)
                }
            }
            Op::Take(id) => {
                if let Ok((c, b)) = self.m.take(id) {
                    self.receive(Some(c), b)
                }
            }
            Op::SaveTop => {
                let (c, b) = self.hand.items.pop().unwrap();
                let _ = self.m.save((c.unwrap(), b));
            }
            Op::SaveAs(id) => {
                let b = match self.hand.items.pop() {
                    Some((_, b)) => b,
                    None => fresh(p, self.k),
                };
                let ctx = mk_ctx(id, self.k, self.chains, self.labels);
                let _ = self.m.save((ctx, b));
            }
        }
    }

    fn applicable(&self, op: Op) -> bool {
        match op {
            Op::ProvBelow => self.m.model.p > 0,
            Op::ProvHand => !self.hand.items.is_empty(),
            Op::SaveTop => matches!(self.hand.items.last(), Some((Some(_), _))),
            _ => true,
        }
    }
}

fn alphabet(n: usize) -> Vec<Op> {
    let mut ids: Vec<u8> = vec![0, 1, n as u8, (n + 1) as u8, 255];
    ids.sort();
    ids.dedup();
    let mut a = vec![Op::ProvBelow, Op::ProvAt, Op::ProvAbove, Op::ProvHand, Op::NewPdu, Op::SaveTop];
    for &i in &ids {
        a.push(Op::NewFrag(i));
        a.push(Op::Take(i));
        a.push(Op::SaveAs(i));
    }
    a
}

fn run_seq<'a>(
    n: usize,
    p: usize,
    prefill: usize,
    seq: &[Op],
    chains: &'a [Vec<Extension>],
    labels: &'a [Label],
    stats: &mut Stats,
) -> World<'a> {
    let mut w = World::new(n, p, chains, labels);
    for i in 0..prefill {
        // alternate sizes at / above the configured size
        let b = fresh(p + (i % 2), 1000 + i);
        w.m.provision(b).unwrap();
    }
    for (i, &op) in seq.iter().enumerate() {
        if i + 1 == seq.len() {
            // count every op instance once: as the last op of its own node
            w.m.stats = Stats::default();
        }
        w.apply(op);
    }
    // complete state comparison at the end of every sequence (every prefix is itself a sequence)
    w.m.check_state();
    stats.sequences += 1;
    // only the last op is new with respect to the parent node
    w
}

fn dfs(
    n: usize,
    p: usize,
    prefill: usize,
    seq: &mut Vec<Op>,
    left: usize,
    alpha: &[Op],
    chains: &[Vec<Extension>],
    labels: &[Label],
    stats: &mut Stats,
    leaf_stats: &mut Stats,
) {
    let w = run_seq(n, p, prefill, seq, chains, labels, stats);
    // op statistics: the last op of each node (plus the prefill of the root)
    leaf_stats.add(&w.m.stats);
    if left == 0 {
        return;
    }
    let ok: Vec<Op> = alpha.iter().copied().filter(|&o| w.applicable(o)).collect();
    drop(w);
    for op in ok {
        seq.push(op);
        CURRENT.with(|c| c.borrow_mut().1.push(op));
        dfs(n, p, prefill, seq, left - 1, alpha, chains, labels, stats, leaf_stats);
        CURRENT.with(|c| c.borrow_mut().1.pop());
        seq.pop();
    }
}

#[test]
fn c17_exhaustive() {
    let depth = env_usize("C17_DEPTH", if cfg!(debug_assertions) { 4 } else { 5 });
    let mut configs = vec![];
    for n in 1..=env_usize("C17_SLOTS_MAX", 4) {
        for p in [0usize, 1, 5] {
            let cap = n + MARGIN;
            for prefill in [0, cap - 1, cap] {
                configs.push((n, p, prefill));
            }
        }
    }
    let threads = env_usize("C17_THREADS", 6);
    let work = Mutex::new(configs.clone());
    let total = Mutex::new((Stats::default(), Stats::default()));
    std::thread::scope(|s| {
        for _ in 0..threads {
            s.spawn(|| {
                let chains = extension_chains();
                let labels = labels();
                loop {
                    let job = work.lock().unwrap().pop();
                    let Some((n, p, prefill)) = job else { break };
                    let alpha = alphabet(n);
                    let mut st = Stats::default();
                    let mut replay = Stats::default();
                    let mut seq = vec![];
                    CURRENT.with(|c| *c.borrow_mut() = (prefill, vec![]));
                    dfs(n, p, prefill, &mut seq, depth, &alpha, &chains, &labels, &mut st, &mut replay);
                    println!(
                        "[C17 exhaustive] slots={n} pdu_size={p} prefill={prefill} depth={depth} alphabet={} sequences={}",
                        alpha.len(),
                        st.sequences
                    );
                    let mut t = total.lock().unwrap();
                    t.0.add(&st);
                    t.1.add(&replay);
                }
            });
        }
    });
    let t = total.lock().unwrap();
    let mut s = t.1.clone();
    s.sequences = t.0.sequences;
    println!("[C17 exhaustive] configs={} depth={} (every op instance counted once)", configs.len(), depth);
    report("exhaustive", &s);
    assert_eq!(s.non_lifo, 0, "informational: the free list is expected to be LIFO");
}

// ---------------------------------------------------------------------------------------------
// stage 2: random long sequences
// ---------------------------------------------------------------------------------------------
fn size_choices(p: usize) -> Vec<usize> {
    let mut v = vec![0, 1, p, p + 1, p + 1, p, p, 2 * p + 3, 4093, 4094, 4095, 4096, 4097, 65533, 65534, 65535, 65536, 70000];
    if p > 0 {
        v.push(p - 1);
        v.push(p - 1);
        v.push(p / 2);
    }
    v
}

fn random_run(n: usize, p: usize, seed: u64, len: usize, chains: &[Vec<Extension>], labels: &[Label]) -> Stats {
    let mut r = Rng::new(seed ^ ((n as u64) << 32) ^ ((p as u64) << 8));
    let mut w = World::new(n, p, chains, labels);
    w.m.auto_check = true;
    w.m.trace_on = len <= 400;
    let sizes = size_choices(p);
    // id pool: everything, or a few ids that do / do not alias
    let pool: Vec<u8> = if r.chance(40) {
        (0..=255u8).collect()
    } else {
        let base = r.below(256);
        let mut v = vec![];
        for j in 0..4usize {
            for d in 0..3usize {
                v.push(((base + d + j * n) % 256) as u8);
            }
        }
        v.push(255);
        v.push(0);
        v
    };
    let mut phase = 0;
    for step in 0..len {
        if step % 40 == 0 {
            phase = r.below(4);
        }
        // keep the hand bounded (memory footprint): give back or drop
        while w.hand.items.len() > 10 {
            let (_, b) = w.hand.items.remove(0);
            if r.chance(50) {
                let _ = w.m.provision(b);
            }
        }
        let weights: [usize; 6] = match phase {
            0 => [60, 5, 10, 5, 10, 10],  // fill
            1 => [15, 5, 25, 25, 30, 0],  // fragment churn
            2 => [5, 50, 10, 30, 5, 0],   // drain
            _ => [20, 15, 20, 20, 20, 5], // mixed
        };
        let tot: usize = weights.iter().sum();
        let mut x = r.below(tot);
        let mut op = 0;
        for (i, wgt) in weights.iter().enumerate() {
            if x < *wgt {
                op = i;
                break;
            }
            x -= wgt;
        }
        w.k += 1;
        match op {
            0 => {
                // provision a fresh buffer, or one of the hand
                if !w.hand.items.is_empty() && r.chance(40) {
                    let i = r.below(w.hand.items.len());
                    let (_, b) = w.hand.items.remove(i);
                    w.provision(b);
                } else {
                    let b = fresh(r.pick(&sizes), w.k);
                    w.provision(b);
                }
            }
            1 => w.apply(Op::NewPdu),
            2 => {
                let id = r.pick(&pool);
                w.apply(Op::NewFrag(id))
            }
            3 => {
                let id = r.pick(&pool);
                w.apply(Op::Take(id))
            }
            4 => {
                // save: own context, or a new one
                if w.hand.items.is_empty() {
                    let b = fresh(r.pick(&sizes), w.k);
                    let ctx = mk_ctx(r.pick(&pool), w.k, chains, labels);
                    let _ = w.m.save((ctx, b));
                } else {
                    let i = r.below(w.hand.items.len());
                    let (c, mut b) = w.hand.items.remove(i);
                    scribble(&mut b, w.k);
                    let ctx = match c {
                        Some(mut c) if r.chance(70) => {
                            // what the decapsulator does: the reassembled length moves on
                            c.pdu_len = c.pdu_len.wrapping_add(r.below(5000) as u16);
                            c
                        }
                        _ => mk_ctx(r.pick(&pool), w.k, chains, labels),
                    };
                    let _ = w.m.save((ctx, b));
                }
            }
            _ => {
                // burst of provisions until refusal: reach "exactly full"
                for _ in 0..n + MARGIN + 1 {
                    w.k += 1;
                    let b = fresh(if r.chance(80) { p } else { r.pick(&sizes) }, w.k);
                    w.provision(b);
                    if w.hand.items.len() > 10 {
                        w.hand.items.clear();
                    }
                }
            }
        }
    }
    w.m.check_state();
    w.m.stats.sequences = 1;
    w.m.stats.clone()
}

#[test]
fn c17_random_long() {
    let seeds = env_usize("C17_SEEDS", if cfg!(debug_assertions) { 2 } else { 6 });
    let slots: Vec<usize> = vec![1, 2, 3, 4, 5, 7, 8, 15, 16, 17, 31, 32, 64, 100, 127, 128, 129, 200, 255, 256];
    let psizes: Vec<usize> = vec![0, 1, 2, 16, 4093, 4094, 4095, 4096, 4097, 65533, 65534, 65535, 65536, 70000];
    let mut jobs = vec![];
    for &n in &slots {
        for &p in &psizes {
            for s in 0..seeds {
                jobs.push((n, p, s as u64));
            }
        }
    }
    let njobs = jobs.len();
    let work = Mutex::new(jobs);
    let total = Mutex::new(Stats::default());
    let threads = env_usize("C17_THREADS", 6);
    std::thread::scope(|sc| {
        for _ in 0..threads {
            sc.spawn(|| {
                let chains = extension_chains();
                let labels = labels();
                loop {
                    let job = work.lock().unwrap().pop();
                    let Some((n, p, seed)) = job else { break };
                    // big buffers with many slots: shorter runs (memory copies dominate)
                    let len = if p >= 4093 { if n > 32 { 600 } else { 1200 } } else { 3000 };
                    let st = random_run(n, p, seed, len, &chains, &labels);
                    total.lock().unwrap().add(&st);
                }
            });
        }
    });
    let t = total.lock().unwrap();
    println!("[C17 random_long] runs={njobs}");
    report("random_long", &t);
}

// ---------------------------------------------------------------------------------------------
// stage 3: capacity corner for every slot count
// ---------------------------------------------------------------------------------------------
#[test]
fn c17_capacity_corner() {
    let chains = extension_chains();
    let labels = labels();
    let mut total = Stats::default();
    for n in 1..=256usize {
        for p in [0usize, 1, 7, 4096] {
            let mut w = World::new(n, p, &chains, &labels);
            w.m.auto_check = n <= 16 || p < 4096;
            // too small is refused while there is room (BufferTooSmall), hands the buffer back
            if p > 0 {
                w.apply(Op::ProvBelow);
                assert_eq!(w.hand.items.len(), 1);
                w.hand.items.clear();
            }
            // exactly cap provisions are accepted
            for i in 0..n + MARGIN {
                w.k += 1;
                let b = fresh(p + (i % 3), w.k);
                w.provision(b);
                assert!(w.hand.items.is_empty(), "slots={n} p={p}: provision {i} of {} refused", n + MARGIN);
            }
            // the next ones are refused: at size, above, below (overflow wins over too small)
            w.apply(Op::ProvAt);
            w.apply(Op::ProvAbove);
            if p > 0 {
                w.apply(Op::ProvBelow);
            }
            assert_eq!(w.hand.items.len(), if p > 0 { 3 } else { 2 });
            w.hand.items.clear();
            // fill every slot with a fragment: n buffers leave the free list
            for id in 0..n {
                w.apply(Op::NewFrag(id as u8));
                w.apply(Op::SaveTop);
            }
            // the slots being full does not count against the free list: n more provisions fit
            for _ in 0..n {
                w.apply(Op::ProvAt);
                assert!(w.hand.items.is_empty());
            }
            w.apply(Op::ProvAt);
            assert_eq!(w.hand.items.len(), 1);
            w.hand.items.clear();
            // aliasing ids: miss, leave in place; exact ids: hit
            for id in (0..256usize).rev() {
                w.apply(Op::Take(id as u8));
            }
            // every slot is now empty again (all ids < n were taken); drain the free list until underflow
            w.hand.items.clear();
            for _ in 0..n + MARGIN {
                w.apply(Op::NewPdu);
            }
            assert_eq!(w.hand.items.len(), n + MARGIN);
            w.apply(Op::NewPdu);
            w.apply(Op::NewFrag(3));
            assert_eq!(w.hand.items.len(), n + MARGIN);
            // refill after underflow: valid traffic after the error paths
            w.apply(Op::ProvHand);
            w.apply(Op::NewFrag(200));
            w.apply(Op::SaveTop);
            w.apply(Op::NewFrag((200 + n) as u8)); // aliases 200 when 200+n < 256: reuses its buffer (else may underflow)
            if w.applicable(Op::SaveTop) {
                w.apply(Op::SaveTop);
            }
            w.apply(Op::Take(200));
            w.apply(Op::Take((200 + n) as u8));
            w.m.check_state();
            w.m.stats.sequences = 1;
            total.add(&w.m.stats);
        }
    }
    report("capacity_corner", &total);
}

// ---------------------------------------------------------------------------------------------
// stage 4: the memory driven by the real decapsulator
// ---------------------------------------------------------------------------------------------
fn packets_of(enc: &mut Encapsulator<DefaultCrc>, pdu: &[u8], fid: u8, ptype: u16, label: Label, r: &mut Rng) -> Vec<Vec<u8>> {
    let mut out: Vec<Vec<u8>> = vec![];
    let frag_sizes = [16usize, 17, 20, 33, 64, 100, 257, 1000, 4095, 4096, 4097, 4098, 5000];
    let mut size = r.pick(&frag_sizes);
    if r.chance(25) {
        size = 5000; // complete packet when the pdu fits
    }
    let mut buf = vec![0u8; size];
    let st = enc.encap(pdu, fid, EncapMetadata::new(ptype, label), &mut buf);
    let mut ctx = match st {
        Ok(EncapStatus::CompletedPkt(l)) => {
            out.push(buf[..l as usize].to_vec());
            return out;
        }
        Ok(EncapStatus::FragmentedPkt(l, c)) => {
            out.push(buf[..l as usize].to_vec());
            c
        }
        Err(_) => return out,
    };
    // long PDUs: few big fragments most of the time (every packet costs copies of the whole storage in the model)
    let big_only = pdu.len() > 8000 && r.chance(85);
    for _ in 0..100000 {
        let mut buf = vec![0u8; if big_only { r.pick(&frag_sizes[8..]) } else { r.pick(&frag_sizes) }];
        match enc.encap_frag(pdu, &ctx, &mut buf) {
            Ok(EncapStatus::CompletedPkt(l)) => {
                out.push(buf[..l as usize].to_vec());
                return out;
            }
            Ok(EncapStatus::FragmentedPkt(l, c)) => {
                out.push(buf[..l as usize].to_vec());
                ctx = c;
            }
            Err(_) => {} // buffer too small for this step: try another size
        }
    }
    out
}

fn decap_run(n: usize, p: usize, seed: u64, npdus: usize) -> (Stats, [u64; 4]) {
    let mut r = Rng::new(seed.wrapping_mul(77) ^ (n as u64) << 20 ^ p as u64);
    let mem = <Checked as GseDecapMemory>::new(n, p, 0, 0);
    let mut dec = Decapsulator::new(mem, DefaultCrc {}, SimpleMandatoryExtensionHeaderManager {});
    let mut enc = Encapsulator::new(DefaultCrc {});
    let mut tag = 0usize;
    // provision: a mix of sizes, some refused
    let sizes = size_choices(p);
    for _ in 0..n + MARGIN + 1 {
        tag += 1;
        let l = if r.chance(70) { p } else { r.pick(&sizes) };
        let _ = dec.provision_storage(fresh(l, tag));
    }
    let pdu_lens = [1usize, 2, 10, 100, 1000, 4093, 4094, 4095, 4096, 4097, 9000, 65533, 65534, 65535];
    let labs = [
        Label::SixBytesLabel([1, 2, 3, 4, 5, 6]),
        Label::ThreeBytesLabel([0, 0, 0]),
        Label::ThreeBytesLabel([4, 5, 6]),
        Label::Broadcast,
        Label::SixBytesLabel([0; 6]), // refused by the encapsulator: no packet
    ];
    let ptypes = [0x0600u16, 0x0601, 0x0800, 0x86DD, 0xFFFF];
    let mut outcome = [0u64; 4]; // completed, fragmented, errors, memory errors
    let mut done = 0;
    while done < npdus {
        // a window of concurrent PDUs, frag ids chosen to alias or not
        let win = 1 + r.below(4);
        let base = r.below(256);
        let mut streams: Vec<Vec<Vec<u8>>> = vec![];
        let mut originals: Vec<Vec<u8>> = vec![];
        for j in 0..win {
            let fid = (if r.chance(50) { (base + j * n) % 256 } else { (base + j) % 256 }) as u8;
            let mut plen = r.pick(&pdu_lens);
            if p < 4093 && r.chance(60) {
                plen = 1 + r.below(2 * p + 20);
            }
            tag += 1;
            let pdu = fresh(plen, tag).to_vec();
            let pk = packets_of(&mut enc, &pdu, fid, r.pick(&ptypes), r.pick(&labs), &mut r);
            streams.push(pk);
            originals.push(pdu);
            done += 1;
        }
        let mut pos = vec![0usize; win];
        loop {
            let live: Vec<usize> = (0..win).filter(|&j| pos[j] < streams[j].len()).collect();
            if live.is_empty() {
                break;
            }
            let j = r.pick(&live);
            let mut pkt = streams[j][pos[j]].clone();
            pos[j] += 1;
            let roll = r.below(100);
            if roll < 4 {
                continue; // lost
            } else if roll < 8 {
                let l = pkt.len();
                pkt[l - 1] ^= 0x55; // corrupted (CRC or payload)
            } else if roll < 11 && pos[j] >= 2 {
                pos[j] = 0; // the sender restarts this PDU: a new first fragment over the pending one
                continue;
            } else if roll < 13 {
                pkt.truncate(pkt.len() / 2); // truncated
            }
            // frame walking with padding behind the packet
            pkt.extend_from_slice(&[0u8; 5][..r.below(5)]);
            match dec.decap(&pkt) {
                Ok((DecapStatus::CompletedPkt(b, md), _)) => {
                    outcome[0] += 1;
                    let l = md.pdu_len();
                    if !(originals.iter().any(|o| o.len() == l && o[..] == b[..l]) || roll < 13) {
                        println!("[C17 through_decap] note: completed PDU (len {l}) is none of the PDUs of the window (not a C17 matter)");
                    }
                    // give the buffer (or another one) back
                    tag += 1;
                    let back = if r.chance(70) { b } else { fresh(r.pick(&sizes), tag) };
                    let _ = dec.provision_storage(back);
                }
                Ok((DecapStatus::FragmentedPkt(_), _)) => outcome[1] += 1,
                Ok((DecapStatus::Padding, _)) => {}
                Err((DecapError::ErrorMemory(_), _)) => outcome[3] += 1,
                Err(_) => outcome[2] += 1,
            }
            // the application tops the memory up now and then, or steals a buffer
            if r.chance(10) {
                tag += 1;
                let l = if r.chance(70) { p } else { r.pick(&sizes) };
                let _ = dec.provision_storage(fresh(l, tag));
            }
            if r.chance(2) {
                let _ = dec.new_pdu();
            }
        }
    }
    dec.memory.check_state();
    dec.memory.stats.sequences = 1;
    (dec.memory.stats.clone(), outcome)
}

#[test]
fn c17_through_decap() {
    let seeds = env_usize("C17_SEEDS", if cfg!(debug_assertions) { 2 } else { 6 });
    let mut jobs = vec![];
    for n in [1usize, 2, 3, 4, 8, 256] {
        for p in [0usize, 1, 50, 4096, 4097, 65535, 70000] {
            for s in 0..seeds {
                jobs.push((n, p, s as u64));
            }
        }
    }
    let njobs = jobs.len();
    let work = Mutex::new(jobs);
    let total = Mutex::new((Stats::default(), [0u64; 4]));
    let threads = env_usize("C17_THREADS", 6);
    std::thread::scope(|sc| {
        for _ in 0..threads {
            sc.spawn(|| loop {
                let job = work.lock().unwrap().pop();
                let Some((n, p, seed)) = job else { break };
                let npdus = if p >= 4096 { 500 } else { 3000 };
                let (st, oc) = decap_run(n, p, seed, npdus);
                let mut t = total.lock().unwrap();
                t.0.add(&st);
                for i in 0..4 {
                    t.1[i] += oc[i];
                }
            });
        }
    });
    let t = total.lock().unwrap();
    println!(
        "[C17 through_decap] runs={njobs} decap outcomes: completed={} fragmented={} errors={} memory_errors={}",
        t.1[0], t.1[1], t.1[2], t.1[3]
    );
    report("through_decap", &t.0);
}
